#!/bin/bash
# tools/soak.sh <tier> <seeds...> — run every claimed check for several seeds (4 at a time), report anything that is not rc=0
tier="$1"; shift
./setup.sh >/dev/null 2>&1
ids=$(python3 -c "import json;print(' '.join(c['property_id'] for c in json.load(open('MANIFEST.json'))['checks']))")
for s in "$@"; do for id in $ids; do echo "$s $id"; done; done | xargs -P 4 -L 1 bash -c 'out=$(VERIF_SEED=$0 timeout 3500 ./check $1 --tier '"$tier"' 2>&1); rc=$?; echo "seed=$0 $1 rc=$rc $(echo "$out" | tail -1)"; if [ $rc != 0 ]; then echo "$out" | grep -E "^  C|HARNESS|VIOLATION" | head -5 | cut -c1-400; fi'
