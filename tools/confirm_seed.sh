#!/bin/bash
# tools/confirm_seed.sh <seed-dir>   — confirm a seeded change in a scratch worktree:
#   demo passes without the patch, tests pass with it, demo fails with it.
set -u
d="$(cd "$1" && pwd)"
wt=$(mktemp -d /tmp/wt-confirm.XXXX)
git -C /repo worktree add -q --detach "$wt" HEAD || exit 3
cd "$wt"
export PYTHONPATH="$wt/src"
/venv/bin/python -B "$d/demo.py" >/dev/null 2>&1; base=$?
git apply "$d/patch.diff" || { echo "patch does not apply"; git -C /repo worktree remove --force "$wt"; exit 3; }
tests=$(/venv/bin/python -m pytest -q -p no:cacheprovider -x 2>&1 | tail -1)
/venv/bin/python -B "$d/demo.py" >/dev/null 2>&1; mut=$?
cd /; git -C /repo worktree remove --force "$wt"
echo "demo-without=$base demo-with=$mut tests: $tests"
[ "$base" = 0 ] && [ "$mut" != 0 ] && echo "$tests" | grep -q "911 passed" && echo CONFIRMED
