"""tools/mutant_prompt.py <ID> <n> — create the scratch worktree + output dir for one mutation sub-agent and print its prompt
(the agent gets the property text only; nothing from /verif)."""
import json, subprocess, sys
from pathlib import Path
pid, n = sys.argv[1], int(sys.argv[2])
prop = next(json.loads(l) for l in open("/verif/properties.jsonl") if json.loads(l)["id"] == pid)
wt = f"/tmp/wt-{pid}-{n}"
out = f"/tmp/seed-out/{pid}-{n}"
Path(out).mkdir(parents=True, exist_ok=True)
if not Path(wt).exists():
    subprocess.run(["git", "-C", "/repo", "worktree", "add", "-q", "--detach", wt, "HEAD"], check=True)
nudge = ["Prefer a change on the compile-time side (lexer / parser / compiler / optimizer / nodes / idtracking).",
         "Prefer a change on the run-time side (runtime.py / environment.py / filters.py / tests.py / sandbox.py / utils.py / loaders / caches).",
         "Prefer two cooperating small edits in different files that each look harmless alone.",
         "Prefer a change in a helper that several features share (utils.py, async_utils.py, visitor.py, idtracking.py, nodes.py, "
         "a runtime helper, a base class) whose effect on this property is indirect, or a change to a default value, a cache, an "
         "ordering or an exception class that only matters for this property under an unusual configuration."][(n - 1) % 4]
print(f"""You are testing how well a verification suite detects regressions in pallets/jinja (a Python template engine).
You get ONE semantic property and your own scratch git worktree of the repository at {wt} (work only there; never touch /repo or /verif; do not read /verif).
Python: /venv/bin/python (3.12, jinja2's dependencies installed). Run things with PYTHONPATH={wt}/src so that your worktree's jinja2 is imported
(check: /venv/bin/python -c "import jinja2; print(jinja2.__file__)" must print a path under {wt}). The repository's test suite:
cd {wt} && PYTHONPATH={wt}/src /venv/bin/python -m pytest -q -p no:cacheprovider -x   (911 tests pass on the unchanged tree).

PROPERTY {pid}: {prop['title']}
{prop['statement']}
Quantified over: {prop['quantifier']['text']}

TASK: make a small, realistic change to the jinja2 source in your worktree (the kind of bug a refactoring, optimisation or edge-case
"simplification" introduces) that BREAKS this property while the code still imports, compiles and ALL 911 existing tests still pass.
The breakage must need something specific to manifest — an unusual input, a particular configuration or operator combination, a multi-step
sequence, a boundary value, two features interacting — not something ordinary use would expose at once (a template like {{{{ 1 + 1 }}}} must
still work). {nudge}
Do not add new files to the source tree, do not touch tests, do not make the change conditional on environment variables or magic strings.

DELIVER in {out}/ :
  patch.diff   — `git -C {wt} diff` of your change (must apply with `git apply` on the clean tree)
  demo.py      — a standalone script (imports jinja2 from PYTHONPATH) that exits 0 on the UNCHANGED tree and exits non-zero (assert failure)
                 on the changed tree, demonstrating the property violation through jinja2's public API
  notes.txt    — what you changed, why the tests still pass, exactly what is needed for the bug to manifest, and the commands you ran with results
Verify yourself before finishing: (1) with the change: the 911 tests pass and demo.py fails; (2) after `git -C {wt} checkout -- .`: demo.py passes;
(3) `git -C {wt} apply --check {out}/patch.diff` succeeds on the clean tree. Leave the worktree CLEAN (checkout -- .) when done.
Final message: one paragraph summary (file/function changed, trigger condition).""")
