#!/bin/bash
# tools/integrate.sh <branch>  — merge a builder branch into the current branch; generated files are regenerated, not merged
set -u
b="$1"
cd /verif
git checkout -q -- evidence 2>/dev/null    # evidence of other runs is regenerated, never merged by hand
if ! git diff --quiet; then git add -A; git commit -qm "wip before merging $b"; fi
git merge --no-commit --no-ff "$b" >/tmp/merge.log 2>&1
if grep -q "Aborting\|fatal" /tmp/merge.log; then echo "MERGE FAILED:"; cat /tmp/merge.log; exit 1; fi
for f in MANIFEST.json lean/JinjaV/Wire/All.lean lean/JinjaV.lean; do
  git checkout --ours -- "$f" 2>/dev/null; git add "$f" 2>/dev/null
done
for f in $(git diff --name-only --diff-filter=U); do
  case "$f" in
    evidence/*) git checkout --theirs -- "$f"; git add "$f";;
    lean/JinjaV/Gen/*|translate/baseline/*) git checkout --ours -- "$f"; git add "$f"; regen=1;;   # regenerated from /repo below
    *) echo "CONFLICT: $f";;
  esac
done
if [ "${regen:-0}" = 1 ]; then /venv/bin/python translate/update_baseline.py >/dev/null 2>&1; git add lean/JinjaV/Gen translate/baseline; fi
python3 tools/gen_wire_all.py
/venv/bin/python tools/mk_manifest.py
git status --short | grep -v "^A \|^M " | head
if grep -rln '^<<<<<<< \|^>>>>>>> ' --include=*.py --include=*.lean --include=*.json --include=*.md --include=*.sh . 2>/dev/null | grep -v "^./lean/.lake" | head -5 | grep -q .; then
  echo "CONFLICT MARKERS LEFT IN:"; grep -rln '^<<<<<<< \|^>>>>>>> ' --include=*.py --include=*.lean --include=*.json --include=*.md --include=*.sh . | grep -v "^./lean/.lake" | head
fi
