#!/bin/bash
# tools/run_seed.sh <seed-dir> <ID> [<ID>…]  — apply the patch to /repo, run the quick checks, undo.
d="$(cd "$1" && pwd)"; shift
git -C /repo diff --quiet || { echo "/repo is dirty"; exit 3; }
git -C /repo apply "$d/patch.diff" || exit 3
for id in "$@"; do
  cp /verif/evidence/$id.json /tmp/.ev-$id-$$.json 2>/dev/null   # evidence must come from runs on the unchanged tree
  out=$(cd /verif && timeout 3000 ./check "$id" --tier "${TIER:-quick}" 2>&1); rc=$?
  echo "== $id rc=$rc"; echo "$out" | grep -E "VIOLATION|KNOWN|HARNESS|seed=" | head -8
  mv /tmp/.ev-$id-$$.json /verif/evidence/$id.json 2>/dev/null
  echo "$out" | grep -E "^  C[0-9]" | head -4
done
git -C /repo checkout -- .
