#!/bin/bash
# tools/proc_seed.sh <seed-id> <check ids…> — confirm a seeded change (demo passes clean / fails patched) and run the named quick checks on it
s="$1"; shift
d=/tmp/seed-out/$s
echo "#### $s"
if ! git -C /repo apply --check $d/patch.diff 2>/dev/null; then echo "patch does not apply to HEAD"; exit 3; fi
tools/confirm_seed.sh $d 2>&1 | grep -v "^WARNING" | tail -1
tools/try_patch.sh $d/patch.diff "$@" 2>&1 | grep -v "^WARNING\|^KNOWN" | cut -c1-330 | grep "rc=\|^  C" | head -${LINES_MAX:-4}
