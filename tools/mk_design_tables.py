"""Regenerate the generated sections of DESIGN.md (between `<!-- BEGIN:x -->` / `<!-- END:x -->` markers):
status  — one row per property: claimed level, theorem count, Lean modules, design note
seeds   — every seeded change under seeded/: what it breaks, what it needs, which check reported what
findings — every entry of known_findings.json and known_findings.d/*.json
"""
import json, re, subprocess, sys
from pathlib import Path
ROOT = Path(__file__).resolve().parent.parent
sys.path.insert(0, str(ROOT))


def cell(s, n=400):
    s = " ".join(str(s).split()).replace("|", "\\|")
    return s if len(s) <= n else s[: n - 1] + "…"


def status():
    man = json.loads((ROOT / "MANIFEST.json").read_text())
    claimed = {c["property_id"]: c for c in man["checks"]}
    na = {c["property_id"]: c["reason"] for c in man.get("not_applicable", [])}
    rows = ["| id | claimed | theorems (audited each run) | evaluations (last quick run) | per-property note |", "|---|---|---|---|---|"]
    for i in range(1, 40):
        pid = f"C{i:02d}"
        note = f"[design/{pid}.md](design/{pid}.md)" if (ROOT / "design" / f"{pid}.md").exists() else "§5 " + pid
        if pid in claimed:
            ev = ROOT / "evidence" / f"{pid}.json"
            ths = evals = "?"
            if ev.exists():
                e = json.loads(ev.read_text())
                ths = f"{e['coverage'].get('discharged', '?')}/{e['coverage'].get('obligations', '?')}"
                evals = e["coverage"].get("evaluations", "?")
            rows.append(f"| {pid} | {claimed[pid]['level_claimed']['category']} | {ths} | {evals} | {note} |")
        else:
            rows.append(f"| {pid} | not claimed | — | — | {cell(na.get(pid, ''), 160)} |")
    return "\n".join(rows)


def seeds():
    rows = ["| seed | breaks | what it needs to manifest (excerpt) | caught by the property's quick check | what was reported |", "|---|---|---|---|---|"]
    for d in sorted((ROOT / "seeded").iterdir()):
        m = d / "meta.json"
        if not m.exists():
            continue
        j = json.loads(m.read_text())
        rows.append(f"| {d.name} | {j.get('breaks_property')} | {cell(j.get('needs_to_manifest', ''), 260)} | "
                    f"{'yes' if j.get('detected_by_quick_check') else 'no'} | {cell(j.get('check_report', ''), 300)} |")
    return "\n".join(rows)


def findings():
    items = json.loads((ROOT / "known_findings.json").read_text()).get("findings", [])
    d = ROOT / "known_findings.d"
    if d.is_dir():
        for q in sorted(d.glob("*.json")):
            items += json.loads(q.read_text()).get("findings", [])
    rows = ["| property | kind | key | commit | what |", "|---|---|---|---|---|"]
    for f in sorted(items, key=lambda f: (f.get("property", ""), f.get("kind", ""), f.get("key", ""))):
        rows.append(f"| {f.get('property')} | {f.get('kind')} | `{f.get('key')}` | {f.get('commit', '')} | {cell(f.get('what', ''), 420)} |")
    fixes = subprocess.run(["git", "-C", "/repo", "log", "--format=%h %s"], capture_output=True, text=True).stdout.splitlines()
    fixes = [l for l in fixes if " fix:" in l]
    return "\n".join(rows) + f"\n\n`fix:` commits in /repo ({len(fixes)}):\n\n" + "\n".join(f"* `{l}`" for l in fixes)


def main():
    p = ROOT / "DESIGN.md"
    t = p.read_text()
    for name, fn in (("status", status), ("seeds", seeds), ("findings", findings)):
        pat = re.compile(rf"(<!-- BEGIN:{name} -->\n).*?(<!-- END:{name} -->)", re.S)
        if not pat.search(t):
            print("marker missing:", name)
            continue
        t = pat.sub(lambda m: m.group(1) + fn() + "\n" + m.group(2), t)
    p.write_text(t)
    print("DESIGN.md tables regenerated")


main()
