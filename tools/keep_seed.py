"""tools/keep_seed.py <seed-dir> <PROP> <detected:yes|no> "<what the check reported>"
copies patch.diff + demo.py (+notes) into /verif/seeded/<name>/ with meta.json"""
import json, shutil, sys
from pathlib import Path
src = Path(sys.argv[1]); prop = sys.argv[2]; det = sys.argv[3]; rep = sys.argv[4]
dst = Path("/verif/seeded") / src.name
dst.mkdir(parents=True, exist_ok=True)
for f in ("patch.diff", "demo.py"):
    shutil.copy(src / f, dst / f)
notes = (src / "notes.txt").read_text() if (src / "notes.txt").exists() else ""
meta = {
    "breaks_property": prop,
    "origin": "fresh sub-agent given only the property text and a scratch worktree",
    "needs_to_manifest": notes.strip(),
    "confirmed": "tools/confirm_seed.sh: demo exits 0 without the patch; with the patch the 911 tests pass and the demo exits non-zero (scratch worktree)",
    "ran": (sys.argv[5] if len(sys.argv) > 5 else
            f"tools/try_patch.sh seeded/{src.name}/patch.diff {prop}   (scratch worktree of /repo with the patch applied, JINJA_REPO pointing "
            f"at it, ./check {prop} --tier quick; /repo itself untouched because builders were reading it)"),
    "detected_by_quick_check": det == "yes",
    "check_report": rep,
}
(dst / "meta.json").write_text(json.dumps(meta, indent=1))
print("kept", dst)
