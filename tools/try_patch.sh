#!/bin/bash
# tools/try_patch.sh <patch.diff | revert:<commit>> <ID> [<ID>…]
# Run checks against a scratch worktree of /repo with a change applied (JINJA_REPO), leaving /repo itself untouched
# (used while other work is reading /repo; the final confirmation of a seed still uses tools/run_seed.sh on /repo).
what="$1"; shift
wt=$(mktemp -d /tmp/wt-try.XXXX)
git -C /repo worktree add -q --detach "$wt" HEAD || exit 3
if [[ "$what" == revert:* ]]; then
  git -C "$wt" revert --no-commit "${what#revert:}" >/dev/null 2>&1 || { echo "cannot revert"; git -C /repo worktree remove --force "$wt"; exit 3; }
else
  git -C "$wt" apply "$(realpath "$what")" || { echo "patch does not apply"; git -C /repo worktree remove --force "$wt"; exit 3; }
fi
for id in "$@"; do
  cp /verif/evidence/$id.json /tmp/.ev-$id-$$.json 2>/dev/null   # evidence must come from runs on the unchanged tree
  out=$(cd /verif && JINJA_REPO="$wt" timeout 3000 ./check "$id" --tier "${TIER:-quick}" 2>&1); rc=$?
  echo "== $id rc=$rc"; echo "$out" | grep -E "VIOLATION|KNOWN|HARNESS|seed=" | head -6
  mv /tmp/.ev-$id-$$.json /verif/evidence/$id.json 2>/dev/null
  echo "$out" | grep -E "^  C[0-9]" | head -3 | cut -c1-400
done
git -C /repo worktree remove --force "$wt"
# regenerate Gen files for the real tree
(cd /verif && /venv/bin/python -B -c "
import sys; sys.path.insert(0,'.')
from harness import core
import translate.registry as reg
for g in reg.ALL:
    n,c=g(); core.write_if_changed(core.GEN/n,c)")
