#!/bin/bash
# tools/run_all.sh [tier] [seeds...]  — every claimed check, given seeds, 8 at a time; prints one line per run
tier="${1:-quick}"; shift
seeds="${*:-0}"
ids=$(python3 -c "import json;print(' '.join(c['property_id'] for c in json.load(open('/verif/MANIFEST.json'))['checks']))")
cd /verif/lean && lake build JinjaV jv-driver >/dev/null 2>&1
cd /verif
for s in $seeds; do for id in $ids; do echo "$s $id"; done; done | xargs -P 8 -L 1 bash -c 'out=$(VERIF_SEED=$0 ./check $1 --tier '"$tier"' 2>&1); rc=$?; echo "seed=$0 $1 rc=$rc $(echo "$out" | tail -1)"; if [ $rc != 0 ]; then echo "$out" | grep -E "^  C|HARNESS" | head -3; fi'
