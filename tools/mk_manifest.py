"""Regenerate /verif/MANIFEST.json from harness/registry.py (and validate it)."""
import json, subprocess, sys
from pathlib import Path
ROOT = Path(__file__).resolve().parent.parent
sys.path.insert(0, str(ROOT))
from harness.registry import ALL_IDS, CLAIMED, NOT_YET, NOT_APPLICABLE  # noqa

def main():
    hook_commits = []
    fix_commits = subprocess.run(["git", "-C", "/repo", "log", "--format=%h %s"], capture_output=True, text=True).stdout
    checks = []
    for pid in ALL_IDS:
        if pid not in CLAIMED:
            continue
        c = CLAIMED[pid]
        checks.append({
            "property_id": pid,
            "quick_cmd": f"./check {pid} --tier quick",
            "thorough_cmd": f"./check {pid} --tier thorough",
            "evidence_file": f"/verif/evidence/{pid}.json",
            "replay_cmd_template": f"./check {pid} --replay {{path}}",
            "engine": "lean4-proof+correspondence",
            "level_claimed": {"category": c["category"], "text": c["text"], "design_ref": c["design_ref"]},
            "level_note": c["note"],
            "technique": c["technique"],
        })
    na = [{"property_id": pid, "reason": NOT_APPLICABLE.get(pid, NOT_YET)} for pid in ALL_IDS if pid not in CLAIMED]
    man = {
        "version": 1,
        "setup_cmd": "./setup.sh",
        "hooks": {
            "guard": "JINJA_VERIF_HOOKS",
            "enable": "no source hooks exist; checks export JINJA_VERIF_HOOKS=1 and import jinja2 from /repo/src (working tree)",
            "baseline_off_cmd": "cd /repo && env -u JINJA_VERIF_HOOKS /venv/bin/python -m pytest -ra -q -p no:cacheprovider --timeout=900 --continue-on-collection-errors",
            "source_commits": hook_commits,
            "add_only": True,
        },
        "engines": [{
            "name": "lean4-proof+correspondence", "path": "/verif/lean + /verif/harness + /verif/translate",
            "serves_properties": [c["property_id"] for c in checks],
            "kind_free_text": "Lean 4 theorems about executable models (lake project JinjaV), models tied to /repo on every run by a Python-ast translator (Gen/*.lean) and by differential correspondence runs through a compiled line-protocol driver (jv-driver)",
        }],
        "checks": checks,
        "not_applicable": na,
        "notes": "fix: commits in /repo (genuine defects repaired): " + "; ".join(l for l in fix_commits.splitlines() if " fix:" in l),
    }
    (ROOT / "MANIFEST.json").write_text(json.dumps(man, indent=1, ensure_ascii=False) + "\n")
    try:
        import jsonschema
        jsonschema.validate(man, json.load(open("/root/.vp/MANIFEST.schema.json")))
        print("MANIFEST valid:", len(checks), "checks,", len(na), "not claimed")
    except ImportError:
        r = subprocess.run(["python3-vt", "-c", "import json,jsonschema;jsonschema.validate(json.load(open('%s')),json.load(open('/root/.vp/MANIFEST.schema.json')));print('MANIFEST valid')" % (ROOT / "MANIFEST.json")], capture_output=True, text=True)
        print((r.stdout + r.stderr).strip()[-400:], len(checks), "checks,", len(na), "not claimed")

main()
