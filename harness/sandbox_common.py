"""shared by C17, C18, C19: abstraction of real objects to the Gen/Sandbox `Obj`, cross-run of every
translated decision function against the real one, structural check of generated code."""
from __future__ import annotations

import ast
import collections
import re
import sys
import types

from harness import core
from harness.core import Atom


def class_names():
    txt = (core.GEN / "Sandbox.lean").read_text()
    names = set(re.findall(r'o\.isa "([^"]+)"', txt))
    m = re.search(r"def mutableSpec.*?\n\]", txt, re.S)
    names |= set(re.findall(r'^\s*\("([^"]+)",', m.group(0), re.M))
    return sorted(names)


def abstract(obj, names):
    from collections import abc, deque  # noqa
    ns = {"abc": abc, "deque": deque, "types": types, "type": type}
    classes = []
    for n in names:
        try:
            if isinstance(obj, eval(n, ns)):
                classes.append(n)
        except Exception:
            pass
    flags = [f for f in ("unsafe_callable", "alters_data") if _flag(obj, f)]
    return classes, flags


def abstract_subclasses(obj, names):
    """for a class object: the classes named in sandbox.py it is a subclass of"""
    from collections import abc, deque  # noqa
    ns = {"abc": abc, "deque": deque, "types": types, "type": type}
    out = []
    if isinstance(obj, type):
        for n in names:
            try:
                if issubclass(obj, eval(n, ns)):
                    out.append(n)
            except Exception:
                pass
    return out


def _flag(obj, f):
    try:
        return bool(getattr(obj, f, False))
    except Exception:
        return False


def sample_objects():
    def fn():
        pass

    def gen():
        yield 1

    async def co():
        return 1

    async def ag():
        yield 1

    class K:
        def meth(self):
            pass

    def unsafe_f():
        pass

    unsafe_f.unsafe_callable = True

    def alters():
        pass

    alters.alters_data = True

    def both():
        pass

    both.alters_data = True
    both.unsafe_callable = False
    try:
        raise ValueError
    except ValueError:
        tb = sys.exc_info()[2]
    c = co()
    objs = {
        "function": fn, "method": K().meth, "builtin_method": [].append, "type_str": str, "type_K": K,
        "code": fn.__code__, "traceback": tb, "frame": tb.tb_frame, "generator": gen(), "coroutine": c,
        "asyncgen": ag(), "list": [1], "dict": {"a": 1}, "set": {1}, "deque": collections.deque([1]),
        "str": "s", "int": 3, "object": K(), "userlist": collections.UserList([1]),
        "userdict": collections.UserDict(a=1), "ordereddict": collections.OrderedDict(a=1),
        "defaultdict": collections.defaultdict(int), "frozenset": frozenset([1]), "tuple": (1,),
        "unsafe_fn": unsafe_f, "alters_fn": alters, "alters_not_unsafe_fn": both, "none": None,
        # class objects: a method looked up on the class is called with the object to modify as first argument
        "class:dict": dict, "class:list": list, "class:set": set, "class:deque": collections.deque,
        "class:ordereddict": collections.OrderedDict, "class:userlist": collections.UserList, "class:str": str,
        "class:tuple": tuple, "class:K": K,
    }
    return objs, c


ATTRS = ["upper", "mro", "gi_frame", "gi_code", "cr_frame", "cr_code", "ag_frame", "ag_code", "__class__", "_private",
         "__init__", "__", "_", "___x", "f_locals", "co_code", "tb_frame", "x", "index", "keys", "func_code",
         "__globals__", "__self__", "__func__", "im_func", "format", "mro_", "gi_running", "items"]


def all_method_names():
    out = set()
    for t in (list, dict, set, collections.deque):
        out |= {n for n in dir(t) if not n.startswith("_")}
    return sorted(out)


def decision_crosscheck(res, pid):
    """every translated decision function vs. the real one, on sample objects x attribute names"""
    from jinja2 import sandbox

    names = class_names()
    objs, coro = sample_objects()
    env = sandbox.SandboxedEnvironment()
    ienv = sandbox.ImmutableSandboxedEnvironment()
    attrs = ATTRS + all_method_names()
    reqs, meta = [], []
    for oname, o in objs.items():
        cl, fl = abstract(o, names)
        subs = abstract_subclasses(o, names)
        for a in attrs:
            reqs.append([Atom("sbx"), cl, fl, subs, a])
            meta.append((oname, o, a))
    replies = core.driver_batch(reqs)
    n = 0
    for (oname, o, a), rep in zip(meta, replies):
        gi, gm, gs, gim, gc, ginv = rep[1]
        real = (sandbox.is_internal_attribute(o, a), sandbox.modifies_known_mutable(o, a),
                env.is_safe_attribute(o, a, None), ienv.is_safe_attribute(o, a, None), env.is_safe_callable(o))
        n += 1
        if real != (gi, gm, gs, gim, gc):
            res.violate(f"{pid}:translator-drift", f"translated decision functions differ from sandbox.py on object "
                        f"{oname} attr {a!r}: real {real} vs Gen {(gi, gm, gs, gim, gc)} "
                        "(internal, modifies, safe_attr, immutable_safe_attr, safe_callable)",
                        {"object": oname, "attr": a, "real": real, "gen": [gi, gm, gs, gim, gc]}, no_input=True)
    coro.close()
    return n


# ---------------------------------------------------------------------------------------------
# structural check of generated code (translation validation, per program)
# ---------------------------------------------------------------------------------------------

def root_name(node):
    while isinstance(node, (ast.Attribute, ast.Subscript, ast.Call)):
        node = node.value if not isinstance(node, ast.Call) else node.func
    return node.id if isinstance(node, ast.Name) else None


def is_template_value(name):
    """compiler naming: template variables are l_<depth>_<name>; everything else is compiler-owned"""
    return bool(name) and re.match(r"l_\d+_", name) is not None


def structural_violations(source_code, sandboxed=True):
    """returns list of (kind, python snippet) for direct attribute/item/call on template-controlled values"""
    tree = ast.parse(source_code)
    bad = []
    for node in ast.walk(tree):
        if isinstance(node, ast.Attribute):
            if is_template_value(root_name(node.value)) or (isinstance(node.value, ast.Name) and is_template_value(node.value.id)):
                bad.append(("attribute", ast.unparse(node)))
        elif isinstance(node, ast.Subscript):
            if isinstance(node.ctx, ast.Load) and is_template_value(root_name(node.value)):
                bad.append(("subscript", ast.unparse(node)))
        elif isinstance(node, ast.Call):
            f = node.func
            if isinstance(f, ast.Name) and is_template_value(f.id):
                bad.append(("direct-call", ast.unparse(node)[:80]))
            if sandboxed and isinstance(f, ast.Attribute) and isinstance(f.value, ast.Name) \
                    and f.value.id == "context" and f.attr == "call":
                bad.append(("unsandboxed-context.call", ast.unparse(node)[:80]))
    return bad
