"""C17: the regenerated lookup methods (Gen/AccessPaths.lean) against the real ones, world by world.

Every `World` of the Lean model (argument kind x outcome of obj[arg] x outcome of getattr(obj, name) x value is a
str.format method x is_safe_attribute's answer) is *realised* by a concrete object and argument, the real
`SandboxedEnvironment.getitem/getattr` (default and immutable sandbox) and the base `Environment.getitem/getattr` are
called, the result is classified into the model's `Outcome`, and compared with the function translated from the
source.  A real result that hands out the raw attribute of an unsafe name (or a raw format method) is a violation of
the property with a concrete input, independent of the model.
"""
from __future__ import annotations

from harness import core
from harness.core import Atom

ARGS = ["exactStr", "strSubclass", "int", "other"]
OPS = ["ok", "typeError", "keyError", "indexError", "attributeError", "other"]
EXC = {"typeError": TypeError, "keyError": KeyError, "indexError": IndexError, "attributeError": AttributeError,
       "other": ValueError}
ITEM = object()


class Sentinel:
    def __repr__(self):
        return "<the attribute value>"


def exc_kind(e):
    for k in ("typeError", "keyError", "indexError", "attributeError"):
        if isinstance(e, EXC[k]):
            return k
    return "other"


def realise(world, variant):
    """world = (arg, item, attr, isFormat, safeAttr) → (obj, argument, value, description)"""
    from markupsafe import Markup
    arg, item, attr, is_format, safe = world
    name = "pub" if safe else "_priv"

    class MyStr(str):
        pass

    if is_format:
        recv = (Markup("{0._x}") if variant % 2 else "{0._x}")
        value = recv.format_map if variant % 3 == 2 else recv.format
    else:
        value = Sentinel()

    class Thing:
        def __getitem__(self, key):
            if item == "ok":
                return ITEM
            raise EXC[item]("item")

        def __getattr__(self, n):
            if n != name:
                raise AttributeError(n)
            if attr == "ok":
                return value
            raise EXC[attr]("attr")

        def __repr__(self):
            return "<thing>"

    if arg == "exactStr":
        argument, adesc = name, repr(name)
    elif arg == "strSubclass":
        if variant % 2:
            argument, adesc = MyStr(name), f"MyStr({name!r}) (a str subclass)"
        else:
            argument, adesc = Markup(name), f"Markup({name!r})"
    elif arg == "int":
        argument, adesc = 0, "0"
    else:
        argument = [None, (1, 2), 1.5][variant % 3]
        adesc = repr(argument)
    desc = (f"obj[arg] {'returns an item' if item == 'ok' else 'raises ' + EXC[item].__name__}, getattr(obj, {name!r}) "
            f"{'returns ' + ('a bound str.' + value.__name__ if is_format else 'a value') if attr == 'ok' else 'raises ' + EXC[attr].__name__}, "
            f"argument {adesc}")
    return Thing(), argument, value, desc


def classify(fn, obj, argument, value):
    from jinja2.exceptions import SecurityError
    from jinja2.runtime import Undefined
    try:
        r = fn(obj, argument)
    except Exception as e:  # noqa
        return "raised:" + exc_kind(e)
    if r is ITEM:
        return "item"
    if r is value:
        return "rawAttr"
    if r is None:
        return "returnedNone"
    if isinstance(r, Undefined):
        return "unsafeUndefined" if r._undefined_exception is SecurityError else "undefined"
    if callable(r) and getattr(r, "__wrapped__", None) is value:
        return "fmtWrapper"
    return "unknown:" + type(r).__name__


def worlds():
    for a in ARGS:
        for i in OPS:
            for t in OPS:
                for f in (False, True):
                    for s in (False, True):
                        yield (a, i, t, f, s)


def crosscheck(res, variants=3):
    from jinja2 import Environment, sandbox
    targets = [
        ("getitem", "sandboxed", sandbox.SandboxedEnvironment()), ("getattr", "sandboxed", sandbox.SandboxedEnvironment()),
        ("getitem", "immutable", sandbox.ImmutableSandboxedEnvironment()),
        ("getattr", "immutable", sandbox.ImmutableSandboxedEnvironment()),
        ("base-getitem", "unsandboxed", Environment()), ("base-getattr", "unsandboxed", Environment()),
    ]
    ws = list(worlds())
    reqs = []
    for m in ("getitem", "getattr", "base-getitem", "base-getattr"):
        for w in ws:
            reqs.append([Atom("access"), m, w[0], w[1], w[2], "true" if w[3] else "false", "true" if w[4] else "false"])
    replies = core.driver_batch(reqs)
    model = {}
    for r, rep in zip(reqs, replies):
        if not (isinstance(rep, list) and rep and rep[0] == "ok"):
            raise core.HarnessError(f"driver reply to {r}: {rep}")
        model[(r[1], r[2], r[3], r[4], r[5] == "true", r[6] == "true")] = rep[1]
    n, kinds, drift, leaks = 0, {}, 0, 0
    for method, envname, env in targets:
        fn = getattr(env, method.replace("base-", ""))
        for w in ws:
            for v in range(variants):
                obj, argument, value, desc = realise(w, v)
                got = classify(fn, obj, argument, value)
                want = model[(method,) + w]
                n += 1
                kinds[got.split(":")[0]] = kinds.get(got.split(":")[0], 0) + 1
                arg, item, attr, is_format, safe = w
                if envname != "unsandboxed" and got == "rawAttr" and (is_format or not safe):
                    leaks += 1
                    what = "a raw str.format method" if is_format else "the value of the private attribute '_priv'"
                    res.violate(f"C17:api:{method}:{arg}{':format' if is_format else ''}",
                                f"{type(env).__name__}.{method}(obj, arg) handed out {what} without the sandbox check: {desc}",
                                {"api": method, "env": envname, "world": list(w), "variant": v, "observed": got,
                                 "expected": "unsafeUndefined / fmtWrapper / undefined"})
                if got != want:
                    drift += 1
                    res.violate(f"C17:translator-drift:access:{method}",
                                f"translated {method} differs from the real method ({envname}) on world {w}: real {got} vs Gen {want}; {desc}",
                                {"api": method, "env": envname, "world": list(w), "variant": v, "real": got, "gen": want},
                                no_input=True)
    return n, kinds, drift, leaks


def wrap_crosscheck(res):
    """wrap_str_format's `return None` guards (Gen wrapReturnsNone) vs the real method"""
    import types
    from jinja2 import sandbox
    from markupsafe import Markup

    class MyStr(str):
        pass

    class K:
        def format(self, *a):
            return "k"

        def format_map(self, m):
            return "k"

    def format():  # a plain function that happens to be called format
        return "f"

    samples = {
        "str.format": "a".format, "str.format_map": "a".format_map, "Markup.format": Markup("a").format,
        "Markup.format_map": Markup("a").format_map, "MyStr.format": MyStr("a").format, "str.upper": "a".upper,
        "str.join": "a".join, "list.append": [].append, "K.format": K().format, "K.format_map": K().format_map,
        "function format": format, "unbound str.format": str.format, "unbound Markup.format": Markup.format,
        "int": 3, "none": None, "str": "format",
    }
    env = sandbox.SandboxedEnvironment()
    reqs, meta = [], []
    for label, v in samples.items():
        classes = [n for n, t in (("types.MethodType", types.MethodType), ("types.BuiltinMethodType", types.BuiltinMethodType))
                   if isinstance(v, t)]
        name = getattr(v, "__name__", "")
        self_is_str = isinstance(getattr(v, "__self__", None), str)
        if not isinstance(name, str):
            continue
        reqs.append([Atom("wrap-none"), classes, name, "true" if self_is_str else "false"])
        meta.append((label, v))
    n = 0
    for (label, v), rep in zip(meta, core.driver_batch(reqs)):
        real = env.wrap_str_format(v) is None
        n += 1
        if rep[1] != real:
            res.violate("C17:translator-drift:wrap_str_format",
                        f"translated wrap_str_format guard differs from the real method on {label}: real returns "
                        f"{'None' if real else 'a wrapper'}, Gen says {'None' if rep[1] else 'a wrapper'}",
                        {"value": label, "real_none": real, "gen_none": rep[1]}, no_input=True)
        if real and label in ("str.format", "str.format_map", "Markup.format", "Markup.format_map", "MyStr.format"):
            res.violate("C17:api:wrap_str_format", f"wrap_str_format leaves the bound method {label} unwrapped",
                        {"api": "wrap_str_format", "value": label})
    return n


def counterexamples():
    """abstract counterexamples of getitem_checked / getattr_checked over the regenerated functions"""
    rep = core.driver_batch([[Atom("access-cex")]])[0]
    return [(m, tuple(w)) for m, w in rep[1]]
