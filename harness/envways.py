"""Environments built in every way a user can build them (shared by C12 and C13).

A *scenario* is a small history: an environment is created (``Environment(**opts)`` or the spontaneous environment of
``Template("", **opts)``), overlays are taken from it and from its overlays (``env.overlay(**delta)``), and between
these steps environments are *used* (they tokenize and render probe templates).  For every environment the options
that are in effect are known from the history alone (constructor options updated by the overlay deltas), so at every
use the environment can be compared with

  * the Lean reference ``trim-env`` (documented whitespace rules under exactly these options), and
  * a fresh ``Environment(**effective options)`` that has no history.

The histories cover: direct constructor; ``Template(...)``; overlay of a fresh parent; overlay of a parent that has
already lexed/rendered, overriding only whitespace options (``trim_blocks``, ``lstrip_blocks``, ``newline_sequence``,
``keep_trailing_newline``: each alone and every combination), only the line prefixes, only delimiters, nothing, or
a mixture; chains of overlays used at each level; sibling overlays of one used parent; and every parent again after
its overlays were used.  Planning (pure data, from one ``random.Random``) is separated from execution so that the
Lean driver is asked once for all probes and so that a scenario can be replayed from its JSON form.
"""
from __future__ import annotations

import itertools

from harness import core
from harness import lexcommon as lc
from harness.core import Atom

WS_KEYS = ("trim_blocks", "lstrip_blocks", "newline_sequence", "keep_trailing_newline")
PREFIX_KEYS = ("line_statement_prefix", "line_comment_prefix")
DELIM_KEYS = ("block_start_string", "block_end_string", "variable_start_string", "variable_end_string",
              "comment_start_string", "comment_end_string")
NLS = ["\n", "\r\n", "\r"]
PREFIXES = [("#", "##"), ("%", "%%"), ("@@", "//")]

DELIM_SETS = {
    "default": {k: lc.DEFAULT[k] for k in DELIM_KEYS},
    "erb": dict(block_start_string="<%", block_end_string="%>", variable_start_string="<%=", variable_end_string="%>",
                comment_start_string="<%#", comment_end_string="%>"),
    "php": dict(block_start_string="<?", block_end_string="?>", variable_start_string="<?=", variable_end_string="?>",
                comment_start_string="<!--", comment_end_string="-->"),
    "paren": dict(block_start_string="((", block_end_string="))", variable_start_string="(((", variable_end_string=")))",
                  comment_start_string="((#", comment_end_string="#))"),
    "brackets": dict(block_start_string="[%", block_end_string="%]", variable_start_string="[[", variable_end_string="]]",
                     comment_start_string="[#", comment_end_string="#]"),
}


def options(**kw):
    """the twelve options that decide how a template is tokenized (the key of get_lexer)"""
    o = lc.cfg(newline_sequence="\n")
    o.update(kw)
    return o


def okey(o):
    return tuple(sorted((k, repr(v)) for k, v in o.items()))


def delta_kind(delta):
    ks = set(delta)
    if not ks:
        return "none"
    kinds = [n for n, grp in (("ws", WS_KEYS), ("prefix", PREFIX_KEYS), ("delims", DELIM_KEYS)) if ks & set(grp)]
    return kinds[0] if len(kinds) == 1 else "mixed"


# ---------------------------------------------------------------------------------------------------------------
# deltas
# ---------------------------------------------------------------------------------------------------------------

def ws_value(rng, cur, k):
    if k == "newline_sequence":
        return rng.choice([x for x in NLS if x != cur[k]])
    return not cur[k]


def ws_deltas(rng, cur):
    """every non-empty subset of the four whitespace options, each changed away from the current value"""
    out = []
    for n in range(1, 5):
        for ks in itertools.combinations(WS_KEYS, n):
            out.append({k: ws_value(rng, cur, k) for k in ks})
    return out


def prefix_deltas(rng, cur):
    others = [p for p in PREFIXES if p[0] != cur["line_statement_prefix"] and p[1] != cur["line_comment_prefix"]]
    s, c = rng.choice(others)
    out = [{"line_statement_prefix": s, "line_comment_prefix": c}, {"line_statement_prefix": s}, {"line_comment_prefix": c}]
    if cur["line_statement_prefix"] is not None:
        out.append({"line_statement_prefix": None, "line_comment_prefix": None})
    return out


def delim_deltas(rng, cur):
    cur_d = {k: cur[k] for k in DELIM_KEYS}
    names = [n for n, d in DELIM_SETS.items() if d != cur_d]
    a, b = rng.sample(names, 2)
    out = [dict(DELIM_SETS[a]), dict(DELIM_SETS[b])]
    if cur["variable_start_string"] == "{{":
        out.append(dict(variable_start_string="${", variable_end_string="}$"))
    return out


def mixed_deltas(rng, cur):
    w = rng.choice(ws_deltas(rng, cur))
    return [dict(rng.choice(delim_deltas(rng, cur)), **w), dict(rng.choice(prefix_deltas(rng, cur)[:1]), **w)]


def all_deltas(rng, cur):
    return ws_deltas(rng, cur) + prefix_deltas(rng, cur) + delim_deltas(rng, cur) + mixed_deltas(rng, cur) + [{}]


def random_delta(rng, cur):
    kind = rng.choice(["ws", "ws", "ws", "prefix", "delims", "mixed", "none", "same"])
    if kind == "ws":
        return rng.choice(ws_deltas(rng, cur))
    if kind == "prefix":
        return rng.choice(prefix_deltas(rng, cur))
    if kind == "delims":
        return rng.choice(delim_deltas(rng, cur))
    if kind == "mixed":
        return rng.choice(mixed_deltas(rng, cur))
    if kind == "same":  # overriding an option with the value it already has
        k = rng.choice(WS_KEYS)
        return {k: cur[k]}
    return {}


def random_options(rng):
    o = options(trim_blocks=rng.random() < 0.5, lstrip_blocks=rng.random() < 0.5, keep_trailing_newline=rng.random() < 0.5,
                newline_sequence=rng.choice(NLS + ["\n"]))
    o.update(DELIM_SETS[rng.choice(["default", "default", "erb", "php", "paren", "brackets"])])
    if rng.random() < 0.5:
        s, c = rng.choice(PREFIXES)
        o.update(line_statement_prefix=s, line_comment_prefix=c)
    return o


# ---------------------------------------------------------------------------------------------------------------
# planning
# ---------------------------------------------------------------------------------------------------------------

class Scenario:
    """events: new / overlay / use; the options in effect and the history of every environment are tracked"""

    def __init__(self, shape):
        self.shape = shape
        self.events = []
        self.opts = {}
        self.parent = {}
        self.used = {}
        self.kids_used = {}
        self.info = {}

    def new(self, way, opts):
        i = len(self.opts)
        self.events.append({"op": "new", "id": i, "way": way, "opts": dict(opts)})
        self.opts[i], self.parent[i], self.used[i], self.kids_used[i] = dict(opts), None, False, False
        self.info[i] = {"way": way, "depth": 0, "delta": "-", "parent_used": False}
        return i

    def overlay(self, p, delta):
        i = len(self.opts)
        self.events.append({"op": "overlay", "id": i, "parent": p, "delta": dict(delta)})
        o = dict(self.opts[p])
        o.update(delta)
        self.opts[i], self.parent[i], self.used[i], self.kids_used[i] = o, p, False, False
        d = self.info[p]["depth"] + 1
        # a lexer remembered anywhere up the chain is what an overlay could inherit
        anc_used, a, root = False, p, p
        while a is not None:
            anc_used = anc_used or self.used[a]
            root, a = a, self.parent[a]
        # Template(...) environments are shared process-wide (get_spontaneous_environment): "fresh" cannot be claimed
        state = "-of-used" if anc_used else "-of-shared-template-env" if self.info[root]["way"] == "template" else "-of-fresh"
        self.info[i] = {"way": ("overlay" if d == 1 else "chain") + state, "depth": d,
                        "delta": delta_kind(delta), "parent_used": anc_used}
        return i

    def use(self, i):
        inf = self.info[i]
        way = inf["way"] + ("+after-its-overlays-were-used" if self.kids_used[i] else "")
        self.events.append({"op": "use", "id": i, "opts": dict(self.opts[i]), "way": way, "delta": inf["delta"],
                            "parent_opts": dict(self.opts[self.parent[i]]) if self.parent[i] is not None else None,
                            "shape": self.shape})
        self.used[i] = True
        a = self.parent[i]
        while a is not None:
            self.kids_used[a] = True
            a = self.parent[a]


def systematic(rng, roots):
    """small histories for every root x every delta: the delta taken from a fresh and from a used parent; siblings;
    chains; the parent re-checked after its overlays"""
    out = []
    for ri, root in enumerate(roots):
        deltas = all_deltas(rng, root)
        for di, d in enumerate(deltas):
            way = "template" if (ri + di) % 3 == 2 else "direct"
            s = Scenario("overlay-of-fresh")
            p = s.new(way, root)
            o = s.overlay(p, d)
            s.use(o)
            s.use(p)
            s.use(o)
            out.append(s)
            s = Scenario("overlay-of-used")
            p = s.new(way, root)
            s.use(p)
            o = s.overlay(p, d)
            s.use(o)
            s.use(p)
            s.use(o)
            out.append(s)
        ws = ws_deltas(rng, root)
        for k in range(6):
            d1, d2 = rng.choice(ws), rng.choice(deltas)
            if k % 2:
                d1, d2 = d2, d1
            s = Scenario("siblings")
            p = s.new("direct", root)
            s.use(p)
            a = s.overlay(p, d1)
            b = s.overlay(p, d2)
            s.use(a)
            s.use(b)
            s.use(a)
            s.use(p)
            out.append(s)
        for k in range(6):
            s = Scenario("chain")
            p = s.new("template" if k == 5 else "direct", root)
            s.use(p)
            a = s.overlay(p, {} if k == 0 else rng.choice(deltas))
            if k != 0:
                s.use(a)
            b = s.overlay(a, rng.choice(ws_deltas(rng, s.opts[a])) if k < 3 else random_delta(rng, s.opts[a]))
            s.use(b)
            c = s.overlay(b, random_delta(rng, s.opts[b]) if k < 3 else rng.choice(ws_deltas(rng, s.opts[b])))
            s.use(c)
            s.use(a)
            s.use(p)
            s.use(b)
            s.use(c)
            out.append(s)
    return out


def random_scenario(rng):
    s = Scenario("random")
    s.new(rng.choice(["direct", "direct", "template"]), random_options(rng))
    for _ in range(rng.randrange(4, 12)):
        i = rng.randrange(len(s.opts))
        if rng.random() < 0.45 and len(s.opts) < 6:
            s.overlay(i, random_delta(rng, s.opts[i]))
        else:
            s.use(i)
    ids = list(range(len(s.opts)))
    rng.shuffle(ids)
    for i in ids:
        s.use(i)
    return s


def default_roots(rng, n_extra):
    s, c = rng.choice(PREFIXES)
    roots = [options(),
             options(trim_blocks=True, lstrip_blocks=True, keep_trailing_newline=True, line_statement_prefix="#",
                     line_comment_prefix="##"),
             options(trim_blocks=rng.random() < 0.5, lstrip_blocks=rng.random() < 0.5, newline_sequence=rng.choice(NLS),
                     **DELIM_SETS[rng.choice(["erb", "php", "paren", "brackets"])]),
             options(trim_blocks=True, keep_trailing_newline=rng.random() < 0.5, line_statement_prefix=s, line_comment_prefix=c)]
    return roots + [random_options(rng) for _ in range(n_extra)]


# ---------------------------------------------------------------------------------------------------------------
# probes
# ---------------------------------------------------------------------------------------------------------------

def _t(s):
    return [Atom("text"), s]


def _tag(kind, interior, l="n", r="n"):
    return [Atom("tag"), Atom(kind), Atom(l), Atom(r), interior]


# each of these renders differently under every one of the four whitespace options
SENTINELS = [
    [_t("a\n  "), _tag("block", "set z = 1"), _t("\nb\n")],
    [_t("a\n\t"), _tag("comment", "c"), _t("\n"), _tag("variable", "'V1'"), _t("\n  "), _tag("block", "set z = 1"), _t("\n")],
    [_t("\n "), [Atom("raw"), Atom("n"), False, "\n r\n ", Atom("n"), Atom("n")], _t("\n\nfoo\n")],
    # the same with CRLF and lone-CR line breaks
    [_t("a\r\n  "), _tag("block", "set z = 1"), _t("\r\nb\r\n")],
    [_t("a\r\t"), _tag("comment", "c"), _t("\r"), _tag("variable", "'V1'"), _t("\r  "), _tag("block", "set z = 1"), _t("\r")],
]


def skeleton_probes(rng, n_random):
    from harness.props.c12 import gen_seg  # (c12 imports this module)
    ps = [SENTINELS[rng.randrange(len(SENTINELS))], SENTINELS[rng.randrange(len(SENTINELS))]]
    for _ in range(n_random):
        segs = [gen_seg(rng) for _ in range(rng.randrange(1, 6))]
        if rng.random() < 0.6:
            segs.append(_t(rng.choice(["\n", "a\n", "\n\n", " \n", "\r\n", "\r", "a\r\n", "\n\r"])))
        ps.append(segs)
    return ps


LINE_TAGS = [("set", "set z = 1"), ("if", "if true"), ("endif", "endif"), ("for", "for i in [1]"), ("endfor", "endfor")]
BRK = "\x00"   # a line break inside a tag (between open brackets); written as the source's line break + indentation


def bracket_tag(rng, sp, cp):
    """a statement whose expression keeps a ( [ or { open across 1-3 line breaks ("line statements can span multiple
    lines if there are open parentheses, braces or brackets", docs/templates.rst): nested brackets, strings holding
    brackets / the prefixes / an escaped line break, a continuation line that starts with an operator spelled like a
    prefix, tokens or a colon after the closing bracket.  '~' marks the places where a line break may stand."""
    op = "%" if sp == "%" else "//" if cp == "//" else "+"
    strs = ["'('", '"]"', "'{'", "'a\\nb'", "'%s x'" % (cp or "##"), "'%s if true'" % (sp or "#"), "')]'"]
    st = lambda: rng.choice(strs)  # noqa: E731
    lists = ["[1,~2, 3]", "(1,~2)", "[~1~]", "[1,~2,~3,~4]", "[(1,~2),~[3]]", f"[{st()},~{st()}]", f"({st()},~2,~{st()})",
             "{'a': 1,~'b': 2}", f"[7~{op} 2,~5]", "[1,~2] + [3]", "([1,~2]~)"]
    values = lists + ["{'a': [1,~(2,~3)],~'b': {'k':~4}}", "[1,~2]|length", "(1,~2)[0]", f"(7~{op} 2)", "(1,~2)|length + 3",
                      f"({st()}~)", "((~(~1~)~))", "[1,~2][(0~)]"]
    kind = rng.choice(["set", "set", "for", "for", "if"])
    if kind == "set":
        t = "set z = " + rng.choice(values)
    elif kind == "for":
        t = "for i in " + rng.choice(lists) + rng.choice(["", "", ":", " :"])
    else:
        t = "if " + rng.choice(["(true~and true)", "[1,~2]", "(1,~2)|length > 1", f"{st()} in [~{st()}]", "not (~false~)"]) \
            + rng.choice(["", "", ":"])
    marks = [i for i, ch in enumerate(t) if ch == "~"]
    keep = set(rng.sample(marks, min(len(marks), rng.randrange(1, 4))))
    out = []
    for i, ch in enumerate(t):
        if ch != "~":
            out.append(ch)
        elif i in keep:
            out.append(BRK + rng.choice(["", "  ", "\t", "        "]))
        else:
            out.append(rng.choice(["", " "]))
    return kind, "".join(out)


def line_probe(rng, o, allow_comment=True, multiline=0.35):
    """whole lines of text / tags / comments, none blank, well nested; tags may continue over line breaks inside open
    brackets; as line form (line statements / comments where a prefix is configured) and block-tag form"""
    sp, cp = o["line_statement_prefix"], o["line_comment_prefix"]
    bs, be, cs, ce = o["block_start_string"], o["block_end_string"], o["comment_start_string"], o["comment_end_string"]
    vs, ve = o["variable_start_string"], o["variable_end_string"]
    lines = []
    nl = rng.choice(["\n", "\n", "\r\n", "\r", None])  # one line break for the whole source, or (None) mixed
    for _ in range(rng.randrange(1, 7)):
        k = rng.choice(["text", "text", "tag", "tag", "comment"] if allow_comment else ["text", "tag", "tag"])
        ind = rng.choice(["", "  ", "\t"])
        if k == "text":
            lines.append(("text", ind + rng.choice(["a", "b c", "é", "x  ", f"{vs} z {ve}", f"{vs} i {ve}."])))
        elif k == "tag":
            kind, t = bracket_tag(rng, sp, cp) if rng.random() < multiline else rng.choice(LINE_TAGS)
            lines.append(("tag", ind, t, kind))
        else:
            lines.append(("comment", ind, rng.choice(["c", "note 1"])))
    stack, fixed = [], []
    for ln in lines:
        if ln[0] == "tag" and ln[3] in ("if", "for"):
            stack.append(ln[3])
            fixed.append(ln)
        elif ln[0] == "tag" and ln[3] in ("endif", "endfor"):
            if stack and "end" + stack[-1] == ln[3]:
                stack.pop()
                fixed.append(ln)
            else:
                fixed.append(("tag", ln[1], "set z = 1", "set"))
        else:
            fixed.append(ln)
    for op in reversed(stack):
        fixed.append(("tag", "", "end" + op, "end" + op))

    def brk():
        return nl if nl is not None else rng.choice(["\n", "\r\n", "\r"])

    ends = [brk() for _ in fixed]
    # the line breaks inside the tags: chosen once, the same in both forms
    inner = [("".join(brk() if ch == BRK else ch for ch in l[2]) if l[0] == "tag" else None) for l in fixed]

    def form(line_syntax, plus=""):
        out = []
        for l, e, t in zip(fixed, ends, inner):
            if l[0] == "text":
                out.append(l[1] + e)
            elif l[0] == "tag":
                out.append(l[1] + (sp + " " + t if line_syntax and sp is not None else bs + " " + t + " " + be) + e)
            else:
                out.append(l[1] + (cp + " " + l[2] if line_syntax and cp is not None else cs + " " + l[2] + " " + plus + ce) + e)
        return "".join(out)

    # where only one of the two prefixes is configured, the other kind of line stays in its tag form
    return {"line_source": form(True), "block_source": form(False), "block_source_plus": form(False, "+"),
            "has_line_comment": cp is not None and any(l[0] == "comment" for l in fixed),
            "has_line_statement": sp is not None and any(l[0] == "tag" for l in fixed),
            "multiline_statements": sum(1 for l in fixed if l[0] == "tag" and BRK in l[2])}


def attach_probes(rng, scenarios, n_random, n_line):
    """choose the probes of every use and ask the Lean reference (one batch) for source and documented rendering"""
    reqs, index, lex_reqs = [], {}, []
    for s in scenarios:
        for ev in s.events:
            if ev["op"] != "use":
                continue
            o = ev["opts"]
            ev["_segs"] = skeleton_probes(rng, n_random)
            for segs in ev["_segs"]:
                k = (okey(o), core.sx(segs))
                if k not in index:
                    index[k] = len(reqs)
                    reqs.append([Atom("trim-env"), lc.enc_cfg(o), o["newline_sequence"], segs])
            has_prefix = o["line_statement_prefix"] is not None or o["line_comment_prefix"] is not None
            ev["lines"] = [line_probe(rng, o) for _ in range(n_line)] if has_prefix else []
            lex_reqs += [(o, p["line_source"]) for p in ev["lines"]]
    reps = core.driver_batch(reqs)
    lex_models = iter(lc.model_lex(lex_reqs))
    declined = 0
    for s in scenarios:
        for ev in s.events:
            if ev["op"] != "use":
                continue
            ev["skeletons"] = []
            for segs in ev.pop("_segs"):
                r = reps[index[(okey(ev["opts"]), core.sx(segs))]]
                if str(r[0]) != "ok":
                    declined += 1
                    continue
                ev["skeletons"].append({"source": r[1], "documented": r[2], "segments": core.sx(segs)})
            for p in ev["lines"]:
                p["model_tokens"] = next(lex_models)["res"]
    return {"model_requests": len(reqs) + len(lex_reqs), "model_declined": declined}


PLAIN_BITS = ["a", "é", " ", "\t", "\n", "\n", "\r\n", "\r", "\x0b", "\x0c", "\x85", "\u2028", "b c", "-", "x"]


def plain_source(rng, o):
    """text, comments and raw blocks only (C11's subject), with all three line breaks, in the delimiters of ``o``"""
    bs, be, cs, ce = o["block_start_string"], o["block_end_string"], o["comment_start_string"], o["comment_end_string"]
    parts = []
    for _ in range(rng.randrange(1, 5)):
        k = rng.choice(["text", "text", "text", "comment", "raw"])
        body = "".join(rng.choice(PLAIN_BITS) for _ in range(rng.randrange(0, 6)))
        if k == "text":
            parts.append(body)
        elif k == "comment":
            parts.append(cs + rng.choice(["", "-", "+"]) + " " + body + " " + rng.choice(["", "-", "+"]) + ce)
        else:
            parts.append(bs + rng.choice(["", "-", "+"]) + " raw " + rng.choice(["", "-"]) + be + body
                         + bs + rng.choice(["", "-", "+"]) + " endraw " + rng.choice(["", "-", "+"]) + be)
    return "".join(parts) + rng.choice(["", "\n", "\r\n", "\r", "\n\n", "\r\n\r\n", "a"])


PLAIN_SENTINELS = ["a\nb\n", "a\r\nb\r\n", "x\ry\r", "a\n\n"]


def attach_plain_probes(rng, scenarios, n_random):
    """probes for C11: plain sources; the Lean lexer model (lex-plain) says what they render to under the options in effect"""
    reqs, index = [], {}
    for s in scenarios:
        for ev in s.events:
            if ev["op"] != "use":
                continue
            o = ev["opts"]
            ev["_plain"] = [rng.choice(PLAIN_SENTINELS), rng.choice(PLAIN_SENTINELS)] + [plain_source(rng, o) for _ in range(n_random)]
            for src in ev["_plain"]:
                k = (okey(o), src)
                if k not in index:
                    index[k] = len(reqs)
                    reqs.append([Atom("lex-plain"), lc.enc_cfg(o), o["newline_sequence"], src])
    reps = core.driver_batch(reqs)
    declined = 0
    for s in scenarios:
        for ev in s.events:
            if ev["op"] != "use":
                continue
            ev["plain"] = []
            ev.setdefault("skeletons", [])
            ev.setdefault("lines", [])
            for src in ev.pop("_plain"):
                r = reps[index[(okey(ev["opts"]), src)]]
                if str(r[0]) != "ok":  # not plain under these options (e.g. a line-statement prefix in the text) / syntax error
                    declined += 1
                    continue
                ev["plain"].append({"source": src, "documented": r[1]})
    return {"model_requests": len(reqs), "model_declined": declined}


# ---------------------------------------------------------------------------------------------------------------
# execution
# ---------------------------------------------------------------------------------------------------------------

def build_root(jinja2, way, opts):
    if way == "template":
        return jinja2.Template("", **opts).environment
    return jinja2.Environment(**opts)


def render(env, src):
    try:
        return env.from_string(src).render()
    except Exception as e:  # noqa
        return f"raised:{type(e).__name__}:{e}"


class Fresh:
    """renderings by environments without any history: ``Environment(**options)`` made for the one render"""

    def __init__(self, jinja2):
        self.jinja2 = jinja2
        self.memo = {}

    def __call__(self, opts, src):
        k = (okey(opts), src)
        if k not in self.memo:
            self.memo[k] = render(self.jinja2.Environment(**opts), src)
        return self.memo[k]


def execute(jinja2, events, on_use):
    """replay the history on the real code; ``on_use(event, env)`` is called at every use, in order"""
    envs = {}
    for ev in events:
        if ev["op"] == "new":
            envs[ev["id"]] = build_root(jinja2, ev["way"], ev["opts"])
        elif ev["op"] == "overlay":
            envs[ev["id"]] = envs[ev["parent"]].overlay(**ev["delta"])
        else:
            on_use(ev, envs[ev["id"]])


def history(events, upto):
    """the JSON-able history that leads to (and includes) the use event ``upto``"""
    out = []
    for ev in events:
        e = {k: v for k, v in ev.items() if not k.startswith("_")}
        out.append(e)
        if ev is upto:
            break
    return out


def describe(events, upto):
    """one line: how the environment of the use ``upto`` came about"""
    parts = []
    for ev in events:
        if ev["op"] == "new":
            parts.append(f"e{ev['id']}=" + ("Environment" if ev["way"] == "direct" else "Template('',…).environment") + "(" + _short(ev["opts"]) + ")")
        elif ev["op"] == "overlay":
            parts.append(f"e{ev['id']}=e{ev['parent']}.overlay(" + ", ".join(f"{k}={v!r}" for k, v in ev["delta"].items()) + ")")
        else:
            parts.append(f"use e{ev['id']}")
        if ev is upto:
            break
    return "; ".join(parts)


def _short(o):
    base = options()
    return ", ".join(f"{k}={v!r}" for k, v in o.items() if base[k] != v)


def replay_history(jinja2, case):
    """re-run a recorded history; returns what the last use renders for the recorded failing source, and what a
    fresh environment with the same effective options renders"""
    out = {}
    fresh = Fresh(jinja2)
    evs = case["history"]
    last = evs[-1]

    def on_use(ev, env):
        for p in ev.get("skeletons", []):
            render(env, p["source"])
        for p in ev.get("lines", []):
            render(env, p["line_source"])
        for p in ev.get("plain", []):
            render(env, p["source"])
        if ev is last:
            out["render"] = render(env, case["source"])
            out["fresh_environment_render"] = fresh(ev["opts"], case["source"])
            out["effective_options"] = ev["opts"]
            out["attributes_of_environment"] = {k: getattr(env, k) for k in ev["opts"]}

    execute(jinja2, evs, on_use)
    return out


# ---------------------------------------------------------------------------------------------------------------
# one configuration reached in many ways (for runners that push a large case set through a fixed configuration)
# ---------------------------------------------------------------------------------------------------------------

def _touch(env):
    """make an environment 'used': it has tokenized, parsed and rendered"""
    list(env.lex("{% if x %} a {% endif %}\n"))
    bs, be = env.block_start_string, env.block_end_string
    env.from_string(f"a\n  {bs} set z = 1 {be}\nb\n").render()
    return env


def variants(jinja2, c):
    """environments whose options in effect are exactly ``c`` (an 11- or 12-option dict as lc.cfg / options), each with
    a different history; returns [(name, env)]"""
    c = dict(c)
    flip = {k: (not c[k]) for k in ("trim_blocks", "lstrip_blocks", "keep_trailing_newline")}
    other_delims = DELIM_SETS["brackets"] if c["block_start_string"] != "[%" else DELIM_SETS["default"]
    only = lambda ks: {k: c[k] for k in ks}  # noqa: E731
    out = [("fresh", jinja2.Environment(**c)),
           ("template-ctor", jinja2.Template("", **c).environment)]
    # overlay of a used parent, everything overridden (delimiters included)
    out.append(("overlay-of-used:all-options", _touch(jinja2.Environment(**flip)).overlay(**c)))
    # ... overriding only the whitespace options, all at once and one at a time down a chain used at each level
    out.append(("overlay-of-used:whitespace-options", _touch(jinja2.Environment(**dict(c, **flip))).overlay(**only(flip))))
    p = _touch(jinja2.Environment(**dict(c, **flip)))
    for k in flip:
        p = _touch(p.overlay(**{k: c[k]})) if k != "keep_trailing_newline" else p.overlay(**{k: c[k]})
    out.append(("overlay-chain-of-used:one-whitespace-option-per-level", p))
    for k in ("trim_blocks", "lstrip_blocks"):
        out.append((f"overlay-of-used:{k}", _touch(jinja2.Environment(**dict(c, **{k: flip[k]}))).overlay(**{k: c[k]})))
    k = "keep_trailing_newline"
    out.append((f"overlay-of-used:{k}", _touch(jinja2.Environment(**dict(c, **{k: flip[k]}))).overlay(**{k: c[k]})))
    if "newline_sequence" in c:
        other_nl = "\r\n" if c["newline_sequence"] != "\r\n" else "\r"
        out.append(("overlay-of-used:newline_sequence",
                    _touch(jinja2.Environment(**dict(c, newline_sequence=other_nl))).overlay(newline_sequence=c["newline_sequence"])))
        out.append(("overlay-of-used:newline_sequence+keep_trailing_newline",
                    _touch(jinja2.Environment(**dict(c, newline_sequence=other_nl, **{k: flip[k]})))
                    .overlay(newline_sequence=c["newline_sequence"], **{k: c[k]})))
        out.append(("overlay-chain-of-used:newline_sequence-then-keep_trailing_newline",
                    _touch(_touch(jinja2.Environment(**dict(c, newline_sequence=other_nl, **{k: flip[k]})))
                           .overlay(newline_sequence=c["newline_sequence"])).overlay(**{k: c[k]})))
    # ... overriding only the delimiters
    out.append(("overlay-of-used:delimiters", _touch(jinja2.Environment(**dict(c, **other_delims))).overlay(**only(DELIM_KEYS))))
    # overlay of a fresh parent
    out.append(("overlay-of-fresh:whitespace-options", jinja2.Environment(**dict(c, **flip)).overlay(**only(flip))))
    # sibling overlays of one used parent; the other sibling is used first
    par = _touch(jinja2.Environment(**dict(c, trim_blocks=flip["trim_blocks"])))
    sib_a = par.overlay(trim_blocks=c["trim_blocks"])
    _touch(par.overlay(lstrip_blocks=flip["lstrip_blocks"]))
    out.append(("sibling-overlay-of-used:trim_blocks", sib_a))
    # the parent itself, after overlays with other options were taken from it and used
    par = _touch(jinja2.Environment(**c))
    _touch(par.overlay(**flip))
    _touch(par.overlay(trim_blocks=flip["trim_blocks"]).overlay(lstrip_blocks=flip["lstrip_blocks"]))
    _touch(par.overlay(**other_delims))
    out.append(("parent-after-its-overlays-were-used", par))
    return out
