"""./check <ID> --tier quick|thorough [--replay FILE]

Decides one property:
  1. regenerate the Gen/*.lean files the property uses from /repo's working tree
  2. build the driver, then the property's proof modules (lake), audit axioms, hygiene
  3. run the correspondence (model/spec in Lean vs. the real code) at the tier's budget
  4. verdict per DESIGN.md §2.6, evidence file, exit code (0 ok, 1 violation, 2 harness error)
"""
from __future__ import annotations

import argparse
import importlib
import json
import os
import sys
import time
import traceback
from pathlib import Path

sys.path.insert(0, str(Path(__file__).resolve().parent.parent))
sys.dont_write_bytecode = True

from harness import core  # noqa: E402


class Ctx:
    def __init__(self, pid, tier, seed):
        self.pid = pid
        self.tier = tier
        self.seed = seed
        self.quick = tier == "quick"

    def rng(self, *parts):
        return core.rng_for(self.seed, self.pid, *parts)

    def pick(self, quick, thorough):
        return quick if self.quick else thorough


def main(argv=None):
    ap = argparse.ArgumentParser()
    ap.add_argument("pid")
    ap.add_argument("--tier", default=os.environ.get("VERIF_TIER", "quick"), choices=["quick", "thorough"])
    ap.add_argument("--replay")
    args = ap.parse_args(argv)
    pid = args.pid.upper()
    seed = int(os.environ.get("VERIF_SEED", "0") or 0)
    t0 = time.monotonic()
    try:
        return decide(pid, args.tier, seed, args.replay, t0)
    except core.HarnessError as e:
        return harness_failure(pid, args.tier, seed, f"{e}")
    except subprocess_timeout() as e:  # pragma: no cover
        print(f"HARNESS-TIMEOUT property={pid}: {e}", file=sys.stderr)
        return 2
    except Exception:
        tb = traceback.format_exc()
        traceback.print_exc()
        return harness_failure(pid, args.tier, seed, "unexpected exception: " + tb[-1500:])


def harness_failure(pid, tier, seed, what):
    """A precondition of the machinery failed.  On the tree the baselines were recorded against that is a machinery defect
    (exit 2, nothing is claimed).  On a DIFFERENT source tree the controls and generators of a check are themselves a
    correspondence with the code (they render, load and behave as planned on the recorded tree), so their failure is a broken
    tie: the property is no longer shown to hold — reported as a violation without a failing input."""
    try:
        changed = not core.source_is_baseline()
    except Exception:
        changed = False
    if not changed:
        print(f"HARNESS-ERROR property={pid}: {what}", file=sys.stderr)
        return 2
    rdir = core.VERIF / "replays"
    rdir.mkdir(exist_ok=True)
    path = rdir / f"{pid}-{seed}-tie.json"
    path.write_text(json.dumps({
        "property": pid, "key": f"{pid}:tie:harness-precondition", "tier": tier, "seed": seed,
        "what": "a precondition of the check (a control, a planned case, a generator invariant) no longer holds on this source "
                "tree, which differs from the one the baselines were recorded against: the correspondence is broken",
        "detail": what, "no_failing_input_found": True}, indent=1))
    print(f"  {pid}:tie:harness-precondition: {what[:600]}")
    print(f"VIOLATION property={pid} replay={path} no-failing-input-found")
    return 1


def subprocess_timeout():
    import subprocess

    return subprocess.TimeoutExpired


def decide(pid, tier, seed, replay, t0):
    mod = importlib.import_module(f"harness.props.{pid.lower()}")
    ctx = Ctx(pid, tier, seed)
    core.import_jinja()

    if replay:
        case = json.loads(Path(replay).read_text())
        out = mod.replay(ctx, case) if hasattr(mod, "replay") else "no replay function"
        print(json.dumps(out, indent=1, default=str))
        return 0

    res = core.Result()
    tie_broken: list[str] = []      # translator could not translate / gen differs
    proof_broken: list[str] = []    # modules that do not build

    # 1. translator ---------------------------------------------------------
    gen_changed = []
    for g in getattr(mod, "GEN", []):
        try:
            name, content = g()
            path = core.GEN / name
            baseline = core.VERIF / "translate" / "baseline" / name
            core.write_if_changed(path, content)
            if baseline.exists() and baseline.read_text() != content:
                gen_changed.append(name)
        except core.HarnessError:
            raise
        except Exception as e:  # source left the supported subset
            tie_broken.append(f"translator {g.__module__}: {type(e).__name__}: {e}")
            # fall back to the baseline Gen file so that nothing stale from an earlier run is used
            bdir = core.VERIF / "translate" / "baseline"
            for bf in bdir.glob("*.lean"):
                if g.__module__.split(".")[-1].replace("_", "") in bf.stem.lower().replace("_", "") or \
                        bf.stem.lower() in g.__module__.replace("_", ""):
                    core.write_if_changed(core.GEN / bf.name, bf.read_text())

    # 2. build --------------------------------------------------------------
    ok, log = core.lake_build(["jv-driver"])
    if not ok:
        if gen_changed or tie_broken:
            tie_broken.append("driver does not build over regenerated Gen files")
        else:
            raise core.HarnessError("jv-driver does not build:\n" + log[-3000:])
    modules = list(getattr(mod, "LEAN_MODULES", []))
    theorems: list[str] = []
    discharged = 0
    axioms_seen: set[str] = set()
    bad_axioms: list[str] = []
    for m in modules:
        ths = core.theorems_in(m)
        theorems += ths
        ok, log = core.lake_build([m])
        if not ok:
            proof_broken.append(m)
            res.notes.append(f"build of {m} failed: " + log[-1500:])
            continue
        ax = core.audit_axioms(m, ths)
        for t, a in ax.items():
            axioms_seen.update(a)
            extra = set(a) - core.ALLOWED_AXIOMS
            if extra:
                bad_axioms.append(f"{t}: {sorted(extra)}")
            else:
                discharged += 1
    # thorough tier: a second opinion on the compiled proofs from the toolchain's independent re-checker
    rechecked = []
    if tier == "thorough" and not proof_broken:
        built = [m for m in modules if m not in proof_broken]
        rc, out, err = core.run(["lake", "env", "leanchecker"] + built, cwd=str(core.VERIF / "lean"), timeout=1500)
        if rc != 0:
            raise core.HarnessError(f"leanchecker rejects {built}: " + (out + err)[-2000:])
        rechecked = built
    if proof_broken and not gen_changed and not tie_broken:
        raise core.HarnessError(
            f"proof module(s) {proof_broken} fail to build although Gen files equal the baseline "
            "(machinery defect, not a property of /repo):\n" + "\n".join(res.notes)[-3000:])
    if bad_axioms:
        raise core.HarnessError("forbidden axioms: " + "; ".join(bad_axioms))
    files = []
    for m in modules:
        files += core.lean_closure(m)
    hyg = core.hygiene(sorted(set(files)))
    if hyg:
        raise core.HarnessError("hygiene: " + "; ".join(hyg[:5]))

    # 3. correspondence -----------------------------------------------------
    ctx.gen_changed = gen_changed
    ctx.tie_broken = tie_broken
    ctx.proof_broken = proof_broken
    mod.run(ctx, res)

    # 4. verdict --------------------------------------------------------------
    known_now = {k["key"] for k in core.load_known() if k.get("property") == pid and k.get("kind") == "known"}
    # a known finding is not an explanation for a broken proof or tie
    concrete = [v for v in res.violations if not v.no_input and v.key not in known_now]
    if (proof_broken or tie_broken) and not concrete:
        what = "; ".join([f"theorems of {m} no longer check over the regenerated model" for m in proof_broken]
                         + tie_broken)
        res.violate(f"{pid}:tie", what, {"proof_broken": proof_broken, "tie_broken": tie_broken,
                                          "gen_changed": gen_changed, "notes": res.notes[-3:]}, no_input=True)

    known = [k for k in core.load_known() if k.get("property") == pid and k.get("kind") == "known"]
    known_keys = {k["key"] for k in known}
    reported = 0
    rdir = core.VERIF / "replays"
    rdir.mkdir(exist_ok=True)
    lines = []
    known_hit = []
    for i, v in enumerate(res.violations):
        if v.key in known_keys:
            known_hit.append(v.key)
            lines.append(f"KNOWN-FINDING: property={pid} {v.key}: {v.what}")
            continue
        reported += 1
        rp = rdir / f"{pid}-{seed}-{i}.json"
        rp.write_text(json.dumps({"property": pid, "key": v.key, "what": v.what, "case": v.replay,
                                  "seed": seed, "tier": tier}, indent=1, default=str))
        lines.append(f"VIOLATION property={pid} replay={rp}" + (" no-failing-input-found" if v.no_input else ""))
        print(f"  {v.key}: {v.what}", file=sys.stderr)

    wall = time.monotonic() - t0
    cov = dict(res.coverage)
    cov.setdefault("obligations", len(theorems))
    cov.setdefault("discharged", discharged)
    cov.setdefault("checker_cmd", "lake build " + " ".join(modules) + " && lake env lean <#print axioms for each theorem>")
    cov.setdefault("trusted_base", [
        "Lean 4.33 kernel" + (f"; compiled proofs of {len(rechecked)} module(s) re-checked by leanchecker" if rechecked else ""),
        "axioms: " + (", ".join(sorted(axioms_seen)) or "none"),
        "translator /verif/translate (Python ast) for Gen/*.lean",
        "correspondence harness /verif/harness (generators, canonicalisation, comparison)",
    ] + list(getattr(mod, "TRUSTED", [])))
    cov["theorems"] = theorems
    cov["gen_changed"] = gen_changed
    cov["known_findings_hit"] = sorted(set(known_hit))
    level = getattr(mod, "LEVEL", "proof")
    ev = {
        "property_id": pid, "tier": tier, "seed": seed, "level": level, "coverage": cov,
        "assumptions": res.assumptions + list(getattr(mod, "ASSUMPTIONS", [])),
        "wall_s": round(wall, 3), "violations": reported,
    }
    # the evidence schema fixes the type of a few coverage keys; a runner that reuses one of those names for something
    # else would make the whole file invalid ("treated as no evidence"), so refuse to write such a file
    int_keys = ("evaluations", "distinct_nontrivial", "obligations", "discharged", "programs", "states", "transitions",
                "traces_validated_against_impl", "disagreements_checked")
    for k in int_keys:
        if k in cov and (isinstance(cov[k], bool) or not isinstance(cov[k], int) or cov[k] < 0):
            raise core.HarnessError(f"coverage[{k!r}] must be a non-negative integer (evidence schema), got {type(cov[k]).__name__}")
    if not isinstance(cov.get("samples"), list) or not cov.get("samples"):
        raise core.HarnessError("coverage['samples'] must be a non-empty list (evidence schema)")
    edir = core.VERIF / "evidence"
    edir.mkdir(exist_ok=True)
    (edir / f"{pid}.json").write_text(json.dumps(ev, indent=1, default=str, ensure_ascii=False))
    for l in lines:
        print(l)
    print(f"{pid} {tier} seed={seed}: obligations {discharged}/{len(theorems)}, "
          f"evaluations {cov.get('evaluations')}, violations {reported}, known {len(set(known_hit))}, {wall:.1f}s")
    return 1 if reported else 0


if __name__ == "__main__":
    sys.exit(main())
