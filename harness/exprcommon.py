"""Shared by C02 / C08 / C20: expression trees, their concrete syntax (printed by the Lean Spec), the real parser's AST
in the same shape, data contexts, environments, and canonical results.

An expression tree is a nested list with an Atom head, exactly the wire form of lean/JinjaV/Wire/Expr.lean:
  (c val) (n "x") (tuple e…) (list e…) (dict (k v)…) (cond t a [b]) (and a b) (or a b) (not a)
  (cmp e (op e)…) (bin "+" a b) (cat e…) (un "-" a) (attr e "a") (item e i) (slice e a|_ b|_ s|_)
  (call f a…) (filter e "name" a…) (test e "name" a…)
values: none true false <int> (s "…") (m "…") (l v…) (t v…) (d (k v)…) (u) (o id) (f id)
"""
from __future__ import annotations

import asyncio

from harness import core
from harness.core import Atom

A = Atom
NONE = A("none")


# ---------------------------------------------------------------------------------------------
# data
# ---------------------------------------------------------------------------------------------

class Obj:
    def __init__(self, oid, attrs, items):
        self._oid = oid
        self._items = items
        for k, v in attrs.items():
            setattr(self, k, v)

    def __getitem__(self, k):
        return self._items[k]

    def __repr__(self):
        return f"<obj{self._oid}>"


def fn0(*a):
    return list(a)


def fn1(*a):
    return len(a)


FNS = {0: fn0, 1: fn1}
STR_POOL = ["", "a", "ab", "<b>", "a&b", "it's", 'say "q"', "x y", "A1", "&lt;", "é"]
ATTRS = ["a", "b", "k", "zz"]


def make_data(jinja2, rng):
    from markupsafe import Markup

    o = Obj(0, {"a": rng.randrange(0, 9), "k": "attr-k"}, {"k": "item-k", "b": rng.randrange(0, 9), 0: "zero"})
    data = {
        "i": rng.randrange(0, 7), "j": rng.randrange(1, 5),
        "s": rng.choice(STR_POOL), "u": rng.choice(STR_POOL),
        "m": Markup(rng.choice(["<i>", "x", "a&amp;b", ""])),
        "xs": [rng.randrange(0, 9) for _ in range(rng.randrange(0, 4))],
        "ss": [rng.choice(STR_POOL) for _ in range(rng.randrange(0, 4))],
        "ms": [Markup("<u>"), rng.choice(STR_POOL)],
        "d": {"a": rng.randrange(0, 9), "k": rng.randrange(0, 9), "x y": 3},
        "o": o, "f0": fn0, "f1": fn1, "n": None, "b": rng.random() < 0.5,
    }
    return data


def val_sx(jinja2, v):
    from markupsafe import Markup

    if v is None:
        return NONE
    if isinstance(v, bool):
        return v
    if isinstance(v, int):
        return v
    if isinstance(v, Markup):
        return [A("m"), str(v)]
    if isinstance(v, str):
        return [A("s"), v]
    if isinstance(v, list):
        return [A("l")] + [val_sx(jinja2, x) for x in v]
    if isinstance(v, tuple):
        return [A("t")] + [val_sx(jinja2, x) for x in v]
    if isinstance(v, dict):
        return [A("d")] + [[val_sx(jinja2, k), val_sx(jinja2, x)] for k, x in v.items()]
    if isinstance(v, jinja2.Undefined):
        return [A("u")]
    if isinstance(v, Obj):
        return [A("o"), v._oid]
    for k, f in FNS.items():
        if v is f:
            return [A("f"), k]
    raise ValueError(f"value outside the wire universe: {type(v).__name__}")


def ctx_sx(jinja2, data):
    vars_ = [[k, val_sx(jinja2, v)] for k, v in data.items()]
    objs = []
    for v in data.values():
        if isinstance(v, Obj):
            attrs = [[k, val_sx(jinja2, x)] for k, x in vars(v).items() if not k.startswith("_")]
            items = [[val_sx(jinja2, k), val_sx(jinja2, x)] for k, x in v._items.items()]
            objs.append([v._oid, attrs, items])
    return vars_, objs


# ---------------------------------------------------------------------------------------------
# type-directed generator
# ---------------------------------------------------------------------------------------------

def c(v):
    return [A("c"), v]


def cs(s):
    return [A("c"), [A("s"), s]]


def n(x):
    return [A("n"), x]


class Gen:
    """random expression trees; `arith` biases towards operator-heavy integer expressions (C20), `consts` towards
    constant subexpressions (C08)"""

    def __init__(self, rng, arith=0.0, consts=0.3, mismatch=0.08):
        self.rng, self.arith, self.consts, self.mismatch = rng, arith, consts, mismatch

    def pick(self, opts):
        return self.rng.choice(opts)

    def any(self, d):
        if self.rng.random() < self.arith:
            return self.int(d)
        return self.pick([self.int, self.str, self.bool, self.lst, self.int, self.str, self.misc])(d)

    def ty(self, want, d):
        if self.rng.random() < self.mismatch:
            return self.any(d)
        return want(d)

    def int(self, d):
        r = self.rng
        if d <= 0 or r.random() < 0.25:
            if r.random() < self.consts + 0.2:
                return c(r.randrange(0, 13))
            return n(self.pick(["i", "j", "i", "zz"] if r.random() < 0.15 else ["i", "j"]))
        k = r.random()
        if r.random() < 0.06 * (self.consts + self.arith):
            # a foldable operand next to a run-time operator of higher precedence than the folded form's own syntax
            neg = self.pick([[A("un"), "-", c(r.randrange(1, 5))], [A("bin"), "-", c(1), c(r.randrange(2, 6))],
                             [A("un"), "-", [A("un"), "+", c(2)]], [A("bin"), "*", c(3), [A("un"), "-", c(1)]],
                             # a negative *float* constant (true division folds to a float: outside the Lean value
                             # universe, but the optimized / unoptimized / constants-lifted renders must still agree)
                             [A("bin"), "/", [A("un"), "-", c(r.randrange(1, 9))], c(2)],
                             [A("bin"), "/", c(r.randrange(1, 9)), [A("un"), "-", c(4)]]])
            return self.pick([[A("bin"), "**", neg, n(self.pick(["j", "i"]))],
                              [A("filter"), neg, "abs"],
                              [A("bin"), "-", n("i"), neg],
                              [A("un"), "-", neg]])
        if k < 0.45 or r.random() < self.arith:
            op = self.pick(["+", "-", "*", "//", "%", "**", "+", "-", "*", "/"])
            if op == "**":
                # small exponents only (value growth); sometimes a variable one so that a folded base meets a runtime `**`
                return [A("bin"), op, self.ty(self.int, d - 1), c(r.randrange(0, 4)) if r.random() < 0.6 else n(self.pick(["j", "i"]))]
            return [A("bin"), op, self.ty(self.int, d - 1), self.ty(self.int, d - 1)]
        if k < 0.55:
            return [A("un"), self.pick(["-", "-", "+"]), self.ty(self.int, d - 1)]
        if k < 0.62:
            return [A("filter"), self.pick([self.lst, self.str])(d - 1), self.pick(["length", "count"])]
        if k < 0.66:
            return [A("filter"), self.ty(self.int, d - 1), "abs"]
        if k < 0.70:
            return [A("filter"), self.intlist(d - 1), "sum"]
        if k < 0.76:
            return [A("item"), self.intlist(d - 1), self.pick([c(0), c(1), c(5), self.int(d - 1), [A("un"), "-", c(1)]])]
        if k < 0.82:
            return self.lookup(d)
        if k < 0.88:
            return [A("cond"), self.bool(d - 1), self.int(d - 1)] + ([self.int(d - 1)] if r.random() < 0.8 else [])
        if k < 0.92:
            return [A("call"), n("f1")] + [self.any(d - 2) for _ in range(r.randrange(0, 3))]
        if k < 0.96:
            return [A("filter"), self.intlist(d - 1), self.pick(["first", "last"])]
        return [A("filter"), self.pick([n("zz"), n("n"), self.int(d - 1)]), "default", self.int(d - 1)] + \
            ([c(True)] if r.random() < 0.5 else [])

    def lookup(self, d):
        r = self.rng
        base = self.pick([n("o"), n("d"), n("o"), n("d"), n("xs"), n("s"), n("n"), n("zz"), n("i")])
        if r.random() < 0.5:
            return [A("attr"), base, self.pick(ATTRS)]
        key = self.pick([cs("a"), cs("b"), cs("k"), cs("zz"), cs("x y"), c(0), c(1), c(7), n("s"),
                         [A("list"), c(1)]])
        return [A("item"), base, key]

    def intlist(self, d):
        r = self.rng
        if d <= 0 or r.random() < 0.5:
            if r.random() < self.consts + 0.2:
                return [A("list")] + [c(r.randrange(0, 9)) for _ in range(r.randrange(0, 4))]
            return n("xs")
        k = r.random()
        if k < 0.3:
            return [A("list")] + [self.int(d - 1) for _ in range(r.randrange(0, 4))]
        if k < 0.5:
            return [A("bin"), "+", self.intlist(d - 1), self.intlist(d - 1)]
        if k < 0.65:
            return self.slice(self.intlist(d - 1), d)
        if k < 0.8:
            return [A("tuple")] + [self.int(d - 1) for _ in range(r.randrange(0, 3))]
        if k < 0.9:
            return [A("call"), n("f0")] + [self.int(d - 1) for _ in range(r.randrange(0, 3))]
        return [A("bin"), "*", self.intlist(d - 1), c(r.randrange(0, 3))]

    def slice(self, e, d):
        r = self.rng

        def b():
            k = r.random()
            if k < 0.35:
                return A("_")
            if k < 0.8:
                return c(r.randrange(0, 4))
            if k < 0.9:
                return [A("un"), "-", c(r.randrange(1, 3))]
            return self.pick([c(NONE), n("i"), n("zz"), cs("a")])
        return [A("slice"), e, b(), b(), self.pick([A("_"), A("_"), A("_"), c(1), c(0), c(2)])]

    def strlist(self, d):
        r = self.rng
        k = r.random()
        if k < 0.3:
            return n("ss")
        if k < 0.45:
            return n("ms")
        if k < 0.8:
            return [A("list")] + [self.pick([self.str, self.str, self.int])(max(d - 1, 0)) for _ in range(r.randrange(0, 4))]
        if k < 0.9:
            return [A("filter"), self.str(d - 1), "list"]
        return [A("tuple")] + [self.str(max(d - 1, 0)) for _ in range(r.randrange(0, 3))]

    def lst(self, d):
        return self.pick([self.intlist, self.strlist])(d)

    def str(self, d):
        r = self.rng
        if d <= 0 or r.random() < 0.25:
            if r.random() < self.consts + 0.2:
                if r.random() < 0.25:          # a literal marked safe (C08: "values marked safe")
                    return [A("filter"), cs(r.choice(STR_POOL)), self.pick(["safe", "safe", "escape"])]
                return cs(r.choice(STR_POOL))
            return n(self.pick(["s", "u", "m", "s"]))
        if r.random() < 0.07:
            # a postfix chain: subscription / attribute / call / filter directly followed by a slice or another subscript
            # (`ss[0][1:]`, `o.k[:2]`, `f1(s)[1:][0]`): the operand of a postfix operator is itself a postfix expression
            idx = self.pick([c(0), c(1), [A("un"), "-", c(1)], n("i")])
            base = self.pick([
                lambda: [A("item"), self.strlist(d - 1), idx],
                lambda: [A("item"), n("ss"), idx],
                lambda: [A("attr"), n("o"), "k"],
                lambda: [A("item"), n("o"), cs("k")],
                lambda: [A("call"), n("f1"), self.str(d - 1)],
                lambda: [A("filter"), self.str(d - 1), self.pick(["upper", "lower", "string"])],
            ])()
            e = self.slice(base, d)
            if r.random() < 0.4:
                e = self.pick([lambda: self.slice(e, d), lambda: [A("item"), e, self.pick([c(0), [A("un"), "-", c(1)]])]])()
            return e
        if r.random() < 0.12 * self.consts:
            sens = self.sensitive_const()
            if r.random() < 0.45:
                # ... as a constant operand in a *list position* (concat operand, filter argument, list item) of an
                # expression that is not constant as a whole: it is folded on its own, by the optimizer's child visit
                var = n(self.pick(["s", "u", "m", "i", "zz"]))
                return self.pick([
                    [A("cat"), sens, var],
                    [A("cat"), var, sens],
                    [A("cat"), var, sens, self.sensitive_const()],
                    [A("filter"), var, "replace", cs("x"), sens],
                    [A("filter"), [A("list"), sens, var], "join"] + ([cs(self.pick(["<", ", "]))] if r.random() < 0.5 else []),
                    [A("filter"), [A("list"), var, var], "join", sens],
                    [A("filter"), self.pick([n("zz"), n("n")]), "default", sens],
                    [A("filter"), [A("tuple"), sens, var], "join"],
                    [A("cond"), n("b"), [A("cat"), sens, var], sens],
                ])
            return sens
        k = r.random()
        if k < 0.22:
            return [A("cat")] + [self.pick([self.str, self.str, self.int, self.any])(d - 1) for _ in range(r.randrange(2, 4))]
        if k < 0.32:
            return [A("bin"), "+", self.ty(self.str, d - 1), self.ty(self.str, d - 1)]
        if k < 0.38:
            return [A("bin"), "*", self.str(d - 1), c(r.randrange(0, 4))]
        if k < 0.46:
            return [A("filter"), self.ty(self.str, d - 1), self.pick(["upper", "lower"])]
        if k < 0.56:
            return [A("filter"), self.lst(d - 1), "join"] + ([self.pick([cs(", "), cs("<"), n("m"), cs("")])] if r.random() < 0.7 else [])
        if k < 0.64:
            return [A("filter"), self.ty(self.str, d - 1), "replace",
                    self.pick([cs("a"), cs("<"), cs("b"), n("m"), cs("&")]), self.pick([cs("<x>"), cs("Z"), n("m"), cs("")])]
        if k < 0.72:
            return [A("filter"), self.any(d - 1), self.pick(["string", "safe", "escape", "e", "forceescape"])]
        if k < 0.78:
            return self.slice(self.str(d - 1), d)
        if k < 0.83:
            return [A("item"), self.str(d - 1), self.pick([c(0), c(1), c(9), [A("un"), "-", c(1)]])]
        if k < 0.90:
            return [A("cond"), self.bool(d - 1), self.str(d - 1)] + ([self.str(d - 1)] if r.random() < 0.8 else [])
        if k < 0.95:
            return [A("filter"), self.pick([n("zz"), n("n"), cs(""), self.str(d - 1)]), self.pick(["default", "d"])] + \
                ([self.str(d - 1)] + ([c(True)] if r.random() < 0.5 else []) if r.random() < 0.8 else [])
        return [A("filter"), self.strlist(d - 1), self.pick(["first", "last"])]

    def sensitive_const(self):
        """a constant subexpression whose value depends on the escaping mode"""
        r = self.rng
        meta = self.pick(["<b>", "a&b", "it's", 'say "q"', "&lt;"])
        safe = [A("filter"), cs(self.pick(["<i>", "x", "<b>"])), self.pick(["safe", "escape"])]
        return self.pick([
            [A("cat"), safe, cs(meta)],
            [A("cat"), cs(meta), safe, c(r.randrange(0, 9))],
            [A("filter"), [A("list"), cs(meta), safe], "join"] + ([cs(self.pick(["<", ", "]))] if r.random() < 0.6 else []),
            [A("filter"), safe, "replace", cs("x"), cs(meta)],
            [A("bin"), "+", safe, cs(meta)],
        ])

    def bool(self, d):
        r = self.rng
        if d <= 0 or r.random() < 0.2:
            return self.pick([c(True), c(False), n("b"), n("zz"), n("n"), n("i"), n("s")])
        k = r.random()
        if k < 0.3:
            ops = []
            same = self.pick([self.int, self.int, self.str])
            for _ in range(r.randrange(1, 3)):
                ops.append([self.pick(["eq", "ne", "lt", "lteq", "gt", "gteq"]), self.ty(same, d - 1)])
            return [A("cmp"), self.ty(same, d - 1)] + ops
        if k < 0.4:
            if r.random() < 0.35 * self.consts:
                # containment between two constants where the two directions differ (a proper substring; a list among lists)
                whole = r.choice([p for p in STR_POOL if len(p) >= 2])
                i0 = r.randrange(0, len(whole) - 1)
                sub = whole[i0:r.randrange(i0 + 1, len(whole))] or whole[:1]
                k1 = c(r.randrange(0, 3))
                return self.pick([
                    [A("cmp"), cs(sub), [self.pick(["in", "notin"]), cs(whole)]],
                    [A("cmp"), cs(sub), [self.pick(["in", "notin"]), [A("filter"), cs(whole), self.pick(["lower", "upper", "string"])]]],
                    [A("cmp"), [A("list"), k1], [self.pick(["in", "notin"]), [A("list"), [A("list"), k1], [A("list"), c(7)]]]],
                    [A("cmp"), [A("tuple"), k1, c(2)], [self.pick(["in", "notin"]), [A("list"), [A("tuple"), k1, c(2)]]]],
                ])
            coll = self.pick([self.intlist, self.strlist, self.str, lambda dd: n("d"), lambda dd: n("zz")])
            return [A("cmp"), self.pick([self.int, self.str])(d - 1), [self.pick(["in", "notin"]), coll(d - 1)]]
        if k < 0.6:
            return [A(self.pick(["and", "or"])), self.any(d - 1), self.any(d - 1)]
        if k < 0.7:
            return [A("not"), self.any(d - 1)]
        if k < 0.9:
            t = self.pick(["defined", "undefined", "none", "odd", "even", "string", "number", "integer", "boolean", "true", "false",
                           "mapping", "sequence", "iterable", "callable", "escaped", "upper", "lower", "string"])
            arg = self.int(d - 1) if t in ("odd", "even") else self.any(d - 1)
            return [A("test"), arg, t]
        t = self.pick(["divisibleby", "eq", "ne", "lt", "le", "gt", "ge", "in", "equalto", "greaterthan", "lessthan"])
        if t == "in":
            return [A("test"), self.int(d - 1), t, self.intlist(d - 1)]
        return [A("test"), self.int(d - 1), t, self.int(d - 1)]

    def misc(self, d):
        r = self.rng
        k = r.random()
        if k < 0.05:
            # a filter and the test of the same name side by side (they are different functions)
            nm = self.pick(["upper", "lower", "string"])
            v = self.pick([n("s"), n("u"), cs("Ab"), n("i")])
            return [A("tuple"), [A("filter"), v, nm], [A("test"), self.pick([n("s"), cs("AB"), cs("ab"), n("u")]), nm]]
        if k < 0.2:
            return self.lookup(d)
        if k < 0.35:
            return [A("dict")] + [[self.pick([cs("a"), cs("k"), c(1), cs("a")]), self.any(d - 1)] for _ in range(r.randrange(0, 3))]
        if k < 0.5:
            return [A("tuple")] + [self.any(d - 1) for _ in range(r.randrange(0, 3))]
        if k < 0.6:
            return [A("call"), self.pick([n("f0"), n("f1"), n("i"), n("zz"), n("n")])] + [self.any(d - 1) for _ in range(r.randrange(0, 3))]
        if k < 0.7:
            return self.pick([c(NONE), n("n"), n("zz"), n("o"), n("d")])
        if k < 0.85:
            return [A("cond"), self.any(d - 1), self.any(d - 1)] + ([self.any(d - 1)] if r.random() < 0.7 else [])
        return [A("attr"), [A("dict"), [cs("a"), self.any(d - 1)]], self.pick(["a", "zz"])]


def size(e):
    if isinstance(e, list):
        return 1 + sum(size(x) for x in e[1:] if isinstance(x, list))
    return 0


def kinds(e, acc):
    if isinstance(e, list) and e and isinstance(e[0], Atom):
        acc[str(e[0])] = acc.get(str(e[0]), 0) + 1
        for x in e[1:]:
            kinds(x, acc)
    elif isinstance(e, list):
        for x in e:
            kinds(x, acc)
    return acc


def lift_consts(e, env):
    """replace every literal by a fresh context variable holding the same value (C08's second clause)"""
    if isinstance(e, list) and e and isinstance(e[0], Atom):
        if e[0] == "c":
            name = f"c_{len(env)}"
            env[name] = e[1]
            return [A("n"), name]
        if e[0] in ("n",):
            return e
        head = [e[0]]
        rest = e[1:]
        if e[0] in ("attr",):
            return [e[0], lift_consts(e[1], env), e[2]]
        if e[0] in ("filter", "test"):
            return [e[0], lift_consts(e[1], env), e[2]] + [lift_consts(x, env) for x in e[3:]]
        if e[0] in ("bin", "un"):
            return [e[0], e[1]] + [lift_consts(x, env) for x in e[2:]]
        if e[0] == "cmp":
            return [e[0], lift_consts(e[1], env)] + [[op, lift_consts(x, env)] for op, x in e[2:]]
        if e[0] == "dict":
            return [e[0]] + [[lift_consts(k, env), lift_consts(v, env)] for k, v in e[1:]]
        return head + [lift_consts(x, env) if isinstance(x, list) else x for x in rest]
    return e


def wire_to_py(jinja2, v):
    from markupsafe import Markup

    if isinstance(v, Atom):
        return None if v == "none" else v
    if isinstance(v, (bool, int)):
        return v
    h = v[0]
    if h == "s":
        return v[1]
    if h == "m":
        return Markup(v[1])
    if h == "l":
        return [wire_to_py(jinja2, x) for x in v[1:]]
    if h == "t":
        return tuple(wire_to_py(jinja2, x) for x in v[1:])
    raise ValueError(v)


# ---------------------------------------------------------------------------------------------
# the real parser's AST in the same shape
# ---------------------------------------------------------------------------------------------

BINCLS = {"Add": "+", "Sub": "-", "Mul": "*", "Div": "/", "FloorDiv": "//", "Mod": "%", "Pow": "**"}


class NotInFragment(Exception):
    pass


def ast_sx(jinja2, node):
    N = jinja2.nodes
    t = type(node).__name__
    if isinstance(node, N.Const):
        v = node.value
        if isinstance(v, float):
            raise NotInFragment("float")
        return [A("c"), val_sx(jinja2, v)]
    if isinstance(node, N.Name):
        return [A("n"), node.name]
    if isinstance(node, N.Tuple):
        return [A("tuple")] + [ast_sx(jinja2, x) for x in node.items]
    if isinstance(node, N.List):
        return [A("list")] + [ast_sx(jinja2, x) for x in node.items]
    if isinstance(node, N.Dict):
        return [A("dict")] + [[ast_sx(jinja2, p.key), ast_sx(jinja2, p.value)] for p in node.items]
    if isinstance(node, N.CondExpr):
        return [A("cond"), ast_sx(jinja2, node.test), ast_sx(jinja2, node.expr1)] + \
            ([ast_sx(jinja2, node.expr2)] if node.expr2 is not None else [])
    if isinstance(node, N.And):
        return [A("and"), ast_sx(jinja2, node.left), ast_sx(jinja2, node.right)]
    if isinstance(node, N.Or):
        return [A("or"), ast_sx(jinja2, node.left), ast_sx(jinja2, node.right)]
    if isinstance(node, N.Not):
        return [A("not"), ast_sx(jinja2, node.node)]
    if isinstance(node, N.Compare):
        return [A("cmp"), ast_sx(jinja2, node.expr)] + [[o.op, ast_sx(jinja2, o.expr)] for o in node.ops]
    if t in BINCLS:
        return [A("bin"), BINCLS[t], ast_sx(jinja2, node.left), ast_sx(jinja2, node.right)]
    if isinstance(node, N.Concat):
        return [A("cat")] + [ast_sx(jinja2, x) for x in node.nodes]
    if isinstance(node, N.Neg):
        return [A("un"), "-", ast_sx(jinja2, node.node)]
    if isinstance(node, N.Pos):
        return [A("un"), "+", ast_sx(jinja2, node.node)]
    if isinstance(node, N.Getattr):
        return [A("attr"), ast_sx(jinja2, node.node), node.attr]
    if isinstance(node, N.Getitem):
        if isinstance(node.arg, N.Slice):
            s = node.arg
            return [A("slice"), ast_sx(jinja2, node.node)] + \
                [ast_sx(jinja2, x) if x is not None else A("_") for x in (s.start, s.stop, s.step)]
        return [A("item"), ast_sx(jinja2, node.node), ast_sx(jinja2, node.arg)]
    if isinstance(node, (N.Call, N.Filter, N.Test)):
        if node.kwargs or node.dyn_args is not None or node.dyn_kwargs is not None:
            raise NotInFragment("kwargs")
        if isinstance(node, N.Call):
            return [A("call"), ast_sx(jinja2, node.node)] + [ast_sx(jinja2, x) for x in node.args]
        return [A("filter" if isinstance(node, N.Filter) else "test"), ast_sx(jinja2, node.node), node.name] + \
            [ast_sx(jinja2, x) for x in node.args]
    raise NotInFragment(t)


def parse_expr(jinja2, env, src):
    tree = env.parse("{{ " + src + " }}")
    out = tree.body[0]
    assert isinstance(out, jinja2.nodes.Output) and len(out.nodes) == 1, tree
    return ast_sx(jinja2, out.nodes[0])


# ---------------------------------------------------------------------------------------------
# environments
# ---------------------------------------------------------------------------------------------

ERRMAP = {"TypeError": "TypeError", "UndefinedError": "UndefinedError", "ZeroDivisionError": "ZeroDivisionError",
          "ValueError": "ValueError", "OverflowError": "OverflowError", "KeyError": "KeyError", "IndexError": "KeyError"}

BINOPS = ["+", "-", "*", "/", "//", "%", "**"]
UNOPS = ["-", "+"]


class Variant:
    """one environment configuration = one compile-time configuration of the model"""

    def __init__(self, jinja2, autoescape=False, optimized=True, sandboxed=False, is_async=False, ic_bin=(), ic_un=(),
                 hook="default", volatile=None, env_autoescape=None):
        """`autoescape` is the mode the expression is compiled under; when `env_autoescape` is given and differs, that
        mode comes from a static `{% autoescape true|false %}` block inside an environment configured the other way.
        `volatile` (a bool) wraps the expression in `{% autoescape vflag %}` decided at run time instead."""
        self.jinja2 = jinja2
        self.autoescape, self.optimized, self.sandboxed, self.is_async = autoescape, optimized, sandboxed, is_async
        self.ic_bin, self.ic_un, self.hook, self.volatile = tuple(ic_bin), tuple(ic_un), hook, volatile
        self.env_autoescape = autoescape if env_autoescape is None else env_autoescape
        self.log = []
        kw = dict(autoescape=self.env_autoescape, optimized=optimized, enable_async=is_async)
        if sandboxed:
            from jinja2.sandbox import SandboxedEnvironment

            var = self

            class Env(SandboxedEnvironment):
                intercepted_binops = frozenset(ic_bin)
                intercepted_unops = frozenset(ic_un)

                def call_binop(self, context, operator, left, right):
                    var.log.append([A("bin"), operator, val_sx(jinja2, left), val_sx(jinja2, right)])
                    r = super().call_binop(context, operator, left, right)
                    if var.hook == "perturb" and isinstance(r, int) and not isinstance(r, bool):
                        r += 1000
                    return r

                def call_unop(self, context, operator, arg):
                    var.log.append([A("un"), operator, val_sx(jinja2, arg)])
                    r = super().call_unop(context, operator, arg)
                    if var.hook == "perturb" and isinstance(r, int) and not isinstance(r, bool):
                        r += 1000
                    return r
            self.env = Env(**kw)
        else:
            self.env = jinja2.Environment(**kw)

    def label(self):
        return (f"ae={int(self.autoescape)}{'' if self.env_autoescape == self.autoescape else '(static block, env ' + str(int(self.env_autoescape)) + ')'}"
                f" opt={int(self.optimized)} sbx={int(self.sandboxed)} async={int(self.is_async)}"
                f" ic={''.join(self.ic_bin)}|{''.join(self.ic_un)} hook={self.hook} volatile={self.volatile}")

    def cfg_sx(self):
        return [self.autoescape, self.volatile is not None, self.sandboxed, list(self.ic_bin), list(self.ic_un), self.is_async]

    def runtime_ae(self):
        return self.autoescape if self.volatile is None else self.volatile

    def wrap(self, body):
        if self.volatile is not None:
            return "{% autoescape vflag %}" + body + "{% endautoescape %}"
        if self.env_autoescape != self.autoescape:
            return "{% autoescape " + ("true" if self.autoescape else "false") + " %}" + body + "{% endautoescape %}"
        return body

    def template_src(self, src):
        return self.wrap("{{ " + src + " }}")

    def render(self, src, data):
        """returns ('ok', text) | ('err', class name), and the hook log"""
        self.log = []
        data = dict(data)
        if self.volatile is not None:
            data["vflag"] = self.volatile
        try:
            t = self.env.from_string(self.template_src(src))
            if self.is_async:
                out = asyncio.run(t.render_async(**data))
            else:
                out = t.render(**data)
            return ("ok", out), self.log
        except Exception as e:  # noqa
            name = type(e).__name__
            return ("err", ERRMAP.get(name, "other:" + name)), self.log

    def request(self, tree, vars_, objs):
        return [A("expr-run"), self.cfg_sx(), self.runtime_ae(), self.optimized, A(self.hook), vars_, objs, tree]


def canon(o):
    if isinstance(o, list):
        return [canon(x) for x in o]
    if isinstance(o, Atom):
        return str(o)
    return o


def model_result(rep, which):
    """rep = (ok ((ref r log) (comp r log) (value r log) (folded b)))  →  (('ok', text)|('err', kind), log)"""
    for entry in rep[1]:
        if entry[0] == which:
            res, log = entry[1]
            if res[0] == "ok":
                return ("ok", res[1]), canon(log)
            return ("err", str(res[1])), canon(log)
    raise core.HarnessError(f"driver reply lacks {which}: {rep}")


def model_folded(rep):
    for entry in rep[1]:
        if entry[0] == "folded":
            return bool(entry[1])
    return False


def pretty_batch(trees):
    reps = core.driver_batch([[A("expr-pretty"), t] for t in trees])
    out = []
    for r in reps:
        if r[0] != "ok":
            raise core.HarnessError(f"expr-pretty failed: {r}")
        out.append(r[1])
    return out
