"""C01's direct oracle on the implementation (needs no model): loading a source must give a template or a
TemplateSyntaxError whose line lies inside the source.  Used in-process by harness/props/c01.py (through a process
pool) and as a script for the host-limit threshold search and the hang probe, which need a fresh interpreter:

    python -B -m harness.c01_oracle shapes <env> <nmax> <shape> ...     -> one JSON line per shape
    python -B -m harness.c01_oracle hang <env> <seconds> <json list of sources>   -> one JSON line per source
"""
from __future__ import annotations

import json
import re
import signal
import sys
import traceback
from pathlib import Path

NL = re.compile(r"\r\n|\r|\n")
HANG_SECONDS = 30


class Hang(BaseException):
    pass


def _on_alarm(signum, frame):
    raise Hang()


def slug(msg: str, words=7) -> str:
    msg = re.sub(r"'[^']*'|\"[^\"]*\"", " ", msg)
    msg = re.split(r"[:(;]", msg, 1)[0]
    ws = re.findall(r"[A-Za-z_]+", msg.lower())
    return "-".join(ws[:words]) or "no-message"


SPECIFIC = ("keyword-argument-repeated", "duplicate-argument", "cannot-assign-to", "outside-loop", "not-properly-in-loop",
            "too-many")


def slice_in_tuple(env, src):
    """does the template contain a slice inside a tuple subscript (`x[a:b, c]`)?  CPython reports the code generated for
    it with whatever message fits the surrounding expression, so this one cause is recognised on the template's AST"""
    try:
        from jinja2 import nodes

        tree = env.parse(src)
        return any(isinstance(i, nodes.Slice) for t in tree.find_all(nodes.Tuple) for i in t.items)
    except Exception:  # noqa
        return False


def classify(e: BaseException, stage: str, env=None, src=None):
    """(key suffix, description) of a non-syntax outcome; the key names class, innermost jinja2 frame and message kind"""
    cls = type(e).__name__
    tb = traceback.extract_tb(e.__traceback__)
    frames = [f for f in tb if "/jinja2/" in f.filename.replace("\\", "/")]
    site = f"{Path(frames[-1].filename).stem}.{frames[-1].name}" if frames else "no-jinja-frame"
    msg = str(e)
    if isinstance(e, (RecursionError, MemoryError, Hang)):
        return f"{cls}:{stage}", f"{cls} (innermost jinja2 frame {site})"
    if isinstance(e, SyntaxError):  # Python's: from compile() of the generated code or from literal_eval in the lexer
        kind = slug(e.msg or "")
        if site == "environment._compile" and not kind.startswith(SPECIFIC) and env is not None and slice_in_tuple(env, src):
            kind = "slice-in-tuple-subscript"
        elif kind in ("invalid-syntax", "invalid-syntax-perhaps-you-forgot-a-comma") and e.text and e.offset:
            rest = e.text[e.offset - 1:]
            m = re.match(r"[A-Za-z_]\w*|\S", rest)
            kind += ":at-" + (m.group(0) if m else "eol")
        line = (e.text or "").strip()[:160]
        return f"{cls}:{site}:{kind}", f"Python {cls}: {e.msg} in generated/evaluated code `{line}`"
    if "Exceeds the limit" in msg and "integer string conversion" in msg:
        return f"{cls}:{site}:int-max-str-digits", f"{cls}: {msg[:80]}"
    if isinstance(e, KeyError) and e.args:
        return f"{cls}:{site}:key-{slug(str(e.args[0]).replace(chr(39), ' '))}", f"{cls}: {msg[:160]}"
    return f"{cls}:{site}:{slug(msg)}", f"{cls}: {msg[:160]}"


def tb_tail(e, n=4):
    return [f"{Path(f.filename).name}:{f.lineno} {f.name}" for f in traceback.extract_tb(e.__traceback__)[-n:]]


def judge(env, src: str, stage: str, also_raw=False):
    """-> ("ok",) | ("syntax", class name) | ("bad", key suffix, description, traceback tail)"""
    from jinja2.exceptions import TemplateSyntaxError

    signal.setitimer(signal.ITIMER_REAL, HANG_SECONDS)
    try:
        try:
            env.from_string(src)
            if also_raw:
                code = env.compile(src, raw=True)
                compile(code, "<template>", "exec")
            return ("ok",)
        finally:
            signal.setitimer(signal.ITIMER_REAL, 0)
    except TemplateSyntaxError as e:
        limit = 1 + len(NL.findall(src))
        if not (isinstance(e.lineno, int) and not isinstance(e.lineno, bool) and 1 <= e.lineno <= limit):
            site = slug(e.message or "")
            return ("bad", f"lineno:{site}", f"{type(e).__name__}({e.message!r}) carries line {e.lineno!r}; the source has "
                    f"lines 1..{limit}", tb_tail(e))
        return ("syntax", type(e).__name__)
    except BaseException as e:  # noqa: every other outcome is what the property forbids
        if isinstance(e, (KeyboardInterrupt, SystemExit)):
            raise
        k, d = classify(e, stage, env, src)
        return ("bad", k, d, tb_tail(e))


def install_alarm():
    signal.signal(signal.SIGALRM, _on_alarm)


# ---------------------------------------------------------------------------------------------------------------
# script mode
# ---------------------------------------------------------------------------------------------------------------

def _bad(env, src, stage):
    r = judge(env, src, stage)
    return r if r[0] == "bad" else None


def threshold(env, f, nmax, stage):
    """least n <= nmax (found by doubling, then bisection) at which f(n) has a non-syntax outcome, else None"""
    lo, n, bad = 0, 1, None
    while n <= nmax:
        bad = _bad(env, f(n), stage)
        if bad:
            break
        lo, n = n, n * 2
    if not bad:
        if lo < nmax:
            bad = _bad(env, f(nmax), stage)
            n = nmax
        if not bad:
            return None
    hi, hibad = n, bad
    while hi - lo > 1:
        mid = (lo + hi) // 2
        b = _bad(env, f(mid), stage)
        if b:
            hi, hibad = mid, b
        else:
            lo = mid
    return hi, hibad


def main(argv):
    import resource

    sys.path.insert(0, str(Path(__file__).resolve().parent.parent))
    from harness import core
    from harness.gen import c01gen as g

    import warnings

    warnings.filterwarnings("ignore", category=SyntaxWarning)
    resource.setrlimit(resource.RLIMIT_AS, (6 << 30, 6 << 30))
    jinja2 = core.import_jinja()
    install_alarm()
    mode, envname = argv[0], argv[1]
    env = g.make_env(jinja2, envname)
    global HANG_SECONDS
    if mode == "shapes":
        HANG_SECONDS = 300          # a limit, not slowness, is what this search is after
        nmax = int(argv[2])
        shapes = dict(g.SHAPES)
        shapes.update(g.EXT_SHAPES)
        for name in argv[3:]:
            r = threshold(env, shapes[name], nmax, name)
            print(json.dumps({"shape": name, "threshold": r[0] if r else None, "bad": r[1] if r else None}), flush=True)
    elif mode == "hang":
        HANG_SECONDS = int(argv[2])
        for s in json.loads(argv[3]):
            r = judge(env, s, "load")
            print(json.dumps({"source": s, "outcome": r}), flush=True)
    return 0


if __name__ == "__main__":
    sys.exit(main(sys.argv[1:]))
