"""Terms of Model/Autoesc.lean: generator, wire encoding, and realisation as Jinja templates (shared by C15 and C16).

A term is a nested tuple: ("lit", s) ("var", i) ("cat", a, b) ("blk", n) | ("text", t) ("emit", e) ("seq", a, b) ("bind", e, n)
("empty",) | ("esc", e) ("force", e) ("add", a, b) ("mod", f, a) ("join", d, a, b) ("replace", s, o, n) ("indent", s, w)
("truncate", s, e, n).  `var i` is a de Bruijn index into the scope (bound values first, then the context data d0, d1, …).

One term has many spellings as a template; `Realiser` picks among them at random:
  blk   — `{% set v %}…{% endset %}`, a macro call (all names in scope passed as arguments), a `{% call %}` block returning
          `caller()`, a macro imported from another template (`import … as`, `from … import`), `super()` at top level
  bind  — `{% set x = e %}`, `{% with %}`, a one-element `{% for %}`, a macro parameter
  seq   — juxtaposition or `{% include %}` of the second part
  emit  — `{{ e }}`, optionally through an identity spelling (`|string`, a true conditional expression); an operation applied to a
          buffered body is also spelled `{% filter f(args) %}…{% endfilter %}`, and bound through `{% set x | f(args) %}…{% endset %}`
"""
from __future__ import annotations

from harness.core import Atom

EXPR_NEUTRAL = ("lit", "var", "cat", "blk", "join")
EXPR_OPS = ("esc", "force", "add", "mod", "join", "replace", "indent", "truncate")


def enc(t):
    """wire form"""
    k = t[0]
    if k in ("lit", "text"):
        return [Atom(k), t[1]]
    if k == "var":
        return [Atom("var"), t[1]]
    if k == "empty":
        return [Atom("empty")]
    if k == "truncate":
        return [Atom(k), enc(t[1]), enc(t[2]), t[3]]
    return [Atom(k)] + [enc(x) for x in t[1:]]


def size(t):
    return 1 + sum(size(x) for x in t[1:] if isinstance(x, tuple))


def kinds(t, acc=None):
    acc = {} if acc is None else acc
    acc[t[0]] = acc.get(t[0], 0) + 1
    for x in t[1:]:
        if isinstance(x, tuple):
            kinds(x, acc)
    return acc


class TermGen:
    """well-sorted random terms; `ops=False` gives the escaping-neutral fragment"""

    def __init__(self, rng, lits, texts, data, ops=False, fmt_texts=("%s", "[%s]", "a%sb")):
        self.rng, self.lits, self.texts, self.data, self.ops, self.fmt_texts = rng, lits, texts, data, ops, fmt_texts

    def expr(self, depth, scope_len):
        r = self.rng.random()
        leaf = lambda: ("var", self.rng.randrange(scope_len)) if scope_len and self.rng.random() < 0.6 else ("lit", self.rng.choice(self.lits))  # noqa: E731
        if depth <= 0 or r < 0.12:
            return leaf()
        if self.ops and r < 0.55:
            return self.op(depth, scope_len)
        if r < (0.62 if self.ops else 0.3):
            return leaf()
        if not self.ops and r < 0.5:
            # join is escaping-neutral; delimiter and items are arbitrary expressions: data, literals, and rendered fragments
            # (set-block variables, macro / imported macro results, caller()) which are Markup under autoescape
            return ("join", self.expr(depth - 1, scope_len), self.expr(depth - 1, scope_len), self.expr(depth - 1, scope_len))
        if r < (0.8 if self.ops else 0.7):
            return ("cat", self.expr(depth - 1, scope_len), self.expr(depth - 1, scope_len))
        return ("blk", self.node(depth - 1, scope_len))

    def op(self, depth, scope_len):
        k = self.rng.choice(EXPR_OPS)
        e = lambda: self.expr(depth - 1, scope_len)  # noqa: E731
        if k in ("esc", "force"):
            return (k, e())
        if k == "add":
            return ("add", e(), e())
        if k == "mod":
            f = self.rng.choice(self.fmt_texts)
            return ("mod", ("lit", f) if self.rng.random() < 0.5 else ("blk", ("text", f)), e())
        if k == "join":
            return ("join", e(), e(), e())
        if k == "replace":
            return ("replace", e(), self.expr(0, scope_len), e())
        if k == "indent":
            return ("indent", e(), e())
        # truncate: the ellipsis must have a statically known length <= n
        if scope_len and self.rng.random() < 0.6:
            n_data = len(self.data)
            i = self.rng.randrange(scope_len)
            if i >= scope_len - n_data:      # a context datum: its length is known
                s = self.data[i - (scope_len - n_data)]
                return ("truncate", e(), ("var", i), len(s) + self.rng.randrange(0, 6))
        s = self.rng.choice(self.lits)
        return ("truncate", e(), ("lit", s), len(s) + self.rng.randrange(0, 6))

    def op_blk(self, depth, scope_len, level=0):
        """an operation whose receiver is a buffered body — what `{% filter f(args) %}BODY{% endfilter %}` applies f to — or, up to
        three deep, another such operation: a CHAIN `{% filter f(args)|g(args) %}`; the buffer enters the first filter as Markup"""
        chained = level < 2 and self.rng.random() < 0.4
        body = self.op_blk(depth, scope_len, level + 1) if chained else ("blk", self.node(max(depth - 1, 0), scope_len))
        e = lambda: self.expr(max(depth - 1, 0), scope_len)  # noqa: E731
        k = self.rng.choice(["esc", "force", "replace", "indent", "truncate"] + ([] if chained else ["mod"]))
        if k in ("esc", "force"):
            return (k, body)
        if k == "replace":
            return ("replace", body, self.expr(0, scope_len), e())
        if k == "indent":
            return ("indent", body, e())
        if k == "mod":
            return ("mod", ("blk", ("text", self.rng.choice(self.fmt_texts))), e())
        s = self.rng.choice(self.lits)
        return ("truncate", body, ("lit", s), len(s) + self.rng.randrange(0, 6))

    def node(self, depth, scope_len):
        r = self.rng.random()
        if self.ops and depth > 0 and r < 0.16:
            if r < 0.08:
                return ("emit", self.op_blk(depth, scope_len))
            return ("bind", ("esc", self.op_blk(depth, scope_len)), self.node(depth - 1, scope_len + 1))
        if depth <= 0:
            return ("text", self.rng.choice(self.texts)) if r < 0.4 else ("emit", self.expr(0, scope_len))
        if r < 0.12:
            return ("text", self.rng.choice(self.texts))
        if r < 0.45:
            return ("emit", self.expr(depth - 1, scope_len))
        if r < 0.75:
            return ("seq", self.node(depth - 1, scope_len), self.node(depth - 1, scope_len))
        if r < 0.97:
            return ("bind", self.expr(depth - 1, scope_len), self.node(depth - 1, scope_len + 1))
        return ("empty",)

    def top(self, depth):
        n = self.node(depth, len(self.data))
        if self.rng.random() < 0.25:  # the shape realised through inheritance: {{ super() }} then the rest
            n = ("seq", ("emit", ("blk", self.node(max(depth - 2, 0), len(self.data)))), n)
        return n


APIS = ["sync", "async:render", "async:render_async", "async:generate_async"]


async def _af(v):
    """an async data function: awaiting it gives its argument back"""
    return v


def render_api(template, api, kw):
    """render through one of the entry points; the async ones need Environment(enable_async=True)"""
    import asyncio

    if api in ("sync", "async:render"):
        return template.render(**kw)
    if api == "async:render_async":
        return asyncio.run(template.render_async(**kw))

    async def collect():
        return "".join([piece async for piece in template.generate_async(**kw)])

    return asyncio.run(collect())


def api_env_kw(api):
    return {"enable_async": True} if api != "sync" else {}


def api_context(api):
    return {"af": _af} if api != "sync" else {}


def quote(s):
    if '"' not in s:
        return '"' + s + '"'
    if "'" not in s:
        return "'" + s + "'"
    raise ValueError("literal with both kinds of quotes")


class Realiser:
    def __init__(self, rng, ndata, suffix="", separate=True, inherit=True, wrap=None, async_fn=False):
        """`separate`: may put parts into other templates (import / include); `wrap`: (open, close) text put around every
        template body (an `{% autoescape %}` block); imports are not used then (macros inside a block are not exported)"""
        self.rng, self.suffix, self.separate, self.inherit, self.wrap = rng, suffix, separate, inherit, wrap
        # async environments only: a name may be read through `af(name)`, an async data function the generated code awaits
        self.async_fn = async_fn
        self.k = 0
        self.templates: dict[str, str] = {}
        self.used: dict[str, int] = {}
        self.scope0 = [f"d{i}" for i in range(ndata)]

    def fresh(self, p):
        self.k += 1
        return f"{p}{self.k}"

    def use(self, what):
        self.used[what] = self.used.get(what, 0) + 1

    def body(self, src):
        return src if self.wrap is None else self.wrap[0] + src + self.wrap[1]

    def top(self, t):
        scope = list(self.scope0)
        if (self.inherit and self.separate and t[0] == "seq" and t[1][0] == "emit" and t[1][1][0] == "blk"
                and self.rng.random() < 0.7):
            self.use("super")
            base = "base" + self.suffix
            # the wrap goes inside the block: a block body is compiled with the template-level escaping mode, an
            # {% autoescape %} region around a {% block %} tag does not reach into it (see design/C15.md)
            self.templates[base] = "{% block c %}" + self.body(self.node(t[1][1][1], scope)) + "{% endblock %}"
            main = "{% extends '" + base + "' %}{% block c %}" + self.body("{{ super() }}" + self.node(t[2], scope)) + "{% endblock %}"
        else:
            main = self.body(self.node(t, scope))
        self.templates["main" + self.suffix] = main
        return "main" + self.suffix

    # -- expressions: (statements to put before, expression text) -----------------------------------------------------------
    def expr(self, t, scope):
        k = t[0]
        if k == "lit":
            return "", quote(t[1])
        if k == "var":
            if self.async_fn and self.rng.random() < 0.3:
                self.use("var:awaited")
                return "", f"af({scope[t[1]]})"
            return "", scope[t[1]]
        if k == "cat":
            pa, a = self.expr(t[1], scope)
            pb, b = self.expr(t[2], scope)
            return pa + pb, f"({a} ~ {b})"
        if k == "blk":
            return self.blk(t[1], scope)
        parts = [self.expr(x, scope) for x in t[1:] if isinstance(x, tuple)]
        pre = "".join(p for p, _ in parts)
        c = [x for _, x in parts]
        if k == "esc":
            return pre, f"({c[0]}|{self.rng.choice(['e', 'escape'])})"
        if k == "force":
            return pre, f"({c[0]}|forceescape)"
        if k == "add":
            return pre, f"({c[0]} + {c[1]})"
        if k == "mod":
            return pre, (f"({c[0]} % {c[1]})" if self.rng.random() < 0.5 else f"({c[0]}|format({c[1]}))")
        if k == "join":
            return pre, f"([{c[1]}, {c[2]}]|join({c[0]}))"
        if k == "replace":
            return pre, f"({c[0]}|replace({c[1]}, {c[2]}))"
        if k == "indent":
            return pre, f"({c[0]}|indent({c[1]}, first=true))"
        if k == "truncate":
            return pre, f"({c[0]}|truncate({t[3]}, true, {c[1]}, 0))"
        raise ValueError(f"not an expression: {k}")

    def blk(self, n, scope):
        ways = ["set", "macro", "call"] + (["import", "from"] if self.separate and self.wrap is None else [])
        way = self.rng.choice(ways)
        self.use("blk:" + way)
        names = list(dict.fromkeys(scope))
        params = ", ".join(names)
        if self.async_fn and way in ("import", "from"):
            names = names + ["af"]          # an imported macro does not see the context: pass the async function along
            params = ", ".join(names)
        if way == "set":
            v = self.fresh("v")
            return "{% set " + v + " %}" + self.node(n, scope) + "{% endset %}", v
        if way == "macro":
            m = self.fresh("m")
            return "{% macro " + m + "(" + params + ") %}" + self.node(n, scope) + "{% endmacro %}", f"{m}({params})"
        if way == "call":
            w, v = self.fresh("w"), self.fresh("v")
            return ("{% macro " + w + "() %}{{ caller() }}{% endmacro %}{% set " + v + " %}{% call " + w + "() %}"
                    + self.node(n, scope) + "{% endcall %}{% endset %}"), v
        lib, m = self.fresh("lib"), self.fresh("m")
        self.templates[lib + self.suffix] = "{% macro " + m + "(" + params + ") %}" + self.node(n, scope) + "{% endmacro %}"
        if way == "import":
            return "{% import '" + lib + self.suffix + "' as " + lib + " %}", f"{lib}.{m}({params})"
        return "{% from '" + lib + self.suffix + "' import " + m + " %}", f"{m}({params})"

    CHAINABLE = ("esc", "force", "replace", "indent", "truncate", "mod")

    def filter_call(self, t, scope, level=0):
        """for an operation whose receiver is a buffered body, or (up to three deep) another such operation:
        (statements before, [filter call texts in application order], body term), else None"""
        k = t[0]
        if k not in self.CHAINABLE:
            return None
        recv = t[1]
        if recv[0] == "blk":
            in_pre, in_calls, body = "", [], recv[1]
        elif level < 2 and k != "mod" and recv[0] in self.CHAINABLE:
            r = self.filter_call(recv, scope, level + 1)
            if r is None:
                return None
            in_pre, in_calls, body = r
        else:
            return None
        parts = [self.expr(x, scope) for x in t[2:] if isinstance(x, tuple)]
        pre = "".join(p for p, _ in parts)
        c = [x for _, x in parts]
        call = {"esc": "e", "force": "forceescape", "replace": lambda: f"replace({c[0]}, {c[1]})", "indent": lambda: f"indent({c[0]}, first=true)",
                "truncate": lambda: f"truncate({t[3]}, true, {c[0]}, 0)", "mod": lambda: f"format({c[0]})"}[k]
        if in_calls:
            self.use("filter-chain")
        return in_pre + pre, in_calls + [call if isinstance(call, str) else call()], body

    def identity_chain(self):
        """1-3 filters that leave a Markup body as it is (the chain is their composition; the buffer enters the first as Markup)"""
        n = self.rng.choice([1, 2, 2, 3])
        if n > 1:
            self.use("identity-filter-chain")
        return "|".join(self.rng.choice(["string", "default('zz')", "string", "default(none)"]) for _ in range(n))

    # -- bodies ---------------------------------------------------------------------------------------------------------------
    def node(self, t, scope):
        k = t[0]
        if k == "text":
            return t[1]
        if k == "empty":
            return ""
        if k == "emit":
            fc = self.filter_call(t[1], scope)
            if fc is not None and self.rng.random() < 0.7:
                # {% filter f(args) %}BODY{% endfilter %} writes escape(f(Markup(concat(buffer)), args))
                self.use("emit:filter-block")
                return fc[0] + "{% filter " + "|".join(fc[1]) + " %}" + self.node(fc[2], scope) + "{% endfilter %}"
            if t[1][0] == "blk" and self.rng.random() < 0.2:
                self.use("emit:filter-block-string")
                return "{% filter " + self.identity_chain() + " %}" + self.node(t[1][1], scope) + "{% endfilter %}"
            pre, c = self.expr(t[1], scope)
            r = self.rng.random()
            if r < 0.1:
                self.use("emit:string")
                c = f"{c}|string"
            elif r < 0.2:
                self.use("emit:cond")
                c = f"({c} if true else 'no')"
            elif r < 0.27:
                self.use("emit:default-arg")          # the value reaches the output as an ARGUMENT of a filter
                c = f"(none|default({c}, true))"
            elif r < 0.32:
                self.use("emit:default-recv")
                c = f"({c}|default('zz'))"
            return pre + "{{ " + c + " }}"
        if k == "seq":
            a = self.node(t[1], scope)
            if self.separate and self.rng.random() < 0.2:
                self.use("seq:include")
                inc = self.fresh("inc") + self.suffix
                self.templates[inc] = self.body(self.node(t[2], scope))
                return a + "{% include '" + inc + "' %}"
            return a + self.node(t[2], scope)
        if k == "bind":
            x = self.fresh("x")
            inner = [x] + scope
            fc = self.filter_call(t[1][1], scope) if t[1][0] == "esc" else None
            if fc is not None and self.rng.random() < 0.7:
                # {% set x | f(args) %}BODY{% endset %} binds escape(f(Markup(concat(buffer)), args))
                self.use("bind:filtered-set-block")
                return fc[0] + "{% set " + x + " | " + "|".join(fc[1]) + " %}" + self.node(fc[2], scope) + "{% endset %}" + self.node(t[2], inner)
            if t[1][0] == "blk" and self.rng.random() < 0.2:
                self.use("bind:filtered-set-block-string")
                return "{% set " + x + " | " + self.identity_chain() + " %}" + self.node(t[1][1], scope) + "{% endset %}" + self.node(t[2], inner)
            pre, c = self.expr(t[1], scope)
            way = self.rng.choice(["set", "with", "for", "macro"])
            self.use("bind:" + way)
            if way == "set":
                return pre + "{% set " + x + " = " + c + " %}" + self.node(t[2], inner)
            if way == "with":
                return pre + "{% with " + x + " = " + c + " %}" + self.node(t[2], inner) + "{% endwith %}"
            if way == "for":
                return pre + "{% for " + x + " in [" + c + "] %}" + self.node(t[2], inner) + "{% endfor %}"
            m = self.fresh("m")
            names = list(dict.fromkeys(scope))
            return (pre + "{% macro " + m + "(" + ", ".join([x] + names) + ") %}" + self.node(t[2], inner) + "{% endmacro %}{{ "
                    + m + "(" + ", ".join([c] + names) + ") }}")
        # an expression where a body is expected is output
        return self.node(("emit", t), scope)
