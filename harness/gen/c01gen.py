"""C01 generators: template sources of every kind the property quantifies over.

 * fragments(cfg)/enumerate_sources: short strings over the alphabet of delimiter fragments (exhaustive)
 * Gen: grammar-directed random templates (all statements, all expression forms, extension tags)
 * mutate: token-level mutations of a source (delete / duplicate / swap / replace / insert a raw token)
 * SPECIAL / special_sources: identifiers from several Unicode classes, Python keywords and soft keywords in every
   name position, unhashable constant dict keys, huge literals, escapes
 * SHAPES: parametrised families (nesting depth / chain length n) used for the host-limit threshold search

Everything is a pure function of the rng handed in.
"""
from __future__ import annotations

import itertools
import keyword

# ---------------------------------------------------------------------------------------------------------------
# environments: name -> (lexer configuration kwargs, other Environment kwargs, environment class name)
# ---------------------------------------------------------------------------------------------------------------

ENVS = {
    "default": (dict(), dict(), "Environment"),
    "erb": (dict(block_start_string="<%", block_end_string="%>", variable_start_string="${", variable_end_string="}",
                 comment_start_string="<!--", comment_end_string="-->"), dict(), "Environment"),
    "line": (dict(line_statement_prefix="#", line_comment_prefix="##"), dict(), "Environment"),
    "trim+lstrip": (dict(trim_blocks=True, lstrip_blocks=True), dict(), "Environment"),
    "async": (dict(), dict(enable_async=True), "Environment"),
    "sandboxed": (dict(), dict(autoescape=True), "SandboxedEnvironment"),
    "ext": (dict(), dict(extensions=["jinja2.ext.i18n", "jinja2.ext.do", "jinja2.ext.loopcontrols", "jinja2.ext.debug"]),
            "Environment"),
    "ext-newstyle-async": (dict(line_statement_prefix="%", trim_blocks=True, keep_trailing_newline=True),
                           dict(extensions=["jinja2.ext.i18n", "jinja2.ext.do", "jinja2.ext.loopcontrols"], enable_async=True,
                                autoescape=True, newstyle=True), "Environment"),
    "native": (dict(), dict(), "NativeEnvironment"),
    # constant folding re-visits the whole operand subtree at every level of a chain (cubic compile time), so the searches
    # for the host limits of long chains run without the optimizer; the limits are those of parser, generator and CPython
    "noopt": (dict(), dict(optimized=False), "Environment"),
}
QUICK_ENVS = ["default", "erb", "line", "trim+lstrip", "async", "sandboxed", "ext"]

LEX_DEFAULT = dict(block_start_string="{%", block_end_string="%}", variable_start_string="{{", variable_end_string="}}",
                   comment_start_string="{#", comment_end_string="#}", line_statement_prefix=None, line_comment_prefix=None,
                   trim_blocks=False, lstrip_blocks=False, keep_trailing_newline=False)


def lex_cfg(name):
    d = dict(LEX_DEFAULT)
    d.update(ENVS[name][0])
    return d


def make_env(jinja2, name):
    lexkw, kw, cls = ENVS[name]
    kw = dict(kw)
    newstyle = kw.pop("newstyle", False)
    if cls == "SandboxedEnvironment":
        from jinja2.sandbox import SandboxedEnvironment as C
    elif cls == "NativeEnvironment":
        from jinja2.nativetypes import NativeEnvironment as C
    else:
        C = jinja2.Environment
    env = C(**lexkw, **kw)
    if newstyle:
        env.newstyle_gettext = True
    return env


def fragments(c):
    """the alphabet of delimiter fragments for a lexer configuration (DESIGN §5 C01 (i))"""
    f = [c["variable_start_string"], c["variable_end_string"], c["block_start_string"], c["block_end_string"],
         c["comment_start_string"], c["comment_end_string"], "-", "+", "raw", "endraw", "if", "endif", "for", "in", "x", "1",
         "'", '"', "(", ")", "[", ".", "|", "\n", " "]
    if c["line_statement_prefix"]:
        f.append(c["line_statement_prefix"])
    if c["line_comment_prefix"]:
        f.append(c["line_comment_prefix"])
    out = []
    for x in f:
        if x not in out:
            out.append(x)
    return out


def enumerate_sources(c, maxlen):
    fr = fragments(c)
    for n in range(0, maxlen + 1):
        for parts in itertools.product(fr, repeat=n):
            yield "".join(parts)


# ---------------------------------------------------------------------------------------------------------------
# names
# ---------------------------------------------------------------------------------------------------------------

PY_KEYWORDS = sorted(keyword.kwlist)
PY_SOFT = sorted(set(keyword.softkwlist) | {"print", "exec", "self", "cls", "__class__", "__debug__", "__import__"})
JINJA_WORDS = ["loop", "self", "super", "varargs", "kwargs", "caller", "namespace", "context", "environment", "resolve",
               "missing", "undefined", "range", "dict", "cycler", "joiner", "lipsum", "_", "gettext", "ngettext", "num",
               "count", "true", "false", "none", "True", "False", "None", "and", "or", "not", "in", "is", "if", "else",
               "elif", "endif", "for", "endfor", "block", "endblock", "set", "endset", "recursive", "scoped", "required",
               "with", "without", "ignore", "missing", "as", "import", "from", "include", "extends", "macro", "call",
               "filter", "raw", "endraw", "do", "break", "continue", "debug", "trans", "pluralize", "endtrans",
               "trimmed", "notrimmed", "autoescape", "t_1", "l_0_x", "l_1_loop", "block_x", "parent_template", "root",
               "name", "blocks", "debug_info", "Markup", "escape", "str_join", "markup_join", "auto_await", "t_2",
               "TemplateRuntimeError", "Namespace", "Macro", "LoopContext", "AsyncLoopContext", "identity", "concat",
               "async_exported", "exported", "included_template", "template", "event"]
UNI_NAMES = ["é", "ñu", "中文", "имя", "αβ", "ﬁ", "ª", "x·y", "_é", "á", "ǅ", "ℂ", "𝐱", "x²", "٣", "x٣", "℘", "ᢅ", "·x",
             "a‌b", "℘a", "𝟘", "x𝟘", "ⅷ", "ａ", "K", "ſ", "µ", "ŉ", "ǰ", "İ", "ß"]
PLAIN = ["x", "y", "z", "a", "b", "foo", "item", "items", "user", "i", "n", "ns", "m", "f", "seq"]


def any_name(rng):
    r = rng.random()
    if r < 0.55:
        return rng.choice(PLAIN)
    if r < 0.70:
        return rng.choice(PY_KEYWORDS)
    if r < 0.78:
        return rng.choice(PY_SOFT)
    if r < 0.92:
        return rng.choice(JINJA_WORDS)
    return rng.choice(UNI_NAMES)


FILTERS = ["upper", "lower", "default", "d", "e", "escape", "safe", "join", "length", "first", "last", "center", "replace",
           "truncate", "batch", "slice", "map", "select", "reject", "selectattr", "rejectattr", "sort", "groupby", "sum",
           "list", "int", "float", "string", "trim", "striptags", "title", "tojson", "indent", "wordwrap", "xmlattr",
           "attr", "round", "dictsort", "unique", "min", "max", "items", "abs", "format", "urlize", "urlencode",
           "filesizeformat", "pprint", "random", "reverse", "forceescape", "capitalize", "wordcount", "count"]
TESTS = ["defined", "undefined", "none", "odd", "even", "divisibleby", "string", "number", "mapping", "iterable",
         "sequence", "callable", "sameas", "eq", "ne", "lt", "gt", "ge", "le", "in", "lower", "upper", "escaped",
         "true", "false", "boolean", "integer", "float", "filter", "test", "equalto", "==", "!=", "<", ">", ">=", "<=",
         "greaterthan", "lessthan"]
INTS = ["0", "1", "2", "42", "007", "00", "1_000", "0x1f", "0XFF", "0b101", "0o17", "0_0", "9" * 30, "1" + "0" * 400,
        "0x" + "f" * 200, "1_", "0b", "1__0", "0x_1"]
FLOATS = ["1.5", "0.0", "1e5", "1.5e-3", "1E+2", "1e999", "1e-999", "1_0.5", "1.", "1.e5", "00.5", "1.5.5", "9" * 400 + ".0",
          "1e" + "9" * 30, "1_0e1_0"]
STRINGS = ["''", '""', "'a'", '"b"', "'it\\'s'", '"q\\"q"', "'\\n'", "'\\x41'", "'\\u00e9'", "'\\N{BULLET}'", "'\\777'",
           "'\\x'", "'\\u12'", "'\\N{NOPE}'", "'\\'", "'\\\\'", "'é'", "'a\nb'", "'{{'", "'%}'", "'\\U0010ffff'",
           "'\\U00110000'", "'\\ud800'", "'\\0'", "'a' 'b'", "'\\\n'", "'\r\n'", "'\\é'", "'" + "a" * 3000 + "'",
           "'\\N{}'", "'\\u{41}'", "'{'", "'}'", "'\"'"]
BINOPS = ["+", "-", "*", "/", "//", "%", "~", "~", "==", "!=", "<", ">", "<=", ">=", " in ", " not in ", " and ", " or ",
          " is ", " is not ", "|", ".", ",", "=", ":", " if ", " else ", ";", "!", "&", "^", "@", "<<", ">>", ":=", "->",
          "<>", "===", "=>", "??", "?"]


class Gen:
    """grammar-directed random templates; `wild` raises the rate of deliberately broken pieces"""

    def __init__(self, rng, c, ext=False, wild=0.03):
        self.r = rng
        self.c = c
        self.ext = ext
        self.wild = wild

    # --- expressions -------------------------------------------------------------------------------------------
    def name(self):
        return any_name(self.r)

    def atom(self):
        r = self.r
        k = r.random()
        if k < 0.40:
            return self.name()
        if k < 0.55:
            return r.choice(INTS)
        if k < 0.62:
            return r.choice(FLOATS)
        if k < 0.78:
            return r.choice(STRINGS)
        if k < 0.90:
            return r.choice(["true", "false", "none", "True", "False", "None"])
        return r.choice(["()", "[]", "{}", "(,)", "loop.index", "super()", "caller()", "self.b()", "varargs", "kwargs",
                         "namespace(a=1)", "_('m')", "range(3)", "loop(x)", "loop.cycle(1, 2)", "loop.changed(x)"])

    def args(self, d):
        r = self.r
        out = []
        for _ in range(r.choice([0, 0, 1, 1, 2, 3])):
            k = r.random()
            if k < 0.55:
                out.append(self.expr(d))
            elif k < 0.85:
                out.append(f"{self.name()}={self.expr(d)}")
            elif k < 0.93:
                out.append(f"*{self.expr(d)}")
            else:
                out.append(f"**{self.expr(d)}")
        if r.random() < 0.08:
            out.append("")
        return ", ".join(out)

    def expr(self, d=3):
        r = self.r
        if d <= 0 or r.random() < 0.25:
            return self.atom()
        k = r.random()
        d -= 1
        if r.random() < self.wild:
            return r.choice([self.expr(d) + r.choice(BINOPS), r.choice(BINOPS) + self.expr(d), "(" + self.expr(d),
                             self.expr(d) + ")", self.expr(d) + " " + self.expr(d), "[" + self.expr(d), "{" + self.expr(d),
                             self.expr(d) + "}}", self.expr(d) + "%}", "", "#", "$", "\\", "`x`", "x!"])
        if k < 0.18:
            return f"{self.expr(d)}{r.choice(['', ' '])}{r.choice(BINOPS[:20])}{r.choice(['', ' '])}{self.expr(d)}"
        if k < 0.20:        # powers only with small exponents: constant folding of a random tower does not return
            return f"{self.expr(d)} ** {r.choice(['2', '0', '-1', 'x', '0.5', '3', 'none', '(1, 2)'])}"
        if k < 0.24:
            return r.choice(["-", "+", "not ", "- ", "--", "not not ", "+-"]) + self.expr(d)
        if k < 0.30:
            return f"({self.expr(d)})"
        if k < 0.36:
            return f"{self.expr(d)} if {self.expr(d)}" + (f" else {self.expr(d)}" if r.random() < 0.7 else "")
        if k < 0.42:
            items = [self.expr(d) for _ in range(r.randrange(0, 4))]
            return r.choice(["[%s]", "(%s,)", "(%s)", "[%s,]"]) % ", ".join(items)
        if k < 0.49:
            items = [f"{self.expr(d)}: {self.expr(d)}" for _ in range(r.randrange(0, 3))]
            return "{%s}" % ", ".join(items)
        if k < 0.58:
            return f"{self.expr(d)}.{r.choice([self.name(), '0', '1', '00', '1_0', '1e5', '0x1', '1.5'])}"
        if k < 0.66:
            sub = r.choice([self.expr(d), f"{self.expr(d)}:{self.expr(d)}", ":", "::", f":{self.expr(d)}", f"{self.expr(d)}::{self.expr(d)}",
                            f"{self.expr(d)}, {self.expr(d)}", f"{self.expr(d)}:{self.expr(d)}, {self.expr(d)}", ""])
            return f"{self.expr(d)}[{sub}]"
        if k < 0.76:
            return f"{self.expr(d)}({self.args(d)})"
        if k < 0.88:
            f = r.choice(FILTERS) if r.random() < 0.8 else self.name() + r.choice(["", ".", ".x", ".1"])
            return f"{self.expr(d)}|{r.choice(['', ' '])}{f}" + (f"({self.args(d)})" if r.random() < 0.5 else "")
        t = r.choice(TESTS) if r.random() < 0.8 else self.name() + r.choice(["", ".y"])
        tail = r.choice(["", "", f"({self.args(d)})", f" {self.atom()}", " not x", " is y", " else", " and y", " [1]", " {}"])
        return f"{self.expr(d)} is {r.choice(['', 'not '])}{t}{tail}"

    def target(self, d=1):
        r = self.r
        k = r.random()
        if k < 0.6:
            return self.name()
        if k < 0.75:
            return f"{self.name()}, {self.name()}"
        if k < 0.82:
            return f"({self.name()}, ({self.name()}, {self.name()}))"
        if k < 0.90:
            return f"{self.name()}.{self.name()}"
        return r.choice([self.expr(1), "1", "'s'", "x[0]", "x()", "(x)", "x,", "[a, b]", "x.y.z", "loop", "a, a", "*a", ""])

    # --- statements --------------------------------------------------------------------------------------------
    def tag(self, body, strip=True):
        r, c = self.r, self.c
        if c["line_statement_prefix"] and r.random() < 0.3 and "\n" not in body:
            return f"\n{r.choice(['', '  '])}{c['line_statement_prefix']} {body}{r.choice(['', ':', ' '])}\n"
        a = r.choice(["", "", "", "-", "+"]) if strip else ""
        b = r.choice(["", "", "", "-", "+"]) if strip else ""
        sp = r.choice([" ", " ", "", "  ", "\n"])
        return f"{c['block_start_string']}{a}{sp}{body}{sp}{b}{c['block_end_string']}"

    def var(self, e):
        r, c = self.r, self.c
        a = r.choice(["", "", "", "-", "+"])
        b = r.choice(["", "", "", "-"])
        sp = r.choice([" ", " ", "", "\n"])
        return f"{c['variable_start_string']}{a}{sp}{e}{sp}{b}{c['variable_end_string']}"

    def text(self):
        r, c = self.r, self.c
        return r.choice(["", " ", "\n", "text", "a b\n", "<p>", "&", "é", "\r\n", "  \n  ", "{", "}", "%", "#", "{ {", "\t",
                         c["comment_start_string"] + " c " + c["comment_end_string"],
                         c["comment_start_string"] + "- c\n" + c["block_end_string"] + " -" + c["comment_end_string"],
                         "x" * 50, "\x00", "\x85", " ", "'", '"', "\\", "$", "<", "-", "\n\n\n"]
                        + ([" ## lc\n", "\n# if x\n", "\n#\n", "\n## c"] if c["line_comment_prefix"] else []))

    def body(self, d, n=None):
        r = self.r
        n = r.randrange(0, 4) if n is None else n
        return "".join(self.node(d) for _ in range(n))

    def sig(self, d):
        r = self.r
        out = []
        for _ in range(r.choice([0, 1, 1, 2, 3])):
            out.append(self.name() + (f"={self.expr(d)}" if r.random() < 0.4 else ""))
        if r.random() < 0.05:
            out.append(r.choice(["*a", "**k", "1", "a.b", "(a)", "a=", "=1", "x y"]))
        return ", ".join(out)

    def node(self, d=3):
        r = self.r
        if d <= 0 or r.random() < 0.3:
            return r.choice([self.text(), self.text(), self.var(self.expr(2)), self.var(self.expr(3))])
        d -= 1
        T = self.tag
        k = r.choice(["for", "for", "if", "if", "set", "set", "setblock", "with", "macro", "call", "filter", "block",
                      "extends", "include", "import", "from", "autoescape", "raw", "ns", "ext", "stray", "var", "text"])
        end = (lambda w: T(w)) if r.random() > self.wild else (lambda w: r.choice(["", T("end"), T(w + " x"), T(w[3:]), T(w) * 2]))
        if k == "for":
            s = T(f"for {self.target()} in {self.expr(2)}" + (f" if {self.expr(2)}" if r.random() < 0.3 else "")
                  + (" recursive" if r.random() < 0.2 else "")) + self.body(d)
            if r.random() < 0.3:
                s += T("else") + self.body(d)
            return s + end("endfor")
        if k == "if":
            s = T(f"if {self.expr(2)}") + self.body(d)
            for _ in range(r.choice([0, 0, 1, 2])):
                s += T(f"elif {self.expr(2)}") + self.body(d)
            if r.random() < 0.4:
                s += T("else") + self.body(d)
            return s + end("endif")
        if k == "set":
            return T(f"set {self.target()} = {self.expr(2)}" + (f", {self.expr(1)}" if r.random() < 0.1 else ""))
        if k == "setblock":
            flt = "".join(f" | {r.choice(FILTERS)}" + (f"({self.args(1)})" if r.random() < 0.5 else "")
                          for _ in range(r.choice([0, 1, 1, 2])))
            return T(f"set {self.target()}{flt}") + self.body(d) + end("endset")
        if k == "with":
            binds = ", ".join(f"{self.target()} = {self.expr(2)}" for _ in range(r.choice([0, 1, 2])))
            return T(f"with {binds}") + self.body(d) + end("endwith")
        if k == "macro":
            return T(f"macro {self.name()}({self.sig(1)})") + self.body(d) + end("endmacro")
        if k == "call":
            cs = f"({self.sig(1)})" if r.random() < 0.4 else ""
            callee = f"{self.name()}({self.args(1)})" if r.random() < 0.9 else self.expr(1)
            return T(f"call{cs} {callee}") + self.body(d) + end("endcall")
        if k == "filter":
            return T(f"filter {r.choice(FILTERS)}" + (f"({self.args(1)})" if r.random() < 0.4 else "")
                     + (f"|{r.choice(FILTERS)}" if r.random() < 0.3 else "")) + self.body(d) + end("endfilter")
        if k == "block":
            nm = r.choice([self.name(), "b1", "b2", "b-1", "b.c", "1b", "'b'"])
            mod = r.choice(["", "", " scoped", " required", " scoped required", " required scoped", " scoped scoped", " x"])
            body = self.body(d) if "required" not in mod or r.random() < 0.3 else r.choice(["", " ", "\n", self.c["comment_start_string"] + "c" + self.c["comment_end_string"]])
            return T(f"block {nm}{mod}") + body + r.choice([end("endblock"), T(f"endblock {nm}"), T("endblock other")])
        if k == "extends":
            return T(f"extends {r.choice(['\"base\"', 'x', self.expr(1), '', '\"a\", \"b\"'])}")
        if k == "include":
            w = r.choice(["", "", " ignore missing", " with context", " without context", " ignore missing without context",
                          " with", " ignore", " without context ignore missing"])
            return T(f"include {r.choice(['\"inc\"', '[\"a\", \"b\"]', self.expr(1), '(\"a\",)', ''])}{w}")
        if k == "import":
            return T(f"import {r.choice(['\"lib\"', self.expr(1)])} as {self.target()}" + r.choice(["", " with context", " without context"]))
        if k == "from":
            names = ", ".join(self.name() + (f" as {self.name()}" if r.random() < 0.4 else "") for _ in range(r.choice([1, 1, 2, 3])))
            return T(f"from {r.choice(['\"lib\"', self.expr(1)])} import {names}" + r.choice(["", "", ",", " with context", ", with context", " without context", " context"]))
        if k == "autoescape":
            return T(f"autoescape {r.choice(['true', 'false', self.expr(1), ''])}") + self.body(d) + end("endautoescape")
        if k == "raw":
            inner = r.choice(["", "x", self.var("x"), self.c["block_start_string"] + " if ", self.c["comment_start_string"], "\n"])
            return T("raw") + inner + end("endraw")
        if k == "ns":
            return T("set ns = namespace(a=1)") + T(f"set ns.{self.name()} = {self.expr(1)}") + self.var("ns.a")
        if k == "ext":
            e = r.choice(["do", "break", "continue", "debug", "trans", "trans", "trans2"])
            if e == "do":
                return T(f"do {self.expr(2)}")
            if e in ("break", "continue"):
                return T("for i in x") + T("if i") + T(e) + T("endif") + T("endfor") if r.random() < 0.7 else T(e)
            if e == "debug":
                return T("debug")
            vs = self.c["variable_start_string"] + " "
            ve = " " + self.c["variable_end_string"]
            binds = ", ".join(self.name() + (f"={self.expr(1)}" if r.random() < 0.6 else "") for _ in range(r.choice([0, 1, 2])))
            mod = r.choice(["", "", " trimmed", " notrimmed", " trimmed,"]) if r.random() < 0.5 else ""
            inner = "".join(r.choice(["text ", vs + self.name() + ve, "%", "%(x)s", "\n  ", vs + self.expr(1) + ve, "{", T("if x")])
                            for _ in range(r.randrange(0, 4)))
            s = T(f"trans{mod}{' ' if binds else ''}{binds}") + inner
            if e == "trans2" or r.random() < 0.3:
                s += T("pluralize" + r.choice(["", " " + self.name(), " 1"])) + inner
            return s + end("endtrans")
        if k == "stray":
            return T(r.choice(["endif", "endfor", "else", "elif x", "endblock", "endmacro", "pluralize", "endtrans", "endraw",
                               "unknown", "", "1", "'s'", "-", "if", "for", "for x", "for x in", "set", "set x", "block",
                               "macro", "macro m", "macro m(", "call", "filter", "import", "from", "from x import",
                               "include", "with", "with x", "autoescape", "endset", "endcall", "endwith", "print 1",
                               "if x %}{% endif", "if x }}", "continue", "break", "do", "trans", "raw", "endautoescape"]))
        if k == "var":
            return self.var(self.expr(4))
        return self.text()

    def template(self, size=4, depth=3):
        body = "".join(self.node(depth) for _ in range(self.r.randrange(1, size + 1)))
        if self.r.random() < 0.15:       # a root-level extends first: every later extends makes the generator leave its body
            body = self.tag(self.r.choice(['extends "base"', "extends x"])) + body
        return body


# ---------------------------------------------------------------------------------------------------------------
# token-level mutations
# ---------------------------------------------------------------------------------------------------------------

REPLACEMENTS = ["", " ", "x", "1", "(", ")", "[", "]", "{", "}", ",", ".", "|", "=", ":", "'", '"', "if", "else", "endif", "for",
                "in", "endfor", "is", "not", "and", "*", "**", "-", "+", "~", "%", "#", "\n", "raw", "endraw", "set", "block",
                "endblock", "class", "None", "\\", "1.5", "é", "0x", "'a", "macro", "endmacro", "call", "filter", "recursive"]


def raw_tokens(env, src):
    """the texts of the raw tokens (including whitespace, comments) as far as the lexer gets, plus the unlexed rest"""
    out = []
    try:
        for _, _, v in env.lexer.tokeniter(src, None, None):
            out.append(v)
    except Exception:  # noqa: the oracle judges the source, not this helper
        pass
    return out


def mutate(rng, toks, c):
    """one mutation of a token-text list; returns the new source"""
    toks = list(toks)
    delims = [c["block_start_string"], c["block_end_string"], c["variable_start_string"], c["variable_end_string"],
              c["comment_start_string"], c["comment_end_string"]]
    if not toks:
        return rng.choice(REPLACEMENTS + delims)
    i = rng.randrange(len(toks))
    k = rng.choice(["delete", "duplicate", "swap", "replace", "insert", "truncate", "delim"])
    if k == "delete":
        del toks[i]
    elif k == "duplicate":
        toks.insert(i, toks[i])
    elif k == "swap":
        j = rng.randrange(len(toks))
        toks[i], toks[j] = toks[j], toks[i]
    elif k == "replace":
        toks[i] = rng.choice(REPLACEMENTS)
    elif k == "insert":
        toks.insert(i, rng.choice(REPLACEMENTS))
    elif k == "truncate":
        toks = toks[:i]
    else:
        toks[i] = rng.choice(delims)
    return "".join(toks)


# ---------------------------------------------------------------------------------------------------------------
# identifiers, keywords in name positions, constants
# ---------------------------------------------------------------------------------------------------------------

NAME_POSITIONS = [
    "{{ N }}", "{{ N.N }}", "{{ x.N }}", "{{ N[N] }}", "{{ N(N) }}", "{{ f(N=1) }}", "{{ f(N=N) }}", "{{ x|N }}", "{{ x|f(N=1) }}",
    "{{ x is N }}", "{{ x is N(N=1) }}", "{% set N = 1 %}{{ N }}", "{% set N %}x{% endset %}{{ N }}", "{% set N, M = 1, 2 %}",
    "{% set ns = namespace() %}{% set ns.N = 1 %}{{ ns.N }}", "{% for N in x %}{{ N }}{% endfor %}",
    "{% for N, M in x %}{{ N }}{{ loop.N }}{% endfor %}", "{% for a in x recursive %}{{ loop(N) }}{% endfor %}",
    "{% macro N() %}{% endmacro %}{{ N() }}", "{% macro m(N) %}{{ N }}{% endmacro %}", "{% macro m(N=1) %}{{ N }}{% endmacro %}",
    "{% macro m(a, N=a) %}{% endmacro %}{{ m(N=2) }}", "{% macro m() %}{{ N }}{{ varargs }}{{ kwargs }}{% endmacro %}",
    "{% call(N) m() %}{{ N }}{% endcall %}", "{% call N() %}{% endcall %}", "{% call m(N=1) %}{% endcall %}",
    "{% with N = 1 %}{{ N }}{% endwith %}", "{% with N = 1, M = N %}{% endwith %}", "{% block N %}{% endblock %}",
    "{% block N %}{% endblock N %}", "{% block b %}{{ N }}{{ self.N() }}{{ super.N }}{% endblock %}",
    "{% import 'l' as N %}{{ N.N }}", "{% from 'l' import N %}{{ N }}", "{% from 'l' import a as N %}{{ N }}",
    "{% from 'l' import N as a, M %}", "{% filter N %}{% endfilter %}", "{% filter upper(N=1) %}{% endfilter %}",
    "{% if N %}{% elif N is N %}{% endif %}", "{% include N %}", "{% extends N %}", "{% autoescape N %}{% endautoescape %}",
    "{{ {N: N} }}", "{{ {'N': 1}.N }}", "{{ N if N else N }}", "{{ [N for N in x] }}", "{{ lambda N: N }}", "{{ N := 1 }}",
    "{{ *N }}", "{{ f(*N, **N) }}", "{{ x.N() }}", "{{ x['N'] }}", "{{ N ~ N }}", "{{ not N }}", "{{ N in N }}", "{{ -N }}",
    "{{ (N, N) }}", "{{ N|N|N }}", "{{ N.N.N }}", "{{ N is not N }}", "{{ x|default(N) }}", "{{ x|map(attribute='N') }}",
    "{{ x|attr('N') }}", "{% set N = N %}", "{% set N.N = 1 %}", "{% for N in N if N %}{% else %}{% endfor %}",
    "{% macro N(N) %}{{ N }}{% endmacro %}", "{% macro m(N, N) %}{% endmacro %}", "{{ f(N=1, N=2) }}",
    "{% with N = 1, N = 2 %}{% endwith %}", "{% from 'l' import N, N %}", "{% set N, N = 1, 2 %}",
    "{% for N, N in x %}{% endfor %}", "{% block N %}{% endblock %}{% block N %}{% endblock %}",
]
EXT_NAME_POSITIONS = [
    "{% trans N=1 %}{{ N }}{% endtrans %}", "{% trans %}{{ N }}{% endtrans %}", "{% trans N %}{{ N }}{% endtrans %}",
    "{% trans N=1, M=2 %}{{ N }}{% pluralize M %}{{ M }}{% endtrans %}", "{% trans N=1 %}a{% pluralize %}{{ N }}s{% endtrans %}",
    "{% trans count=N %}{{ count }}{% pluralize N %}{{ count }}{% endtrans %}", "{% trans N=1, N=2 %}{{ N }}{% endtrans %}",
    "{% trans %}{{ N }}{{ N }}{% pluralize %}{{ N }}{% endtrans %}", "{% do N %}", "{% do N.append(N) %}",
    "{% for N in x %}{% break %}{% continue %}{% endfor %}", "{{ _(N) }}", "{{ gettext('%(N)s', N=1) }}",
    "{{ ngettext('%(N)s', 'p', 2, N=1) }}", "{{ _('a', N=1) }}", "{% trans trimmed N=1 %} {{ N }} {% endtrans %}",
    "{% trans N=1 %}%(N)s {{ N }} %{% endtrans %}", "{{ pgettext('c', 'm', N=1) }}", "{% debug %}{{ N }}",
    "{% trans num=1 %}{{ num }}{% pluralize %}{{ num }}{% endtrans %}", "{% trans N=1 %}{% pluralize N %}{% endtrans %}",
]

CONSTANTS = [
    "{{ {[1]: 2} }}", "{{ {{}: 1} }}", "{{ {[]: 1}[[]] }}", "{{ {(1, [2]): 3} }}", "{{ {x: 1} }}", "{{ {1: 2, 1: 3} }}",
    "{{ {none: 1, true: 2, 1: 3, 1.0: 4} }}", "{{ {'a': 1}|dictsort }}", "{{ {[1]: 2}|length }}", "{{ {{1: 2}: 3}.x }}",
    "{{ [1, 2][{}] }}", "{{ 1[[]] }}", "{{ {}[[]] }}", "{{ ''[{}] }}", "{{ ()[{}] }}", "{{ [][{}:[]] }}", "{{ 'a'.b }}",
    "{{ 1.x }}", "{{ 1.0.x }}", "{{ 1 .real }}", "{{ none.x }}", "{{ none() }}", "{{ 1() }}", "{{ 'a'() }}", "{{ 'a' % [] }}",
    "{{ 1 / 0 }}", "{{ 1 // 0 }}", "{{ 1 % 0 }}", "{{ 2 ** 1000000 }}", "{{ 2 ** 2 ** 2 ** 2 ** 2 }}", "{{ 10 ** -1 }}",
    "{{ 0 ** -1 }}", "{{ 'a' + 1 }}", "{{ -'a' }}", "{{ +'a' }}",
    "{{ 1 < 'a' }}", "{{ [] < {} }}", "{{ 1 in 1 }}", "{{ 'a' ~ {} }}", "{{ {} == [] }}", "{{ (1, 2) + [3] }}",
    "{{ 1e٣ }}", "{{ ٣.٣ }}", "{{ 1.٣ }}", "{{ 1٣ }}", "{{ x[1:2, 3] }}", "{{ x[:, :] }}", "{{ 'abc'[::2, 1] }}", "{{ x[(1:2)] }}",
    "{{ 10**5000 ~ 1 }}", "{{ (10**5000)|string }}", "{{ [10**5000] }}", "{{ -(10**5000) }}", "{{ 10**5000 == 1 }}",
    "{% for a in x %}{% macro m() %}{% break %}{% endmacro %}{% endfor %}", "{% for a in x %}{% else %}{% continue %}{% endfor %}",
    "{% for a in x %}{% call m() %}{% break %}{% endcall %}{% endfor %}", "{% for a in x %}{% filter upper %}{% break %}{% endfilter %}{% endfor %}",
    "{% for a in x %}{% set b %}{% continue %}{% endset %}{% endfor %}", "{% for a in x recursive %}{% break %}{% endfor %}",
    "{% for a in x %}{% block b %}{% break %}{% endblock %}{% endfor %}", "{% for a in x %}{% if a %}{% break %}{% endif %}{% endfor %}",
    "{% call m(caller=1) %}{% endcall %}", "{% for a in x %}{{ f(_loop_vars=1) }}{% endfor %}",
    "{% block b %}{{ f(_block_vars=1) }}{% endblock %}", "{% for a in x %}{{ loop(a, _loop_vars=1) }}{{ a|f(_loop_vars=1) }}{% endfor %}",
    "{{ 1e999 }}", "{{ -1e999 }}", "{{ 1e999 - 1e999 }}", "{{ 1e999|string }}", "{{ [1e999] }}", "{{ {1e999: 1} }}",
    "{{ (1e999, -1e999) }}", "{{ 1e999 * 0 }}", "{{ 1e308 * 10 }}", "{{ 1e-400 }}", "{{ 9" + "9" * 5000 + " }}",
    "{{ 1" + "0" * 4400 + " }}", "{{ 0x" + "f" * 4000 + " }}", "{{ 1" + "0" * 4400 + " + 1 }}", "{{ 1" + "0" * 5000 + "|string }}",
    "{{ 1" + "_0" * 3000 + " }}", "{{ 0b" + "1" * 20000 + " }}", "{{ 1." + "0" * 5000 + "1 }}", "{{ 1e" + "0" * 5000 + "1 }}",
    "{{ '" + "\\x41" * 2000 + "' }}", "{{ 'a'|center(1" + "0" * 30 + ") }}", "{{ 'abc'|truncate(-1) }}", "{{ 'a'|indent(-1) }}",
    "{{ 1|round('x') }}", "{{ 'a'|replace }}", "{{ 'a'|nope }}", "{{ 'a' is nope }}", "{{ 'a'|upper(1) }}", "{{ []|first }}",
    "{{ []|sum(1, 2, 3, 4) }}", "{{ 1|int(base=99) }}", "{{ 'x'|int(base='y') }}", "{{ 'a'|join(1, 2, 3) }}", "{{ 5|filesizeformat(x=1) }}",
    "{{ 'a'|default(**1) }}", "{{ 'a'|default(*1) }}", "{{ 'a'|default(*[1], **{}) }}", "{{ 1 is divisibleby 0 }}",
    "{{ 1 is divisibleby(0) }}", "{{ 1 is sameas }}", "{{ 1 is eq }}", "{{ 1 is in }}", "{{ 1 is in 2 }}", "{{ 'a'|map }}",
    "{{ ''|format(**{1: 2}) }}", "{{ f(**{1: 2}) }}", "{{ f(**[1]) }}", "{{ f(*1) }}", "{{ 'a'|e|e|e|safe|e }}",
    "{{ ('a'|safe) ~ '<' }}", "{{ '<'|e ~ '<' }}", "{{ ['<'|e, 1]|join }}", "{{ 'a'|tojson|tojson }}", "{{ {'<': 1}|tojson }}",
    "{{ {'a': 1}|xmlattr }}", "{{ {'a b': 1}|xmlattr }}", "{{ 'a'|urlize(1, 2, 3, 4, 5, 6) }}", 
    "{{ range(3)|list }}", "{{ lipsum(1" + "0" * 20 + ") }}", "{{ dict(a=1).a }}", "{{ cycler().next() }}", "{{ 'a'.__class__ }}",
    "{{ ''.__class__.__mro__ }}", "{{ 'a'.format(1) }}", "{{ '{0.__class__}'.format(1) }}", "{{ x.__init__.__globals__ }}",
    "{{ true.x }}", "{{ true() }}", "{{ (1).__add__(2) }}", "{{ 1.__add__ }}", "{{ 1. }}", "{{ 1.e }}", "{{ .5 }}", "{{ 1.5.real }}",
    "{{ 'a' 'b' 'c' }}", "{{ 'a' \"b\" }}", "{{ 'a' 1 }}", "{{ 1 'a' }}", "{{ 'a'|upper 'b' }}", "{{ - - - 1 }}", "{{ not not not x }}",
    "{{ 1 if 2 }}", "{{ 1 if }}", "{{ if }}", "{{ 1 else 2 }}", "{{ 1 if 2 else }}", "{{ (1 if 2 else 3) if 4 else 5 }}",
    "{{ 1 < 2 < 3 > 4 == 5 != 6 in 7 not in 8 }}", "{{ 1 not 2 }}", "{{ 1 not in }}", "{{ x is not }}", "{{ x is not not y }}",
    "{{ x is a is b }}", "{{ x is a b c }}", "{{ x is a (b) }}", "{{ x is a.b.c }}", "{{ x is a.b.c(1) }}", "{{ x|a.b.c }}",
    "{{ x|a.b.c(1) }}", "{{ x| }}", "{{ x|1 }}", "{{ x|'a' }}", "{{ x|(a) }}", "{{ x|a|(b) }}", "{{ x is 1 }}", "{{ x is 'a' }}",
    "{{ x is (a) }}", "{{ x is none none }}", "{{ x is true is true }}", "{{ x is none and y }}", "{{ x is divisibleby 3 + 1 }}",
    "{{ x is divisibleby -3 }}", "{{ x is divisibleby not 3 }}", "{{ x is sameas [1] }}", "{{ x is sameas {1: 2} }}",
    "{{ x is sameas (1, 2) }}", "{{ x is sameas 1.5 }}", "{{ x is sameas 'a'.b }}", "{{ x is sameas a|b }}", "{{ x is sameas a is b }}",
]


def keyword_names():
    return PY_KEYWORDS + PY_SOFT + ["True", "False", "None", "true", "false", "none", "loop", "self", "super", "caller",
                                      "varargs", "kwargs", "namespace", "context", "environment", "resolve", "missing",
                                      "undefined", "t_1", "l_0_x", "block_b", "root", "name", "blocks", "debug_info",
                                      "parent_template", "str_join", "escape", "Markup", "concat", "_", "gettext", "ngettext",
                                      "num", "count", "included_template", "template", "identity", "exported", "event",
                                      "auto_await", "auto_aiter", "TemplateRuntimeError", "Undefined", "Macro", "Namespace",
                                      "markup_join", "internalcode", "LoopContext", "TemplateReference", "TemplateNotFound",
                                      "async_exported", "frame", "context_vars", "cond_expr_undefined", "t", "l", "x__y",
                                      "__", "__x", "_1", "l_1", "l_1_", "t_", "print", "abs", "__name__", "__builtins__"]


# ---------------------------------------------------------------------------------------------------------------
# statements that make the code generator leave a body early or that are only legal in some enclosing construct
# (a second `extends` -> CompilerExit; `break`/`continue`), in every nesting position
# ---------------------------------------------------------------------------------------------------------------

def _wrappers(d):
    """(name, opening part, closing part) of every construct with a body, for nesting level d"""
    return [
        ("if", "{% if x %}", "{% endif %}"),
        ("elif", "{% if x %}t{% elif y %}", "{% endif %}"),
        ("else", "{% if x %}t{% else %}", "{% endif %}"),
        ("if-then-else", "{% if x %}", "{% else %}e{% endif %}"),
        ("for", "{% for i# in x %}".replace("#", str(d)), "{% endfor %}"),
        ("for-else", "{% for i# in x %}t{% else %}".replace("#", str(d)), "{% endfor %}"),
        ("for-body-else", "{% for i# in x %}".replace("#", str(d)), "{% else %}e{% endfor %}"),
        ("for-rec", "{% for i# in x recursive %}{{ loop(i#) }}".replace("#", str(d)), "{% endfor %}"),
        ("for-rec-else", "{% for i# in x recursive %}t{% else %}".replace("#", str(d)), "{% endfor %}"),
        ("for-if", "{% for i# in x if i# %}".replace("#", str(d)), "{% endfor %}"),
        ("with", "{% with v# = 1 %}".replace("#", str(d)), "{% endwith %}"),
        ("block", "{% block b# %}".replace("#", str(d)), "{% endblock %}"),
        ("macro", "{% macro m#() %}".replace("#", str(d)), "{% endmacro %}"),
        ("call", "{% call f() %}", "{% endcall %}"),
        ("filter", "{% filter upper %}", "{% endfilter %}"),
        ("setblock", "{% set s# %}".replace("#", str(d)), "{% endset %}"),
        ("autoescape", "{% autoescape true %}", "{% endautoescape %}"),
    ]


DEEP = ("if", "elif", "else", "for", "for-else", "for-rec-else", "with", "block")


def _keep(thin, i):
    """thin = None (keep all) or (k, r): of the deeper nests keep every k-th, rotated by r (the seed)"""
    return thin is None or i % thin[0] == thin[1] % thin[0]


def nesting_sources(ext, thin=None):
    """root prefix x (statements before) x nest of depth 1..3 x inner statement x (statements after); depth <= 2 over
    all 17 constructs, depth 3 over eight of them; deterministic and complete"""
    inners = ["{% extends 'b' %}", "{% extends y %}{{ z }}"] + (["{% break %}", "{% continue %}"] if ext else [])
    prefixes = ["{% extends 'a' %}", "", "{% extends a %}{% set q = 1 %}", "{% if w %}{% extends 'a' %}{% endif %}"]
    around = [("", ""), ("{{ p }}{% set r = 1 %}", "{{ r }}{% block tail %}T{% endblock %}"), ("A", "{% extends 'c' %}")]

    def nests(depth, names):
        if depth == 0:
            yield "", ""
            return
        for name, o, c in _wrappers(depth):
            if names is not None and name not in names:
                continue
            for io, ic in nests(depth - 1, names):
                yield o + "a" + io, ic + "z" + c

    for depth, names in ((1, None), (2, None), (3, DEEP)):
        for i, (o, c) in enumerate(nests(depth, names)):
            if depth > 1 and not _keep(thin, i):
                continue
            for inner in inners:
                for pre in (prefixes if depth < 3 else prefixes[:1]):
                    for b, a in (around if depth < 3 else around[:2]):
                        yield pre + b + o + inner + c + a
    # two statements of the family in one body, and at the root
    for inner in inners:
        for pre in prefixes:
            yield pre + inner + inner
            yield pre + "{% if x %}" + inner + "{% endif %}{% if y %}" + inner + "{% else %}" + inner + "{% endif %}"


# ---------------------------------------------------------------------------------------------------------------
# statements with EMPTY bodies / argument lists in every position, under root-level, conditional and absent extends
# ---------------------------------------------------------------------------------------------------------------

EMPTIES = [
    "{% print %}", "{% print x, %}", "{{ }}", "{% %}", "{# #}", "{##}", "{{ () }}", "{{ f() }}", "{{ [] }}{{ {} }}", "{{ x[] }}", "{{ x|f() }}",
    "{% call m() %}{% endcall %}", "{% call() m() %}{% endcall %}", "{% call %}{% endcall %}", "{% set e %}{% endset %}",
    "{% set e | upper %}{% endset %}", "{% set %}", "{% set e = %}", "{% block be %}{% endblock %}", "{% block %}{% endblock %}",
    "{% block br required %}{% endblock %}", "{% macro me() %}{% endmacro %}", "{% macro %}{% endmacro %}", "{% macro me %}{% endmacro %}",
    "{% for a in x %}{% endfor %}", "{% for a in x %}{% else %}{% endfor %}", "{% for a in x recursive %}{% else %}{% endfor %}",
    "{% for a in x if a %}{% endfor %}", "{% for %}{% endfor %}", "{% if x %}{% endif %}", "{% if x %}{% else %}{% endif %}",
    "{% if x %}{% elif y %}{% else %}{% endif %}", "{% if %}{% endif %}", "{% with %}{% endwith %}", "{% with v = 1 %}{% endwith %}",
    "{% filter upper %}{% endfilter %}", "{% filter %}{% endfilter %}", "{% autoescape true %}{% endautoescape %}",
    "{% autoescape %}{% endautoescape %}", "{% raw %}{% endraw %}", "{% include %}", "{% import %}", "{% from 'l' import %}",
    "{% extends %}", "{% include [] %}", "{% include () %}", "{{ ''}}", "{% set e = () %}{% for a in () %}{% endfor %}",
]
EXT_EMPTIES = ["{% trans %}{% endtrans %}", "{% trans %}{% pluralize %}{% endtrans %}", "{% trans n=1 %}{% pluralize %}{% endtrans %}",
               "{% do %}", "{% do () %}", "{% debug %}", "{% trans trimmed %}  {% endtrans %}", "{% for a in x %}{% break %}{% endfor %}"]
EXT_PREFIXES = ["{% extends 'a' %}", '{% if x %}{% extends "a" %}{% endif %}', "", "{% if x %}{% extends 'a' %}{% else %}{% extends 'b' %}{% endif %}"]


def empty_sources(ext, thin=None):
    """every empty form x (absent / root-level / conditional / two-way conditional extends) x position: alone at the root, as the
    ONLY content of each of the 17 body constructs, padded inside them, and as the only content of depth-2 nests of eight"""
    forms = EMPTIES + (EXT_EMPTIES if ext else [])

    def nests(depth, names, pad):
        if depth == 0:
            yield "", ""
            return
        for name, o, c in _wrappers(depth):
            if names is not None and name not in names:
                continue
            for io, ic in nests(depth - 1, names, pad):
                yield o + pad + io, ic + pad + c

    shells = [("", "")] + list(nests(1, None, "")) + list(nests(1, None, "t")) + \
        [x for i, x in enumerate(nests(2, DEEP, "")) if _keep(thin, i)]
    for pre in EXT_PREFIXES:
        for e in forms:
            for o, c in shells:
                yield pre + o + e + c
            yield pre + e + e
            yield e + pre
            yield pre + e + "{{ t }}" + e


# ---------------------------------------------------------------------------------------------------------------
# identifiers in Unicode compatibility forms (Python compares identifiers in NFKC form) in every identifier position
# ---------------------------------------------------------------------------------------------------------------

def _fw(s, which=None):
    """fullwidth form of the ASCII letters/digits of s (only the characters at the given indices, default the first)"""
    which = (0,) if which is None else which
    return "".join(chr(ord(ch) + 0xFEE0) if i in which and ch.isalnum() else ch for i, ch in enumerate(s))


COMPAT_BASES = ["kwargs", "varargs", "caller", "loop", "self", "super", "x", "class", "if", "for", "None", "True", "print",
                "context", "environment", "resolve", "missing", "undefined", "t_1", "l_0_x", "name", "blocks", "range", "fi"]
COMPAT_NAMES = ([_fw(b) for b in COMPAT_BASES] + [_fw(b, range(len(b))) for b in ("kwargs", "x1", "class")] +
                ["__ｄebug__", "__debug_＿", "＿_debug__", "x１", "ﬁ", "ﬂag", "aﬁ", "ℌ", "ⅷ", "Ⅰx", "K", "ſelf", "ſuper", "kwargſ", "claſs",
                 "e\u0301".encode().decode("unicode_escape"), "é", "ª", "µ", "ĳ", "ǆ", "ℯ", "ｅ", "ℓoop", "𝐤wargs", "𝓁oop", "caℓℓer",
                 "x²", "x\u00b7".encode().decode("unicode_escape"), "ⁿ", "ﬅ", "㎏", "ｌoｏp"])

PAIR_POSITIONS = [
    "{% macro m(N, M) %}{{ N }}{{ M }}{% endmacro %}{{ m(1, 2) }}", "{% macro m(N=1, M=2) %}{{ N }}{{ M }}{% endmacro %}",
    "{% macro m(N) %}{{ M }}{{ N }}{% endmacro %}", "{% macro m(a, N=a) %}{{ M }}{% endmacro %}{{ m(N=1) }}{{ m(M=1) }}",
    "{% call(N, M) m() %}{{ N }}{{ M }}{% endcall %}", "{% call(N) m() %}{{ M }}{% endcall %}", "{{ f(N=1, M=2) }}", "{{ f(N=1) }}{{ f(M=1) }}",
    "{{ x|f(N=1, M=2) }}", "{{ x is f(N=1, M=2) }}", "{% call m(N=1, M=2) %}{% endcall %}", "{% filter f(N=1, M=2) %}{% endfilter %}",
    "{% block N %}{% endblock %}{% block M %}{% endblock %}", "{% block N %}{{ self.M() }}{{ self.N() }}{% endblock %}{% block M %}{{ super() }}{% endblock %}",
    "{% block N %}{% endblock N %}{% block M %}{% endblock M %}", "{% block N %}{% block M %}{% endblock M %}{% endblock N %}",
    "{% set N = 1 %}{% set M = 2 %}{{ N }}{{ M }}", "{% set N, M = 1, 2 %}{{ N }}{{ M }}", "{% set N %}a{% endset %}{% set M %}b{% endset %}{{ N }}{{ M }}",
    "{% for N, M in x %}{{ N }}{{ M }}{% endfor %}", "{% for N in x %}{% for M in N %}{{ N }}{{ M }}{{ loop.index }}{% endfor %}{% endfor %}",
    "{% for N in x recursive %}{{ loop(M) }}{{ N }}{% endfor %}", "{% for N in M %}{{ N }}{% else %}{{ M }}{% endfor %}",
    "{% with N = 1, M = 2 %}{{ N }}{{ M }}{% endwith %}", "{% with N = 1 %}{% with M = N %}{{ N }}{{ M }}{% endwith %}{% endwith %}",
    "{% macro N() %}a{% endmacro %}{% macro M() %}b{% endmacro %}{{ N() }}{{ M() }}", "{% import 'l' as N %}{% import 'k' as M %}{{ N.M }}{{ M.N }}",
    "{% from 'l' import N, M %}{{ N }}{{ M }}", "{% from 'l' import a as N, b as M %}{{ N }}{{ M }}", "{% from 'l' import N as M %}{{ N }}{{ M }}",
    "{% set ns = namespace() %}{% set ns.N = 1 %}{% set ns.M = 2 %}{{ ns.N }}{{ ns.M }}", "{% set ns = namespace(N=1, M=2) %}{% set ns.N %}a{% endset %}",
    "{{ x.N }}{{ x.M }}{{ x[N] }}", "{{ x|N }}{{ x|M }}", "{{ x is N }}{{ x is M }}", "{% filter N %}{% endfilter %}{% filter M %}{% endfilter %}",
    "{% set N = 1 %}{% block b %}{{ M }}{{ N }}{% endblock %}", "{% block b scoped %}{% set N = 1 %}{{ M }}{% endblock %}",
    "{% macro m() %}{% set N = 1 %}{{ M }}{{ N }}{{ kwargs }}{{ varargs }}{{ caller }}{% endmacro %}", "{% if N %}{% set M = 1 %}{% endif %}{{ N }}{{ M }}",
    "{% for a in x %}{% set N = a %}{{ M }}{{ loop }}{% endfor %}{{ N }}", "{% set N = M %}{% set M = N %}", "{{ N if M else N }}{{ {N: M}[N] }}",
    "{% macro m(N) %}{% macro k(M) %}{{ N }}{{ M }}{% endmacro %}{% endmacro %}", "{% macro m(N, M=N) %}{% endmacro %}",
    "{% for N in x %}{% macro m(M) %}{{ N }}{{ M }}{% endmacro %}{% endfor %}", "{% extends 'a' %}{% block N %}{% endblock %}{% set M = 1 %}",
    "{% include N %}{% include M ignore missing %}{% import N as M %}", "{% autoescape N %}{{ M }}{% endautoescape %}",
]
EXT_PAIR_POSITIONS = [
    "{% trans N=1, M=2 %}{{ N }}{{ M }}{% endtrans %}", "{% trans %}{{ N }}{{ M }}{% endtrans %}", "{% trans N=1 %}{{ N }}{% pluralize M %}{{ M }}{% endtrans %}",
    "{% trans N %}{{ N }}{{ M }}{% pluralize %}{{ M }}{% endtrans %}", "{{ _('m', N=1, M=2) }}{{ gettext('%(N)s %(M)s', N=1, M=2) }}",
    "{% do N.append(M) %}", "{% for N in x %}{% for M in N %}{% break %}{% endfor %}{% continue %}{% endfor %}",
]


def compat_sources(ext, thin=None):
    """each compatibility-form name with its NFKC form in both roles (and with itself) in every two-name position"""
    import unicodedata

    pos = PAIR_POSITIONS + (EXT_PAIR_POSITIONS if ext else [])
    for n in COMPAT_NAMES:
        k = unicodedata.normalize("NFKC", n)
        for i, p in enumerate(pos):
            for a, b in ((n, k), (k, n), (n, n)) if _keep(thin, i) else ((n, k),):
                yield "".join(a if ch == "N" else b if ch == "M" else ch for ch in p)


def special_sources(ext, families=True, thin=None):
    """every name (keywords, soft keywords, Jinja/runtime names, Unicode classes) in every name position, and the
    constant/edge-case list; deterministic, complete"""
    names = keyword_names() + UNI_NAMES + COMPAT_NAMES
    pos = NAME_POSITIONS + (EXT_NAME_POSITIONS if ext else [])
    for p in pos:
        for n in names:
            yield p.replace("N", n).replace("M", "m2") if "N" in p else p
    for s in CONSTANTS:
        yield s
    if not families:
        return
    for s in nesting_sources(ext, thin):
        yield s
    for s in empty_sources(ext, thin):
        yield s
    for s in compat_sources(ext, thin):
        yield s
    for s in fold_sources(thin):
        yield s
    for a in INTS + FLOATS + STRINGS:
        yield "{{ " + a + " }}"
        yield "{{ x." + a + " }}"
        yield "{% set x = " + a + " %}{{ x|default(" + a + ") }}{% if " + a + " %}{% endif %}"
        yield "{{ {" + a + ": " + a + "}[" + a + "] }}"


# ---------------------------------------------------------------------------------------------------------------
# work done while LOADING: the optimizer folds filters and tests applied to constants, so every registered filter and
# test runs at load time on whatever constant the source spells (infinite / NaN floats, huge and negative ints, empty
# and odd containers).  Loading must finish and fail only with a template syntax error whatever the filter does there.
# ---------------------------------------------------------------------------------------------------------------

FOLD_RECEIVERS = ["1e999", "-1e999", "(1e999 - 1e999)", "'inf'", "'-Infinity'", "'nan'", "0", "-1", "1", "1.5", "-0.0",
                  "2 ** 64", "10 ** 400", "-(10 ** 400)", "1e308", "''", "' '", "'a b'", "'%s'", "'{}'", "'{0}{1}'", "'<a>'",
                  "'\n\n'", "'http://x'", "[]", "[1, 2]", "[[]]", "['a', 1]", "[1e999]", "{}", "{'a': 1}", "{1: {}}", "()",
                  "(1,)", "none", "true", "false"]
FOLD_ARGS = ["", "()", "(0)", "(1)", "(-1)", "(2, 3)", "(true)", "(none)", "('a')", "('')", "(1e999)", "(-1e999)", "(1.5)",
             "([])", "({})", "('a', 'b')", "(0, 0, 0)", "(binary=true)", "(attribute='a')", "(default=1e999)"]


def fold_sources(thin=None):
    from jinja2.defaults import DEFAULT_FILTERS, DEFAULT_TESTS

    k = 0

    def skip(k):      # quick tier: every 8th combination, rotated by seed
        return bool(thin) and (k + thin[1]) % (2 * thin[0]) != 0

    for name in sorted(DEFAULT_FILTERS):
        for r in FOLD_RECEIVERS:
            for a in FOLD_ARGS:
                k += 1
                if skip(k):
                    continue
                yield "{{ " + r + "|" + name + a + " }}"
            k += 1
            if not skip(k):
                yield "{% if false %}{{ (" + r + ")|" + name + "|" + name + " }}{% endif %}{% set v = " + r + "|" + name + " %}"
    for name in sorted(DEFAULT_TESTS):
        for r in FOLD_RECEIVERS:
            for a in FOLD_ARGS[:14]:
                k += 1
                if skip(k):
                    continue
                yield "{{ " + r + " is " + name + a + " }}"


# ---------------------------------------------------------------------------------------------------------------
# parametrised families for the host-limit threshold search: name -> (function n -> source, what grows)
# ---------------------------------------------------------------------------------------------------------------

def _rep(a, n, mid, b):
    return "{{ " + a * n + mid + b * n + " }}"


SHAPES = {
    "parens-depth": lambda n: _rep("(", n, "1", ")"),
    "list-depth": lambda n: _rep("[", n, "1", "]"),
    "dict-depth": lambda n: _rep("{1:", n, "1", "}"),
    "call-depth": lambda n: _rep("f(", n, "1", ")"),
    "subscript-depth": lambda n: _rep("x[", n, "1", "]"),
    "unary-minus-chain": lambda n: "{{ " + "-" * n + "x }}",
    "not-chain": lambda n: "{{ " + "not " * n + "x }}",
    "sum-terms": lambda n: "{{ " + "+".join(["1"] * n) + " }}",
    "sum-terms-names": lambda n: "{{ " + "+".join(["x"] * n) + " }}",
    "mul-terms": lambda n: "{{ " + "*".join(["x"] * n) + " }}",
    "pow-terms": lambda n: "{{ " + "**".join(["x"] * n) + " }}",
    "concat-terms": lambda n: "{{ " + "~".join(["x"] * n) + " }}",
    "and-terms": lambda n: "{{ " + " and ".join(["x"] * n) + " }}",
    "or-terms": lambda n: "{{ " + " or ".join(["x"] * n) + " }}",
    "compare-chain": lambda n: "{{ " + " < ".join(["x"] * n) + " }}",
    "condexpr-chain": lambda n: "{{ " + "1 if x else " * n + "2 }}",
    "subscript-chain": lambda n: "{{ x" + "[0]" * n + " }}",
    "attr-chain": lambda n: "{{ x" + ".a" * n + " }}",
    "call-chain": lambda n: "{{ x" + "()" * n + " }}",
    "filter-chain": lambda n: "{{ x" + "|e" * n + " }}",
    "filter-chain-upper": lambda n: "{{ x" + "|upper" * n + " }}",
    "test-args-depth": lambda n: _rep("x is eq(", n, "1", ")"),
    "tuple-items": lambda n: "{{ (" + "x, " * n + ") }}",
    "list-items": lambda n: "{{ [" + "1, " * n + "] }}",
    "dict-items": lambda n: "{{ {" + "".join(f"{i}: 1, " for i in range(n)) + "} }}",
    "call-args": lambda n: "{{ f(" + "x, " * n + ") }}",
    "call-kwargs": lambda n: "{{ f(" + "".join(f"k{i}=1, " for i in range(n)) + ") }}",
    "output-nodes": lambda n: "{{ x }}" * n,
    "data-lines": lambda n: "a\n" * n,
    "nested-if": lambda n: "{% if a %}" * n + "{% endif %}" * n,
    "nested-for": lambda n: "".join(f"{{% for v{i} in a %}}" for i in range(n)) + "{% endfor %}" * n,
    "nested-for-same-var": lambda n: "{% for v in a %}" * n + "{% endfor %}" * n,
    "nested-with": lambda n: "{% with a = 1 %}" * n + "{% endwith %}" * n,
    "nested-macro": lambda n: "".join(f"{{% macro m{i}() %}}" for i in range(n)) + "{% endmacro %}" * n,
    "nested-block": lambda n: "".join(f"{{% block b{i} %}}" for i in range(n)) + "{% endblock %}" * n,
    "nested-filter-block": lambda n: "{% filter upper %}" * n + "{% endfilter %}" * n,
    "nested-set-block": lambda n: "{% set a %}" * n + "{% endset %}" * n,
    "nested-call-block": lambda n: "{% call m() %}" * n + "{% endcall %}" * n,
    "nested-autoescape": lambda n: "{% autoescape true %}" * n + "{% endautoescape %}" * n,
    "elif-chain": lambda n: "{% if a %}" + "{% elif a %}" * n + "{% endif %}",
    "if-sequence": lambda n: "{% if a %}{% endif %}" * n,
    "set-sequence": lambda n: "".join(f"{{% set v{i} = 1 %}}" for i in range(n)),
    "macro-sequence": lambda n: "".join(f"{{% macro m{i}() %}}{{% endmacro %}}" for i in range(n)),
    "macro-args": lambda n: "{% macro m(" + ", ".join(f"a{i}" for i in range(n)) + ") %}{% endmacro %}",
    "macro-default-args": lambda n: "{% macro m(" + ", ".join(f"a{i}=1" for i in range(n)) + ") %}{% endmacro %}",
    "block-sequence": lambda n: "".join(f"{{% block b{i} %}}{{% endblock %}}" for i in range(n)),
    "for-tuple-target": lambda n: "{% for " + ", ".join(f"v{i}" for i in range(n)) + " in a %}{% endfor %}",
    "for-nested-target": lambda n: "{% for " + "(" * n + "v" + ",)" * n + " in a %}{% endfor %}",
    "from-import-names": lambda n: "{% from 'l' import " + ", ".join(f"n{i}" for i in range(n)) + " %}",
    "with-bindings": lambda n: "{% with " + ", ".join(f"v{i}=1" for i in range(n)) + " %}{% endwith %}",
    "string-concat-literals": lambda n: "{{ " + "'a' " * n + "}}",
    "long-name": lambda n: "{{ " + "a" * n + " }}",
    "paren-in-block": lambda n: "{% if " + "(" * n + "a" + ")" * n + " %}{% endif %}",
    "for-recursive-loop-calls": lambda n: "{% for v in a recursive %}" + "{{ loop(v) }}" * n + "{% endfor %}",
    "raw-blocks": lambda n: "{% raw %}x{% endraw %}" * n,
    "comments": lambda n: "{# c #}" * n,
}
EXT_SHAPES = {
    "trans-vars": lambda n: "{% trans %}" + "".join(f"{{{{ v{i} }}}}" for i in range(n)) + "{% endtrans %}",
    "trans-bindings": lambda n: "{% trans " + ", ".join(f"v{i}=1" for i in range(n)) + " %}{% endtrans %}",
    "do-sequence": lambda n: "{% do x %}" * n,
    "nested-for-break": lambda n: "{% for v in a %}" * n + "{% break %}" + "{% endfor %}" * n,
}
