"""C09 — generator of programs (template sets + JSON-able data specification) that exercise every place where the async
code generator / runtime differs from the sync one: calls, attribute and item access, filters and tests, for loops
(filter, else, recursive, loop.* attributes, break/continue), macros and call blocks, set/with/namespace, filter
blocks, filter chains over lists / generators / async-variant filters, include / import / extends.

Iterables that may be handed over as *async generators* (`ax`, `asx`, `ads`, `atree`) are used in iteration positions
only (for loops and filters that have an async variant) — a list and an async generator are different objects anywhere
else (truth value, indexing, printing), which has nothing to do with async mode.

Results of iterable-producing filters (map/select/reject/selectattr/rejectattr) are fed to for loops and to filters with an
async variant only; feeding them to anything else is DESIGN F17 and is probed separately (`consumer_probes`)."""
from __future__ import annotations

STRS = ["", "a", "ab", "<b>", "a&b", "x y", "A1", "é", "b"]
INT_FILTERS = ["abs", "string", "float|int"]
STR_FILTERS = ["upper", "lower", "length", "trim", "e", "capitalize", "string"]


def data_spec(rng):
    r = rng
    ints = lambda lo=0, hi=4: [r.randrange(-2, 9) for _ in range(r.randrange(lo, hi))]       # noqa: E731
    strs = lambda lo=0, hi=4: [r.choice(STRS) for _ in range(r.randrange(lo, hi))]          # noqa: E731
    dicts = lambda lo=0, hi=4: [{"$dict": [["k", r.choice(["a", "b", "A"])], ["v", r.randrange(0, 5)]]}   # noqa: E731
                                for _ in range(r.randrange(lo, hi))]

    def tree(d):
        return [{"$dict": [["name", r.choice(["n", "m", "<t>"]) + str(d)], ["children", tree(d - 1) if d > 0 and r.random() < 0.7 else []]]}
                for _ in range(r.randrange(0 if d < 2 else 1, 3))]

    spec = {
        "i": r.randrange(0, 7), "j": r.randrange(1, 5), "s": r.choice(STRS), "u": r.choice(STRS),
        "m": {"$markup": r.choice(["<i>", "x", "a&amp;b", ""])},
        "xs": ints(), "ss": strs(), "ms": [{"$markup": "<u>"}, r.choice(STRS)],
        "d": {"$dict": [["a", r.randrange(0, 9)], ["k", r.randrange(0, 9)], ["x y", 3]]},
        "o": {"$obj": {"id": 0, "attrs": [["a", r.randrange(0, 9)], ["k", "attr-k"], ["v", r.randrange(0, 4)]],
                       "items": [["k", "item-k"], ["b", r.randrange(0, 9)], [0, "zero"]]}},
        "os": [{"$obj": {"id": n + 1, "attrs": [["k", r.choice(["a", "b", "A"])], ["v", r.randrange(0, 5)]], "items": []}}
               for n in range(r.randrange(0, 4))],
        "ds": dicts(), "tree": tree(2), "ll": [ints(0, 3) for _ in range(r.randrange(0, 4))],
        "n": None, "b": r.random() < 0.5,
        # iteration-position-only variables (lists in sync mode; lists / generators / async generators in async mode)
        "ax": {"$aiter": ints()}, "asx": {"$aiter": strs()}, "ads": {"$aiter": dicts()}, "atree": {"$aiter": tree(2)},
        "ae": {"$aiter": []},
    }
    for f in ("f0", "f1", "inc", "mk", "twice", "tick", "pairs", "ident"):
        spec[f] = {"$fn": f}
    return spec


class PG:
    """program generator; `exprs` is a dict kind -> list of expression sources produced by exprcommon.Gen and printed by the
    Lean pretty-printer (kinds: int, str, bool, lst, any)"""

    def __init__(self, rng, exprs, features=None):
        self.r = rng
        self.x = exprs
        self.f = features or {"loops", "macros", "chains", "sets", "calls", "include", "import", "extends", "autoescape", "control", "blockrefs"}
        self.in_macro = 0
        self.macros = []          # (name, nparams, has_caller)
        self.uid = 0
        self.templates = {}
        self.feat = set()

    # ---- expressions ------------------------------------------------------------------------------------------
    def pick(self, xs):
        return self.r.choice(xs)

    def ex(self, kind):
        pool = self.x.get(kind) or self.x["any"]
        return self.pick(pool)

    def int_e(self):
        r = self.r
        k = r.random()
        if k < 0.35:
            return self.ex("int")
        if k < 0.5:
            self.feat.add("call")
            return self.pick(["inc(i)", "inc(j) + 1", "f1(i, j)", "f1()", "tick()", "tick() * 10 + tick()", "mk(j)|length", "ident(i)",
                              "inc(inc(i))", "o.meth(i)[1]", "mk(3)[1]", "f0(i)[0]", "d.get('a', 0)", "f1(*xs)", "f1(*mk(j))"])
        if k < 0.65:
            return self.pick(["i", "j", "i + j", "o.a", "o.v", "d.a", "d['k']", "xs|length", "o['b']", "xs[0]", "xs|first", "xs|sum", "(xs|last)"])
        return self.chain("int")

    def str_e(self):
        r = self.r
        k = r.random()
        if k < 0.35:
            return self.ex("str")
        if k < 0.5:
            self.feat.add("call")
            return self.pick(["twice(s)", "twice(u)|upper", "ident(s)", "ident(m)", "twice(m)", "f0(s, u)|join('+')", "o.meth()|join", "ident(s) ~ ident(u)",
                              "pairs()|map('first')|join", "d.keys()|list|join(',')", "s.upper()", "'{}-{}'.format(i, s)", "'%s/%s'|format(s, i)"])
        if k < 0.65:
            return self.pick(["s", "u", "m", "s ~ u", "o.k", "o['k']", "o[0]", "ss|join(',')", "ms|join", "s|upper", "zz", "zz.attr|default('dz')", "n"])
        return self.chain("str")

    def bool_e(self):
        r = self.r
        k = r.random()
        if k < 0.4:
            return self.ex("bool")
        if k < 0.55:
            self.feat.add("call")
            return self.pick(["f1(i)", "f1()", "mk(i)", "inc(i) > 3", "tick() is odd", "ident(b)", "ident(zz) is defined", "o.meth(0)[1]",
                              "f1 is callable", "inc(i) in xs", "mk(j) == [0, 1]", "ident(xs)"])
        return self.pick(["b", "i > 2", "xs", "s", "zz", "n", "i is odd", "s is string", "xs|length > 1", "not b", "b and i", "i in xs", "o.a > 3",
                          "xs|select('odd')|list", "ss|first", "zz is defined", "d.a is number"])

    def any_e(self):
        return self.pick([self.int_e, self.str_e, self.str_e, self.bool_e, lambda: self.ex("any"), lambda: self.ex("lst")])()

    # ---- filter chains: source | producers… | sink --------------------------------------------------------------
    def source(self):
        """(expression, element type)"""
        r = self.r
        return self.pick([
            ("xs", "int"), ("ax", "int"), ("ax", "int"), ("ss", "str"), ("asx", "str"), ("asx", "str"), ("ds", "dict"), ("ads", "dict"), ("ads", "dict"),
            ("os", "obj"), ("range(%d)" % r.randrange(0, 5), "int"), ("mk(j)", "int"), ("mk(i)", "int"), ("s", "str"), ("[i, j, 3]", "int"),
            ("(i, j)", "int"), ("xs + [i]", "int"), ("d", "str"), ("d.values()", "int"), ("d|dictsort", "pair"), ("pairs()", "pair"),
            ("ae", "int"), ("[]", "int"), ("zz", "int"), ("xs|reverse", "int"), ("xs|sort", "int"), ("ss|sort", "str"), ("xs|batch(2)", "list"),
            ("f0(i, j, i)", "int"), ("ident(xs)", "int"), ("ident(ss)", "str"), ("tree", "dict"),
        ])

    ONE_SHOT = ("ax", "asx", "ads", "ae", "atree")

    def producer(self, ty, oneshot=False):
        """one iterable-producing (or iterable-preserving, async-variant) step: (filter text, new element type).
        `unique` is lazy in sync mode and drains its input in async mode (known finding C09:consumption:unique), which is
        observable when a one-shot iterable is used again: it is not applied to one-shot sources here."""
        st, ty2 = self._producer(ty)
        while oneshot and "unique" in st:
            st, ty2 = self._producer(ty)
        return st, ty2

    def _producer(self, ty):
        r = self.r
        if ty == "int":
            return self.pick([("map('string')", "str"), ("map('abs')", "int"), ("select('odd')", "int"), ("select('gt', %d)" % r.randrange(0, 4), "int"),
                              ("reject('even')", "int"), ("reject('lt', 2)", "int"), ("select", "int"), ("reject", "int"), ("unique", "int"),
                              ("map('default', 7)", "int"), ("select('in', [1, 2, 3])", "int"), ("list", "int"), ("reject('eq', i)", "int"),
                              ("map('float')|map('int')", "int"), ("select('number')", "int")])
        if ty == "str":
            return self.pick([("map('upper')", "str"), ("map('lower')", "str"), ("map('length')", "int"), ("select", "str"), ("reject('eq', 'a')", "str"),
                              ("unique", "str"), ("unique(case_sensitive=true)", "str"), ("map('e')", "str"), ("select('string')", "str"),
                              ("map('trim')|map('capitalize')", "str"), ("list", "str"), ("map('replace', 'a', 'Z')", "str"), ("select('ne', u)", "str")])
        if ty in ("dict", "obj"):
            return self.pick([("map(attribute='v')", "int"), ("map(attribute='k')", "str"), ("selectattr('v')", ty), ("rejectattr('v')", ty),
                              ("selectattr('v', 'gt', 1)", ty), ("rejectattr('k', 'eq', 'a')", ty), ("selectattr('k', 'in', ['a', 'A'])", ty),
                              ("map(attribute='zz', default=0)", "int"), ("map(attribute='v')|map('string')", "str"), ("unique(attribute='k')", ty),
                              ("selectattr('v', 'odd')", ty), ("map(attribute='name')", "str") if ty == "dict" else ("map(attribute='k')", "str")])
        if ty == "pair":
            return self.pick([("map('first')", "str"), ("map('last')", "int"), ("map('join', '=')", "str"), ("map('list')", "list"), ("list", "pair")])
        return self.pick([("map('length')", "int"), ("map('first')", "int"), ("map('join', '.')", "str"), ("select", "list"), ("map('list')", "list"),
                          ("map('sum')", "int")])

    def sink(self, ty, want, oneshot=False):
        s = self._sink(ty, want)
        while oneshot and "unique" in s:
            s = self._sink(ty, want)
        return s

    def _sink(self, ty, want):
        """a consumer with an async variant (or a `list` first): text"""
        r = self.r
        if want == "int":
            opts = ["list|length", "list|count"]
            if ty == "int":
                opts += ["sum", "sum(start=%d)" % r.randrange(1, 9), "first|default(0)", "list|last|default(0)", "list|max|default(0)", "sum", "list|sort|first|default(-1)"]
            return self.pick(opts)
        if want == "bool":
            return self.pick(["list", "first", "list|length > 1", "join", "list == []"])
        opts = ["join(',')", "join", "list", "list|join('|')", "first", "list|tojson", "slice(2)|list", "unique|list", "list|sort|join(',')" if ty in ("int", "str") else "list|length",
                "list|reverse|join(';')" if ty in ("int", "str") else "list|batch(2)|list", "list|last", "slice(2, 'F')|map('list')|list", "list|batch(2)|map('join')|join('/')" if ty in ("int", "str") else "list"]
        if ty in ("dict", "obj"):
            opts = ["map(attribute='v')|join(',')", "groupby('k')|map('first')|join(',')", "groupby('k')|map(attribute='list')|map('length')|list",
                    "groupby('k', case_sensitive=true)|map(attribute='grouper')|join", "map(attribute='k')|unique|join", "list|length", "first|attr('v')",
                    "sum(attribute='v')", "join('+', attribute='v')", "groupby('v')|list|length", "map(attribute='v')|sum"]
        if ty == "int":
            opts += ["sum", "map('string')|join('+')"]
        return self.pick(opts)

    def chain(self, want="str"):
        self.feat.add("chain")
        src, ty = self.source()
        oneshot = src in self.ONE_SHOT
        steps = []
        for _ in range(self.r.randrange(0, 4)):
            st, ty = self.producer(ty, oneshot)
            steps.append(st)
        if steps:
            self.feat.add("producer")
        if oneshot:
            self.feat.add("aiter-var")
        e = src + "".join("|" + s for s in steps) + "|" + self.sink(ty, want, oneshot)
        return "(" + e + ")" if want != "str" or self.r.random() < 0.3 else e

    def iterable(self):
        """an expression for the `in` part of a for loop: (text, element type)"""
        src, ty = self.source()
        oneshot = src in self.ONE_SHOT
        steps = []
        for _ in range(self.pick([0, 0, 1, 1, 2])):
            st, ty = self.producer(ty, oneshot)
            steps.append(st)
        if steps:
            self.feat.add("for-over-producer")
        if oneshot:
            self.feat.add("aiter-var")
        return src + "".join("|" + s for s in steps), ty

    # ---- the same value again after a filter --------------------------------------------------------------------------
    REUSE_SOURCES = [("xs", "int"), ("ss", "str"), ("ds", "dict"), ("os", "obj"), ("tree", "dict"), ("ll", "list"), ("xs", "int"), ("ds", "dict")]
    # every filter with an async variant and every iterable consumer, applied directly to a context list
    DIRECT = {
        "int": ["sort", "sort(reverse=true)", "reverse|list", "batch(2)|list", "min", "max", "unique|list", "slice(2)|list", "sum", "first", "last",
                "length", "join(',')", "list", "map('string')|list", "select('odd')|list", "reject('odd')|list", "groupby('real')|list|length",
                "select|first", "map('abs')|sum", "list|sort", "count", "tojson", "pprint", "string"],
        "str": ["sort", "sort(case_sensitive=true)", "reverse|list", "batch(2)|list", "min", "max", "unique|list", "slice(2)|list", "first", "last",
                "length", "join(',')", "list", "map('upper')|list", "select|list", "reject('eq', 'a')|list", "unique(case_sensitive=true)|list",
                "join", "map('length')|sum"],
        "dict": ["groupby('k')|list", "groupby('k', case_sensitive=true)|map(attribute='list')|list", "groupby('v')|map('first')|list",
                 "sort(attribute='k')|map(attribute='v')|list", "sort(attribute='v', reverse=true)|list", "unique(attribute='k')|list",
                 "map(attribute='v')|list", "selectattr('v')|list", "rejectattr('v')|list", "sum(attribute='v')", "join(',', attribute='k')",
                 "min(attribute='v')", "max(attribute='k')", "first", "last", "list", "slice(2)|list", "batch(2)|list", "reverse|list", "length",
                 "groupby('k')|map(attribute='list')|map('length')|list", "groupby('name', default='-')|list|length"],
        "list": ["sum(start=[])", "map('sort')|list", "map('first')|list", "list", "first", "last", "sort", "reverse|list", "map('sum')|list",
                 "map('join')|join('/')", "slice(2)|list", "batch(2)|list", "unique|list", "join(';')", "map('reverse')|map('list')|list"],
    }
    DIRECT["obj"] = [f for f in DIRECT["dict"] if "name" not in f and f not in ("list", "first", "last", "slice(2)|list", "batch(2)|list", "reverse|list",
                                                                                  "selectattr('v')|list", "rejectattr('v')|list", "sort(attribute='v', reverse=true)|list", "unique(attribute='k')|list",
                                                                                  "groupby('k')|list", "min(attribute='v')", "max(attribute='k')")] + \
        ["selectattr('v')|map(attribute='k')|list", "groupby('k')|map('first')|list", "sort(attribute='k')|map(attribute='v')|join(',')"]

    def again(self, src, ty):
        """render the ORIGINAL variable again"""
        if ty in ("dict", "obj"):
            opts = ["{{ %s|map(attribute='k')|join(',') }}" % src, "{{ %s|map(attribute='v')|join(',') }}" % src, "{% for q in " + src + " %}{{ q.k }}{{ q.v }};{% endfor %}",
                    "{{ %s|length }}" % src, "{{ %s[0].v }}" % src, "{{ (%s|first).k }}" % src, "{{ %s|map(attribute='name')|join(',') }}" % src]
        elif ty == "list":
            opts = ["{{ %s|list }}" % src, "{{ %s }}" % src, "{{ %s|map('join', '.')|join(',') }}" % src, "{{ %s[0] }}" % src, "{{ %s|length }}" % src,
                    "{% for q in " + src + " %}{{ q }}{% endfor %}"]
        else:
            opts = ["{{ %s|list }}" % src, "{{ %s|join(',') }}" % src, "{{ %s }}" % src, "{% for q in " + src + " %}{{ q }},{% endfor %}", "{{ %s|length }}" % src,
                    "{{ %s[0] }}" % src, "{{ %s|first }}{{ %s|last }}" % (src, src)]
        return self.pick(opts)

    def reuse(self):
        """a filter applied to a context list, then the same variable again"""
        r = self.r
        self.feat.add("reuse-after-filter")
        src, ty = self.pick(self.REUSE_SOURCES)
        if r.random() < 0.6:
            use = "{{ %s|%s }}" % (src, self.pick(self.DIRECT[ty]))
        else:
            steps, t2 = [], ty
            for _ in range(r.randrange(0, 3)):
                st, t2 = self.producer(t2)
                steps.append(st)
            use = "{{ %s|%s }}" % (src + "".join("|" + x for x in steps), self.sink(t2, self.pick(["str", "int"])))
        return use + "|" + self.again(src, ty) + self.again(src, ty)

    def setmut(self):
        """`{% set ys = xs|<filter> %}`, mutation of ys through a method call, then the original"""
        self.feat.add("mutate-filter-result")
        src, ty = self.pick(self.REUSE_SOURCES)
        f = self.pick(["list", "list", "unique|list", "sort", "slice(2)|list", "batch(2)|list", "select|list", "map('string')|list" if ty == "int" else "list",
                       "groupby('k')" if ty in ("dict", "obj") else "list", "reverse|list", "groupby('k')|map(attribute='list')|first" if ty in ("dict", "obj") else "sort",
                       "first" if ty == "list" else "list", "last" if ty == "list" else "list", "map('list')|first" if ty == "list" else "list"])
        mut = self.pick(["{% if ys.pop is defined and ys %}{{ ys.pop() is defined }}{% endif %}", "{% if ys.append is defined %}{{ ys.append(1) }}{% endif %}",
                         "{% if ys.sort is defined %}{{ ys.sort() }}{% endif %}", "{% if ys.reverse is defined %}{{ ys.reverse() }}{% endif %}",
                         "{% if ys.clear is defined %}{% do ys.clear() %}{% endif %}", "{% if ys.insert is defined %}{% do ys.insert(0, 9) %}{% endif %}"])
        return "{% set ys = " + src + "|" + f + " %}" + mut + "|" + self.again(src, ty) + self.again(src, ty)

    # ---- block references as expressions ------------------------------------------------------------------------------
    def ref_uses(self, call):
        """`self.<block>()` / `super()` as plain output, operand of `~`, argument of |e / |string, set target"""
        r = self.r
        forms = ["{{ %s }}" % call, "{{ %s ~ '<&>' }}" % call, "{{ '<b>' ~ %s }}" % call, "{{ %s|e }}" % call, "{{ %s|string }}" % call,
                 "{%% set bt = %s %%}{{ bt }}{{ bt|e }}" % call, "{{ %s|upper }}" % call, "{{ %s ~ s }}" % call, "{{ [%s, '<i>']|join('&') }}" % call,
                 "{{ %s|length }}" % call, "{{ %s|escape|string ~ m }}" % call, "{{ (%s)|safe ~ '<' }}" % call]
        return "".join(self.pick(forms) for _ in range(r.randrange(1, 4)))

    def region(self, inner):
        """an autoescape region that may differ from the environment's setting"""
        k = self.r.random()
        if k < 0.4:
            return "{% autoescape true %}" + inner + "{% endautoescape %}"
        if k < 0.8:
            return "{% autoescape false %}" + inner + "{% endautoescape %}"
        if k < 0.9:
            return "{% autoescape b %}" + inner + "{% endautoescape %}"
        return inner

    def blockref(self):
        """a block whose body holds markup characters from data, then references to it as expressions"""
        self.feat.add("block-reference-expr")
        self.uid += 1
        name = "t%d" % self.uid
        body = self.pick(["<{{ s }}&{{ m }}>", "<a&b>{{ u }}", "{{ s }}", "{{ ms|join('&') }}<i>", "{{ m }}&amp;{{ s|e }}", "<p>{{ i }}</p>", "{{ s ~ '&' ~ u }}"])
        block = "{% block " + name + self.pick(["", " scoped"]) + " %}" + body + "{% endblock %}"
        if self.r.random() < 0.3:
            block = self.region(block)
        return block + self.region(self.ref_uses("self.%s()" % name)) + (self.ref_uses("self.%s()" % name) if self.r.random() < 0.3 else "")

    # ---- statements ---------------------------------------------------------------------------------------------
    def text(self):
        return self.pick(["x", "Hello ", "\n", "<p>", " & ", "ä", "1 2", "--", "  ", ";", "[", "]"])

    def out(self):
        return "{{ %s }}" % self.any_e()

    def elem_out(self, v, ty):
        """print a loop element of the given type"""
        if ty in ("dict", "obj"):
            return self.pick(["{{ %s.k }}:{{ %s.v }}" % (v, v), "{{ %s.v }}" % v, "{{ %s['k']|default('?') }}" % v, "{{ %s.name|default('') }}" % v])
        if ty == "pair":
            return self.pick(["{{ %s[0] }}={{ %s[1] }}" % (v, v), "{{ %s|join('=') }}" % v])
        if ty == "list":
            return self.pick(["{{ %s|join('.') }}" % v, "{{ %s|length }}" % v, "{% for q in " + v + " %}{{ q }}{% endfor %}"])
        if ty == "int":
            return self.pick(["{{ %s }}" % v, "{{ %s + 1 }}" % v, "{{ inc(%s) }}" % v, "{{ %s|string|center(3) }}" % v])
        return self.pick(["{{ %s }}" % v, "{{ %s|upper }}" % v, "{{ twice(%s) }}" % v, "{{ %s ~ '!' }}" % v])

    LOOP_ATTRS = ["loop.index", "loop.index0", "loop.revindex", "loop.revindex0", "loop.first", "loop.last", "loop.length",
                  "loop.previtem|default('P')", "loop.nextitem|default('N')", "loop.cycle('a', 'b', 'c')", "loop.changed(%s)", "loop.depth", "loop.depth0",
                  "loop.cycle(i, s)", "loop.changed(loop.index0 // 2)", "loop.nextitem is defined", "loop.previtem is defined"]

    def loop(self, d):
        r = self.r
        self.feat.add("for")
        it, ty = self.iterable()
        v = self.pick(["x", "y", "it"])
        target = v
        if ty == "pair" and r.random() < 0.5:
            target, ty2 = "pk, pv", "str"
            body_elem = "{{ pk }}={{ pv }}"
        else:
            body_elem = self.elem_out(v, ty)
        head = "{% for " + target + " in " + it
        if r.random() < 0.25:
            self.feat.add("for-filter")
            cond = {"int": self.pick([v + " is odd", v + " > 1", v + " != i", "inc(%s) is even" % v, "loop is undefined", v + " in xs"]),
                    "str": self.pick([v, v + " != 'a'", v + "|length > 1", "twice(%s) != 'aa'" % v]),
                    "dict": v + ".v", "obj": v + ".v > 1", "pair": "true", "list": v}.get(ty, "true")
            if "," in target:
                cond = "pv"
            head += " if " + cond
        body = body_elem
        nattr = r.randrange(0, 4)
        if nattr:
            self.feat.add("loop-attrs")
        for _ in range(nattr):
            a = self.pick(self.LOOP_ATTRS)
            if "%s" in a:
                a = a % (v if "," not in target else "pk")
            body += self.pick(["{{ %s }}", "[{{ %s }}]", "{%% if %s %%}!{%% endif %%}", "{{ %s }},"]) % a
        if d > 0 and r.random() < 0.5:
            body += self.body(d - 1)
        if "control" in self.f and r.random() < 0.12:
            self.feat.add("break/continue")
            body = self.pick(["{% if loop.index > 2 %}{% break %}{% endif %}", "{% if loop.index is odd %}{% continue %}{% endif %}",
                              "{% if loop.first %}{% continue %}{% endif %}"]) + body
        recursive = ty == "dict" and it in ("tree", "atree") or (r.random() < 0.06)
        if it in ("tree", "atree") or (ty == "dict" and r.random() < 0.1):
            recursive = True
        if recursive:
            self.feat.add("for-recursive")
            head += " recursive"
            if ty == "dict":
                body += "{% if " + v + ".children %}<{{ loop(" + v + ".children) }}>{% endif %}"
            elif ty == "list":
                body += "{{ loop(" + v + ") if " + v + " is iterable and " + v + " is not string }}"
        e = head + " %}" + body
        if r.random() < 0.3:
            self.feat.add("for-else")
            e += "{% else %}" + self.pick(["none", self.out(), "{{ loop is defined }}"])
        return e + "{% endfor %}"

    def tree_loop(self):
        self.feat.update(["for", "for-recursive"])
        src = self.pick(["tree", "atree", "atree"])
        if src == "atree":
            self.feat.add("aiter-var")
        return ("{% for nd in " + src + " recursive %}{{ nd.name }}" + self.pick(["", "@{{ loop.depth }}", "{{ loop.index }}/{{ loop.length }}", "{{ loop.last }}"])
                + "{% if nd.children %}(" + "{{ loop(nd.children) }}" + "){% endif %}{% else %}empty{% endfor %}")

    def macro_def(self, d):
        self.in_macro += 1
        try:
            return self._macro_def(d)
        finally:
            self.in_macro -= 1

    def _macro_def(self, d):
        r = self.r
        self.feat.add("macro")
        name = "m%d" % len(self.macros)
        kind = r.randrange(4)
        if kind == 0:
            sig, np, caller = "(p)", 1, False
            body = "[{{ p }}" + (self.body(d - 1) if d > 0 else "") + "]"
        elif kind == 1:
            sig, np, caller = "(p, q=%s)" % self.pick(["2", "i", "p", "inc(i)", "s|upper"]), 1, False
            body = "<{{ p }}{{ q }}{{ varargs|length }}{{ kwargs|length }}>"
        elif kind == 2:
            sig, np, caller = "(p)", 1, True
            body = "{{ p }}(" + self.pick(["{{ caller() }}", "{{ caller()|upper }}", "{{ caller() ~ caller() }}", "{% if caller %}{{ caller() }}{% endif %}"]) + ")"
        else:
            sig, np, caller = "(p, q=1)", 1, True
            body = "{% for z in " + self.pick(["xs", "ax", "mk(q)", "[p, q]"]) + " %}{{ caller(z) }}{% endfor %}"
            self.macros.append((name, np, "arg"))
            return "{% macro " + name + sig + " %}" + body + "{% endmacro %}"
        self.macros.append((name, np, caller))
        return "{% macro " + name + sig + " %}" + body + "{% endmacro %}"

    def macro_use(self, d):
        self.in_macro += 1
        try:
            return self._macro_use(d)
        finally:
            self.in_macro -= 1

    def _macro_use(self, d):
        r = self.r
        if not self.macros:
            return self._macro_def(d) + self._macro_use(d)
        name, np, caller = self.pick(self.macros)
        arg = self.any_e()
        if caller == "arg":
            self.feat.add("call-block")
            return "{% call(cz) " + name + "(" + arg + ") %}{{ cz }}" + self.pick(["", ";", self.out()]) + "{% endcall %}"
        if caller and r.random() < 0.8:
            self.feat.add("call-block")
            return "{% call " + name + "(" + arg + ") %}" + (self.body(d - 1) if d > 0 else self.text()) + "{% endcall %}"
        self.feat.add("macro-call")
        k = r.random()
        if k < 0.5:
            return "{{ " + name + "(" + arg + ") }}"
        if k < 0.65:
            return "{{ " + name + "(" + arg + ")|upper }}"
        if k < 0.8:
            return "{% set mv = " + name + "(" + arg + ") %}{{ mv }}{{ mv|length }}"
        if k < 0.9:
            return "{{ [" + name + "(1), " + name + "(2)]|join('+') }}"
        return "{{ " + name + "(" + arg + ", 5, 6, w=1) }}"

    def node(self, d):
        r = self.r
        kinds = ["text", "text", "out", "out", "out"]
        if d > 0:
            kinds += ["if", "if"]
            if "loops" in self.f:
                kinds += ["for", "for", "for", "tree"]
            if "sets" in self.f:
                kinds += ["set", "setblock", "with", "ns", "filterblock"]
            if "macros" in self.f:
                kinds += ["macro", "macro_use", "macro_use"]
            if "chains" in self.f:
                kinds += ["chain", "chain", "reuse", "reuse", "setmut"]
            if "autoescape" in self.f:
                kinds += ["autoescape"]
            if "blockrefs" in self.f and not self.in_macro:
                kinds += ["blockref", "blockref"]
            if "include" in self.f and "inc" in self.templates:
                kinds += ["include"]
            if "import" in self.f and "lib" in self.templates:
                kinds += ["import"]
        k = r.choice(kinds)
        if k == "text":
            return self.text()
        if k == "out":
            return self.out()
        if k == "chain":
            return "{{ %s }}" % self.chain(self.pick(["str", "str", "int"]))
        if k == "blockref":
            return self.blockref()
        if k == "reuse":
            return self.reuse()
        if k == "setmut":
            return self.setmut()
        if k == "if":
            self.feat.add("if")
            e = "{%% if %s %%}%s" % (self.bool_e(), self.body(d - 1))
            if r.random() < 0.3:
                e += "{%% elif %s %%}%s" % (self.bool_e(), self.body(d - 1))
            if r.random() < 0.5:
                e += "{% else %}" + self.body(d - 1)
            return e + "{% endif %}"
        if k == "for":
            return self.loop(d)
        if k == "tree":
            return self.tree_loop()
        if k == "set":
            self.feat.add("set")
            v = self.pick(["sv", "i", "s", "tv"])
            return "{%% set %s = %s %%}{{ %s }}" % (v, self.any_e(), v)
        if k == "setblock":
            self.feat.add("set-block")
            return "{% set sb" + self.pick(["", " | upper", " | trim | list | join('.')", " | length"]) + " %}" + self.body(d - 1) + "{% endset %}{{ sb }}"
        if k == "with":
            self.feat.add("with")
            return "{%% with w = %s, w2 = %s %%}{{ w }}{{ w2 }}%s{%% endwith %%}" % (self.any_e(), self.int_e(), self.body(d - 1))
        if k == "ns":
            self.feat.add("namespace")
            it, ty = self.iterable()
            return ("{% set ns = namespace(c=0, l=[]) %}{% for nx in " + it + " %}{% set ns.c = ns.c + 1 %}"
                    + self.pick(["", "{% do ns.l.append(loop.index) %}", "{% set ns.last = loop.last %}"]) + "{% endfor %}{{ ns.c }}{{ ns.l }}{{ ns.last|default('-') }}")
        if k == "filterblock":
            self.feat.add("filter-block")
            return "{%% filter %s %%}%s{%% endfilter %%}" % (self.pick(["upper", "trim", "e", "list|join('.')", "replace('a', 'b')", "first", "length", "center(9)|list|length"]),
                                                              self.body(d - 1))
        if k == "macro":
            return self.macro_def(d)
        if k == "macro_use":
            return self.macro_use(d)
        if k == "autoescape":
            self.feat.add("autoescape-block")
            return "{%% autoescape %s %%}%s{%% endautoescape %%}" % (self.pick(["true", "false", "b"]), self.body(d - 1))
        if k == "include":
            self.feat.add("include")
            return self.pick(["{% include 'inc' %}", "{% include 'inc' without context %}", "{% include ['nope', 'inc'] %}",
                              "{% include 'nope' ignore missing %}", "{% include 'nope' %}" if r.random() < 0.2 else "{% include 'inc' %}",
                              "{% include s ignore missing %}", "{% include 'inc' ignore missing with context %}"])
        if k == "import":
            self.feat.add("import")
            return self.pick(["{% import 'lib' as lib %}{{ lib.show(" + self.any_e() + ") }}", "{% from 'lib' import show %}{{ show(s) }}",
                              "{% from 'lib' import show as sh with context %}{{ sh(i) }}", "{% import 'lib' as lib with context %}{{ lib.show(1) }}{{ lib.const }}",
                              "{% from 'lib' import const, nothere %}{{ const }}{{ nothere is defined }}",
                              "{% import 'lib' as lib %}{% call lib.wrap() %}" + self.text() + "{% endcall %}"])
        raise AssertionError(k)

    def body(self, d):
        return "".join(self.node(d) for _ in range(self.r.randrange(1, 4)))

    def make(self, depth=3):
        """→ (templates, main, features)"""
        r = self.r
        self.templates, self.macros, self.feat = {}, [], set()
        if "import" in self.f and r.random() < 0.5:
            saved, self.f = self.f, self.f - {"include", "import", "extends", "macros"}
            lib = ("{% macro show(v) %}(" + self.body(1) + "{{ v }}){% endmacro %}{% set const = " + self.int_e() + " %}"
                   + "{% macro wrap() %}<{{ caller() }}>{% endmacro %}" + self.pick(["", "lib text", "{{ i }}"]))
            self.f = saved
            self.templates["lib"] = lib
        if "include" in self.f and r.random() < 0.5:
            saved, self.f = self.f, self.f - {"include", "extends"}
            mac, self.macros = self.macros, []
            self.templates["inc"] = "[inc:" + self.body(1) + "]"
            self.f, self.macros = saved, mac
        if "extends" in self.f and r.random() < 0.35:
            self.feat.add("extends")
            blocks = ["b1", "b2", "b3"][: r.randrange(1, 4)]
            mac, self.macros = self.macros, []
            base = self.body(1)
            for b in blocks:
                base += "{%% block %s%s %%}%s{%% endblock %%}%s" % (b, self.pick(["", "", " scoped"]), self.body(1), self.text())
            if r.random() < 0.3:
                base += "{% for bx in " + self.pick(["xs", "ax"]) + " %}{% block inloop scoped %}{{ bx }}{% endblock %}{% endfor %}"
                blocks = blocks + ["inloop"]
            if r.random() < 0.3:
                base += "{{ self.b1() }}"
            self.templates["base"] = base
            self.macros = []
            child = "{% extends " + self.pick(["'base'", "'base'", "'base' if true else 'x'", "['nope', 'base']|last"]) + " %}ignored"
            for b in blocks:
                if r.random() < 0.7:
                    inner = "{{ bx }}" if b == "inloop" else ""
                    child += "{%% block %s %%}%s%s%s{%% endblock %%}" % (b, self.pick(["", "{{ super() }}", "{{ super()|upper }}"]), inner, self.body(depth - 1))
            if r.random() < 0.2:
                self.templates["mid"] = child
                child = "{% extends 'mid' %}" + "".join("{%% block %s %%}{{ super() }}+%s{%% endblock %%}" % (b, self.text()) for b in blocks[:1])
            self.templates["main"] = child
            self.macros = mac
        else:
            self.templates["main"] = self.body(depth)
        return dict(self.templates), "main", set(self.feat)


# -----------------------------------------------------------------------------------------------------------------
# DESIGN F17: results of iterable-producing filters handed to consumers that have no async variant
# -----------------------------------------------------------------------------------------------------------------

PRODUCERS = ["map('string')", "select", "reject('none')", "selectattr('real', 'ge', 0)", "rejectattr('nope')"]
# arguments for filters that need them; a filter not listed is applied without arguments
FILTER_ARGS = {"batch": "(2)", "slice": "(2)", "join": "(',')", "attr": "('x')", "replace": "('1', 'x')", "format": "()", "round": "()",
               "truncate": "(5)", "indent": "()", "center": "(9)", "default": "('D')", "d": "('D')", "groupby": "('real')",
               "map": "('string')", "select": "('defined')", "reject": "('none')", "selectattr": "('real')", "rejectattr": "('nope')",
               "sum": "(start=0)", "wordwrap": "(5)", "dictsort": "()", "xmlattr": "()", "tojson": "()", "urlize": "()"}
KNOWN_NO_ARGS = {"abs", "capitalize", "count", "dictsort", "e", "escape", "filesizeformat", "first", "float", "forceescape", "int", "items",
                 "last", "length", "list", "lower", "max", "min", "pprint", "random", "reverse", "safe", "sort", "string", "striptags", "title",
                 "trim", "unique", "upper", "urlencode", "wordcount"}
TEST_ARGS = {"divisibleby": "(2)", "eq": "(1)", "==": "(1)", "equalto": "(1)", "ne": "(1)", "!=": "(1)", "lt": "(1)", "<": "(1)", "lessthan": "(1)",
             "le": "(1)", "<=": "(1)", "gt": "(1)", ">": "(1)", "greaterthan": "(1)", "ge": "(1)", ">=": "(1)", "in": "([[1]])", "sameas": "(1)"}
# how a filter's result is printed (a consumer may itself return an iterator)
POST = "|list|string"


def consumer_probes(filters, tests):
    """(consumer key, template source) for every registered filter and test applied to the result of every producer, plus
    the syntactic consumers (operators, star-arguments, callables, unpacking)"""
    out = []
    for p in PRODUCERS:
        base = "xs|" + p
        for name in sorted(filters):
            if not name.isidentifier():
                continue
            # a filter this table does not know (a new one) is tried with a few argument shapes
            for args in ([FILTER_ARGS[name]] if name in FILTER_ARGS else [""] if name in KNOWN_NO_ARGS else ["", "(2)", "('real')"]):
                out.append((name, "{%% set r = %s|%s%s %%}{{ r if r is string or r is number or r is mapping or r is undefined else (r|list|string) }}" % (base, name, args)))
        for name in sorted(tests):
            if not name.isidentifier():
                continue
            out.append(("test:" + name, "{{ (%s) is %s%s }}" % (base, name, TEST_ARGS.get(name, ""))))
        out += [
            ("operator:in", "{{ 2 in (%s) }}{{ '2' in (%s) }}" % (base, base)),
            ("operator:not-in", "{{ 5 not in (%s) }}" % base),
            ("test:in:container", "{{ '2' is in(%s) }}{{ 2 is in(%s) }}" % (base, base)),
            ("call:star-args", "{{ f0(*(%s)) }}" % base),
            ("call:argument:global", "{{ dict(ps|select) }}{{ joiner(%s) is defined }}" % base),
            ("call:argument:python-iterates", "{{ lst(%s) }}" % base),
            ("operator:truth", "{%% if %s %%}T{%% else %%}F{%% endif %%}" % base),
            ("operator:add", "{{ (%s) + [] }}" % base),
            ("subscript", "{{ (%s)[0] }}" % base),
            ("for", "{%% for x in %s %%}{{ x }},{%% endfor %%}" % base),
            ("for:loop.length", "{%% for x in %s %%}{{ loop.length }}{{ loop.last }},{%% endfor %%}" % base),
            ("for:unpack", "{% for a, b in ps|select %}{{ a }}{{ b }}{% endfor %}"),
            ("for:recursive", "{%% for x in %s recursive %%}{{ x }}{%% endfor %%}" % base),
            ("set-unpack", "{%% set a, b, c = %s %%}{{ a }}{{ b }}{{ c }}" % base),
            ("list-literal-star", "{{ [(%s)|list, 1] }}" % base),
        ]
    return out


PROBE_DATA = {"xs": [3, 1, 2], "ps": [[1, 2], [3, 4]], "f0": {"$fn": "f0"}, "lst": {"$fn": "lst"}}


def consumption_probes(variant_filters):
    """how much of a one-shot iterable a filter with an async variant consumes when only the first item of its result is
    taken: (filter name, template); `g` is a generator over [3, 1, 3, 2, 5, 4]"""
    out = []
    for name in sorted(variant_filters):
        args = FILTER_ARGS.get(name, "")
        if name == "groupby":
            args = "('real')"
        out.append((name, "{{ (g|%s%s|first) is defined }}|{{ g|list }}" % (name, args)))
        out.append((name, "{%% for x in g|%s%s %%}{{ x }}{%% break %%}{%% endfor %%}|{{ g|list }}" % (name, args)))
        out.append((name, "{%% set r = g|%s%s %%}{{ g|list }}" % (name, args)))          # the result is never iterated
    return out


CONSUMPTION_DATA = {"g": {"$aiter": [3, 1, 3, 2, 5, 4]}}
