"""Template generator for C30 (deterministic compilation): single templates that exercise every place where the compiler
or an extension keeps names in a `set` — many distinct names per construct so that different hash seeds really give
different iteration orders.  Everything derives from the `random.Random` passed in.

Features (counted in `TGen.hit`): tuple unpacking, branch stores in if/elif/else, nested loops (+else, filter, recursive,
loop vars), imports / from-imports, macros reading caller/varargs/kwargs, call blocks, many filters and tests, namespaces,
blocks (scoped, required, super, self), with, filter blocks, includes, set blocks, trans blocks with several variables
(i18n environments only), do / break / continue (extension environments only); and `distinct_stmt`: every construct whose
parts are visited in some order (call blocks with parameters and defaults, macros with defaults, for with filter / else /
recursive, with, filter blocks, set blocks with filters, if / elif / else, assignments, calls with * and **, slices, dict /
list / tuple literals, includes, imports, conditional expressions, scoped blocks in loops, trans blocks) with a DISTINCT
fresh free name in each part, so that the order of the emitted `resolve` lines pins the order of the visit.
"""
from __future__ import annotations

NAMES = ["alpha", "beta", "gamma", "delta", "eps", "zeta", "eta", "theta", "iota", "kappa", "lam", "mu", "nu", "xi", "omi",
         "pi", "rho", "sigma", "tau", "ups", "phi", "chi", "psi", "omega", "_priv", "_hid", "a1", "b2", "c3", "d4"]
FILTERS = ["upper", "lower", "trim", "e", "escape", "string", "list", "length", "first", "last", "capitalize", "title", "int",
           "float", "abs", "safe", "sort", "reverse", "unique", "striptags", "wordcount", "urlencode", "tojson", "count",
           "forceescape", "items", "max", "min", "pprint", "random", "round", "sum", "urlize", "xmlattr", "filesizeformat"]
FILTERS_ARG = ["default('x')", "join(', ')", "replace('a', 'b')", "truncate(5)", "center(9)", "indent(2)", "batch(2)",
               "attr('x')", "map('upper')", "select('odd')", "reject('none')", "selectattr('x')", "groupby('x')",
               "dictsort", "format(1)", "wordwrap(10)", "slice(2)"]
SYLL = ["ba", "ko", "zu", "mi", "te", "ra", "lo", "vy", "xe", "qi", "du", "fa", "gon", "hep", "jal", "nor", "pim", "sut", "wex", "yab"]
# filters whose result for a constant input is a generator / iterator / bound method (measured: every built-in filter that is
# not context-dependent, applied to the literals below, result checked with compiler.has_safe_repr)
LAZY_FILTERS = {"items", "batch", "slice", "attr", "unique", "reverse"}
# constant expressions that the optimizer used to fold into a string containing an object address (fixed: df6ea54)
ADDRESS_TEMPLATES = ["{{ [1, 2]|batch(2)|string }}", "{{ {'k': 1}|items|string }}", "{{ [1, 2, 3]|slice(2)|upper }}",
                     "{{ [1]|batch(1) ~ 'x' }}", "{{ 'a'.upper|string }}", "{{ 'a'|attr('upper')|string }}",
                     "{% set v = (1, 2)|batch(1)|string %}{{ v }}", "{{ [1, 1]|unique|string }}", "{{ [1, 2]|reverse|title }}"]
# fixed shapes: each part of each construct reads its own free name (see TGen.distinct_stmt for the random version)
DISTINCT_PART_TEMPLATES = [
    "{% call(item=fallback) m() %}{{ item }}{{ suffix }}{% endcall %}",
    "{% call(p=da, q=db) target(arg1, k=arg2) %}{{ p }}{{ bodya }}{{ q }}{{ bodyb }}{% endcall %}",
    "{% macro mm(p=da, q=db|default(dc)) %}{{ bodya }}{{ p }}{{ bodyb }}{% endmacro %}{{ mm(calla) }}",
    "{% for ta, tb in itera|default(iterb) if testa and testb recursive %}{{ bodya }}{{ loop(bodyb) }}{% else %}{{ elsea }}{{ elseb }}{% endfor %}",
    "{% with wa=va ~ vb, wb=vc, wc=vd %}{{ bodya }}{{ wa }}{{ bodyb }}{% endwith %}",
    "{% filter replace(fa, fb)|default(fc, boolean=fd) %}{{ bodya }}{{ bodyb }}{% endfilter %}",
    "{% set sb|replace(fa, fb)|default(fc) %}{{ bodya }}{{ bodyb }}{% endset %}{{ sb }}",
    "{% if ta and tb %}{{ ba }}{% elif tc is sameas(td) %}{{ bb }}{% elif te %}{{ bc }}{% else %}{{ bd }}{% endif %}",
    "{{ fn(pa, pb, k=ka, j=kb, *sa, **sb)|default(da, db) }}{{ xa[la:lb:lc] ~ {ka2: va2, kb2: vb2}[kc2] }}",
    "{% for x in seq %}{% block inner scoped %}{{ ba }}{{ x }}{{ bb }}{% endblock %}{% endfor %}",
    "{% include [ia, ib] ignore missing %}{% import ic as id %}{% from ie import a as alias %}{{ ca if cb else cc }}",
]
TESTS = ["defined", "undefined", "none", "odd", "even", "string", "number", "mapping", "iterable", "sequence", "callable",
         "lower", "upper", "true", "false", "boolean", "integer", "float", "filter", "test", "sameas(1)", "divisibleby(2)",
         "eq(1)", "ne(2)", "lt(3)", "gt(0)", "in([1])", "escaped"]


# ---------------------------------------------------------------------------------------------------------------------
# every registered filter / test applied to CONSTANT operands: the optimizer folds such calls at compile time, so whatever
# the filter computes (including the order in which it iterates a set or dict it builds) is written into the generated source
# ---------------------------------------------------------------------------------------------------------------------
CONST_OPERANDS = [
    "'see http://example.com/ and www.x.org now <b>&</b> mailto:a@b.cd tel:123'", "'hello World foo Bar'", "'%s and %s'",
    "42", "-3.75", "[3, 1, 2, 1]", "['b', 'A', 'c', 'a']",
    "[{'x': 2, 'y': 'b'}, {'x': 1, 'y': 'a'}, {'x': 2, 'y': 'c'}]",
    "{'b': 1, 'a': [1, 2], 'c': 'x y', 'class': 'k1 k2', 'id': none}", "(1, 'a')", "none", "true",
]
FILTER_ARGS = {
    "attr": ["'x'", "'upper'"], "batch": ["2", "2, 'f'"], "center": ["20"], "default": ["'x'", "'x', true"], "d": ["'x'"],
    "dictsort": ["", "true, 'value'", "reverse=true"], "format": ["1, 2"], "groupby": ["'x'", "'y', default='z'", "0"],
    "indent": ["2", "2, true, true"], "join": ["','", "'-', 'x'"], "map": ["'upper'", "attribute='x'", "'string'"],
    "max": ["", "attribute='x'"], "min": ["", "attribute='x'"], "reject": ["'odd'", "'string'", ""],
    "select": ["'odd'", "'string'", ""], "rejectattr": ["'x'", "'x', 'odd'"], "selectattr": ["'x'", "'y', 'equalto', 'a'"],
    "replace": ["'o', '0'", "'o', '0', 1"], "round": ["1", "1, 'floor'"], "slice": ["2", "2, 'f'"],
    "sort": ["", "true", "attribute='x'", "case_sensitive=true"], "sum": ["", "attribute='x'", "start=10"],
    "tojson": ["", "2"], "truncate": ["5", "9, true, '..', 0"], "unique": ["", "true", "attribute='x'"],
    "urlize": ["", "nofollow=true", "rel='external ugc me'", "40, true, target='_blank', rel='a b c d'",
               "extra_schemes=['tel:', 'x:'], nofollow=true, rel='me'"],
    "wordwrap": ["7", "7, false"], "xmlattr": ["", "false"], "trim": ["", "'x'"], "int": ["", "5", "0, 16"],
    "float": ["", "1.5"], "filesizeformat": ["", "true"], "first": [""], "last": [""],
}
TEST_ARGS = {"divisibleby": ["2"], "sameas": ["none"], "in": ["[1, 'a', 42]"], "eq": ["42"], "equalto": ["42"], "==": ["42"],
             "ne": ["1"], "!=": ["1"], "lt": ["5"], "<": ["5"], "lessthan": ["5"], "le": ["5"], "<=": ["5"], "gt": ["5"],
             ">": ["5"], "greaterthan": ["5"], "ge": ["5"], ">=": ["5"]}


def const_fold_templates(filter_names, test_names):
    """[(kind, name, template)]: one small template per (filter, argument combination) / per test with every constant operand"""
    out = []
    for f in sorted(filter_names):
        for args in FILTER_ARGS.get(f, [""]):
            call = "%s(%s)" % (f, args) if args else f
            body = "".join("{{ %s|%s }}\n{{ (%s|%s)|list|string }}\n" % (op, call, op, call) for op in CONST_OPERANDS)
            out.append(("filter", f, body))
    for t in sorted(test_names):
        if not t.isidentifier():
            continue   # operator spellings (==, <, ...) are reachable as `is eq` etc.
        for args in TEST_ARGS.get(t, [""]):
            call = "%s(%s)" % (t, args) if args else t
            out.append(("test", t, "".join("{{ %s is %s }}\n" % (op, call) for op in CONST_OPERANDS)))
    return out


class TGen:
    def __init__(self, rng, i18n=False, ext=False, depth=3):
        self.r = rng
        self.i18n = i18n
        self.ext = ext
        self.depth = depth
        self.nblock = 0
        self.nmacro = 0
        self.hit = {}
        self.in_loop = 0
        self.in_block = 0
        self.in_macro = 0

    def h(self, k):
        self.hit[k] = self.hit.get(k, 0) + 1

    def name(self):
        return self.r.choice(NAMES)

    def fresh(self):
        """a free name that occurs nowhere else in the template: wherever it is read first decides its place in the frame's
        `loads`, hence the position of its `l_N_x = resolve('x')` line in the generated source"""
        self.nfresh = getattr(self, "nfresh", 0) + 1
        return "%s%s%d" % (self.r.choice(SYLL), self.r.choice(SYLL), self.nfresh)

    def distinct_stmt(self, d):
        """a construct whose sub-parts (target / args / defaults / iter / test / body / else / filter arguments ...) are reached
        through iter_child_nodes / iter_fields or visited one after the other by the symbol visitor, each part reading its OWN
        fresh free names: any change in the order of the visit reorders the emitted resolve lines"""
        r, F = self.r, self.fresh
        kinds = ["call", "call", "macro", "for", "with", "filterblock", "setblock", "if", "assign", "callexpr", "getitem",
                 "include", "condexpr", "scopedblock"]
        if self.i18n:
            kinds += ["trans", "trans"]
        k = r.choice(kinds)
        self.h("distinct:" + k)
        inner = self.distinct_stmt(d - 1) if d > 0 and r.random() < 0.4 else ""
        if k == "call":
            ps = ["p%d" % i for i in range(r.randrange(1, 4))]
            return "{%% call(%s) %s(%s, k=%s) %%}{{ %s }}{{ %s }}%s{{ %s }}{%% endcall %%}" % (
                ", ".join("%s=%s" % (p, F()) for p in ps), F(), F(), F(), ps[0], F(), inner, F())
        if k == "macro":
            self.nmacro += 1
            ps = ["p%d" % i for i in range(r.randrange(1, 4))]
            return "{%% macro dm%d(%s) %%}{{ %s }}{{ %s }}%s{{ %s }}{%% endmacro %%}{{ dm%d(%s) }}" % (
                self.nmacro, ", ".join("%s=%s|default(%s)" % (p, F(), F()) for p in ps), F(), ps[-1], inner, F(), self.nmacro, F())
        if k == "for":
            t1, t2 = F(), F()
            e = "{%% for %s, %s in %s|default(%s)" % (t1, t2, F(), F())
            if r.random() < 0.7:
                e += " if %s and %s is defined" % (F(), t1)
            if r.random() < 0.3:
                e += " recursive"
            e += " %%}{{ %s }}{{ %s }}%s{{ loop.index if %s else %s }}" % (F(), t2, inner, F(), F())
            if r.random() < 0.7:
                e += "{%% else %%}{{ %s }}{{ %s }}" % (F(), F())
            return e + "{% endfor %}"
        if k == "with":
            ws = ["w%d" % i for i in range(r.randrange(2, 5))]
            return "{%% with %s %%}{{ %s }}%s{{ %s }}{%% endwith %%}" % (
                ", ".join("%s=%s ~ %s" % (w, F(), F()) for w in ws), F(), inner, ws[0])
        if k == "filterblock":
            return "{%% filter replace(%s, %s)|default(%s, boolean=%s)|center(%s) %%}{{ %s }}%s{{ %s }}{%% endfilter %%}" % (
                F(), F(), F(), F(), F(), F(), inner, F())
        if k == "setblock":
            return "{%% set sb%d|replace(%s, %s)|default(%s) %%}{{ %s }}%s{{ %s }}{%% endset %%}" % (
                r.randrange(9), F(), F(), F(), F(), inner, F())
        if k == "if":
            return "{%% if %s and %s %%}{{ %s }}%s{%% elif %s is sameas(%s) %%}{{ %s }}{%% elif %s %%}{{ %s }}{%% else %%}{{ %s }}{%% endif %%}" % (
                F(), F(), F(), inner, F(), F(), F(), F(), F(), F())
        if k == "assign":
            return "{%% set %s, %s = %s, %s %%}{%% set %s.attr = %s[%s] %%}" % (F(), F(), F(), F(), F(), F(), F())
        if k == "callexpr":
            return "{{ %s(%s, %s, k=%s, j=%s, *%s, **%s)|default(%s, %s) }}" % (F(), F(), F(), F(), F(), F(), F(), F(), F())
        if k == "getitem":
            return "{{ %s[%s:%s:%s] ~ {%s: %s, %s: %s}[%s] ~ [%s, %s] ~ (%s, %s) }}" % tuple(F() for _ in range(13))
        if k == "include":
            return r.choice(["{%% include [%s, %s] ignore missing %%}", "{%% import %s as %s %%}", "{%% from %s import a as %s %%}"]) % (F(), F())
        if k == "condexpr":
            return "{{ %s if %s else %s }}{{ %s if %s }}{{ %s < %s <= %s }}{{ %s is divisibleby(%s) }}" % tuple(F() for _ in range(10))
        if k == "scopedblock":
            if self.in_macro:
                return "{{ %s }}" % F()
            self.nblock += 1
            nb = self.nblock
            return "{%% for %s in %s %%}{%% block blk%d scoped %%}{{ %s }}%s{{ %s }}{%% endblock %%}{%% endfor %%}" % (
                F(), F(), nb, F(), inner, F())
        if k == "trans":
            v1, v2 = F(), F()
            return ("{%% trans %s=%s, %s=%s|default(%s) %%}{{ %s }} {{ %s }} {{ %s }}{%% pluralize %s %%}{{ %s }} {{ %s }} {{ %s }}{%% endtrans %%}"
                    % (v1, F(), v2, F(), F(), v1, F(), F(), v1, F(), v2, F()))
        raise AssertionError(k)

    def names(self, lo, hi):
        n = self.r.randint(lo, hi)
        return self.r.sample(NAMES, n)

    def atom(self):
        r = self.r
        c = r.randrange(10)
        self.literal = False
        if c < 6:
            return self.name()
        if c < 7:
            self.literal = True
            return str(r.randrange(5))
        if c < 8:
            self.literal = True
            return r.choice(["'s'", "[1, 2]", "{'k': 1}", "(1, 2)", "none", "true"])
        if c < 9:
            return "%s.%s" % (self.name(), r.choice(["x", "y", "items"]))
        return "%s[%s]" % (self.name(), r.choice(["0", "'k'", self.name()]))

    def expr(self, d=2):
        r = self.r
        e = self.atom()
        lit = self.literal
        for _ in range(r.randrange(0, 4)):
            f = r.choice(FILTERS) if r.random() < 0.75 else r.choice(FILTERS_ARG)
            if lit and f.split("(")[0] in LAZY_FILTERS:
                self.h("lazy-filter-on-literal")
            e += "|" + f
            self.h("filter")
        c = r.randrange(12)
        if d > 0:
            if c == 0:
                e = "%s if %s else %s" % (e, self.cond(d - 1), self.expr(d - 1))
            elif c == 1:
                e = "%s %s %s" % (e, r.choice(["+", "~", "-", "*", "//", "%"]), self.expr(d - 1))
            elif c == 2:
                e = "%s(%s)" % (self.name(), ", ".join([self.expr(0) for _ in range(r.randrange(3))]
                                                       + ["%s=%s" % (n, self.expr(0)) for n in self.names(0, 2)]))
            elif c == 3:
                e = "[%s]" % ", ".join(self.expr(d - 1) for _ in range(r.randrange(1, 4)))
            elif c == 4:
                e = "(%s)|%s" % (e, r.choice(FILTERS))
        return e

    def cond(self, d=1):
        r = self.r
        parts = []
        for _ in range(r.randrange(1, 4)):
            c = r.randrange(4)
            if c < 2:
                self.h("test")
                parts.append("%s is %s%s" % (self.atom(), r.choice(["", "not "]), r.choice(TESTS)))
            elif c == 2:
                parts.append("%s %s %s" % (self.atom(), r.choice(["==", "!=", "<", ">=", "in", "not in"]), self.atom()))
            else:
                parts.append(self.expr(0))
        out = parts[0]
        for p in parts[1:]:
            out += " %s %s" % (r.choice(["and", "or"]), p)
        return out

    def text(self):
        return self.r.choice(["x", "Hello ", "\n", "<p>", " & ", "-- ", "  ", "% ", "} ", "1 2"])

    def set_stmt(self):
        r = self.r
        c = r.randrange(6)
        if c == 0:
            ns = self.names(2, 5)
            self.h("tuple-unpack")
            return "{%% set %s = %s %%}" % (", ".join(ns), ", ".join(self.expr(0) for _ in ns))
        if c == 1:
            self.h("set-block")
            return "{%% set %s %%}%s{%% endset %%}" % (self.name(), self.body(0))
        if c == 2:
            self.h("namespace")
            n = self.name()
            return "{%% set %s = namespace(%s) %%}{%% set %s.%s = %s %%}" % (
                n, ", ".join("%s=%s" % (k, self.expr(0)) for k in self.names(0, 3)), n, r.choice(["x", "cnt"]), self.expr(0))
        if c == 3:
            self.h("nsref-tuple")
            n, m = self.names(2, 2)
            return "{%% set %s.a, %s, %s.b = 1, 2, 3 %%}" % (n, m, n)
        return "".join("{%% set %s = %s %%}" % (n, self.expr(1)) for n in self.names(1, 4))

    def stmt(self, d):
        r = self.r
        kinds = ["text", "var", "var", "set", "set"]
        if d > 0:
            kinds += ["if", "if", "for", "for", "macro", "call", "with", "filterblock", "import", "fromimport", "include",
                      "block", "autoescape"]
            if self.i18n:
                kinds += ["trans", "trans", "trans"]
            if self.ext:
                kinds += ["do"]
                if self.in_loop:
                    kinds += ["loopctl"]
        if d > 0 and r.random() < 0.25:
            return self.distinct_stmt(d - 1)
        k = r.choice(kinds)
        if k == "text":
            return self.text()
        if k == "var":
            return "{{ %s }}" % self.expr()
        if k == "set":
            return self.set_stmt()
        if k == "if":
            self.h("if-branches")
            e = "{%% if %s %%}%s" % (self.cond(), self.branch_body(d - 1))
            for _ in range(r.randrange(0, 3)):
                e += "{%% elif %s %%}%s" % (self.cond(), self.branch_body(d - 1))
            if r.random() < 0.6:
                e += "{% else %}" + self.branch_body(d - 1)
            return e + "{% endif %}"
        if k == "for":
            self.h("for")
            tgt = ", ".join(self.names(1, 3))
            it = self.expr(0)
            head = "{%% for %s in %s" % (tgt, it)
            if r.random() < 0.3:
                head += " if %s" % self.cond(0)
            if r.random() < 0.2:
                head += " recursive"
            self.in_loop += 1
            inner = self.body(d - 1) + r.choice(["", "{{ loop.index }}", "{{ loop.cycle(1, 2) }}", "{{ loop(%s) }}" % self.name()])
            inner += self.set_stmt() if r.random() < 0.6 else ""
            self.in_loop -= 1
            e = head + " %}" + inner
            if r.random() < 0.3:
                e += "{% else %}" + self.body(d - 1)
            return e + "{% endfor %}"
        if k == "macro":
            self.h("macro")
            self.nmacro += 1
            params = self.names(0, 3)
            ndef = r.randrange(len(params) + 1)
            sig = ", ".join(p if i < len(params) - ndef else "%s=%s" % (p, self.expr(0)) for i, p in enumerate(params))
            special = "".join(r.sample(["{{ caller() }}", "{{ varargs }}", "{{ kwargs }}", "{{ caller }}", ""], r.randrange(0, 4)))
            if r.random() < 0.15:
                sig = (sig + ", " if sig else "") + r.choice(["caller=none", "varargs=1", "kwargs=2"])
            self.in_macro += 1
            b = self.body(d - 1)
            self.in_macro -= 1
            return "{%% macro m%d(%s) %%}%s%s{%% endmacro %%}{{ m%d(%s) }}" % (
                self.nmacro, sig, special, b, self.nmacro, ", ".join(self.expr(0) for _ in range(r.randrange(3))))
        if k == "call":
            self.h("call-block")
            args = "(%s)" % ", ".join(self.names(1, 3)) if r.random() < 0.5 else ""
            return "{%% call%s %s(%s) %%}%s{%% endcall %%}" % (args, self.name(), self.expr(0), self.body(d - 1))
        if k == "with":
            self.h("with")
            return "{%% with %s %%}%s{%% endwith %%}" % (
                ", ".join("%s=%s" % (n, self.expr(0)) for n in self.names(1, 4)), self.body(d - 1))
        if k == "filterblock":
            self.h("filter-block")
            return "{%% filter %s %%}%s{%% endfilter %%}" % ("|".join(r.sample(FILTERS, r.randrange(1, 4))), self.body(d - 1))
        if k == "import":
            self.h("import")
            n = self.name()
            return "{%% import %s as %s%s %%}{{ %s.%s(%s) }}" % (r.choice(["'lib'", "libname", "['a', 'b']|first"]), n,
                                                                 r.choice(["", " with context", " without context"]), n,
                                                                 self.name(), self.expr(0))
        if k == "fromimport":
            self.h("from-import")
            ns = [n for n in self.names(1, 5) if not n.startswith("_")] or ["alpha"]
            items = ", ".join(n if r.random() < 0.6 else "%s as %s" % (n, self.name()) for n in ns)
            return "{%% from 'lib' import %s%s %%}" % (items, r.choice(["", " with context"]))
        if k == "include":
            self.h("include")
            return r.choice(["{% include 'inc' %}", "{% include 'inc' without context %}", "{% include ['nope', 'inc'] %}",
                             "{% include 'nope' ignore missing %}", "{%% include %s ignore missing with context %%}" % self.name()])
        if k == "block":
            if self.in_macro:
                return self.text()
            self.h("block")
            self.nblock += 1
            nb = self.nblock
            mods = r.choice(["", " scoped", " required", " scoped required"]) if r.random() < 0.5 else ""
            self.in_block += 1
            inner = self.body(d - 1) + r.choice(["", "{{ super() }}", "{{ self.blk%d() }}" % nb, "{{ super.super() }}"])
            self.in_block -= 1
            if "required" in mods:
                inner = " "
            return "{%% block blk%d%s %%}%s{%% endblock %%}" % (nb, mods, inner)
        if k == "autoescape":
            return "{%% autoescape %s %%}%s{%% endautoescape %%}" % (r.choice(["true", "false", self.name()]), self.body(d - 1))
        if k == "trans":
            return self.trans()
        if k == "do":
            self.h("do")
            return "{%% do %s.append(%s) %%}" % (self.name(), self.expr(0))
        if k == "loopctl":
            self.h("loopctl")
            return "{%% if %s %%}{%% %s %%}{%% endif %%}" % (self.cond(0), r.choice(["break", "continue"]))
        raise AssertionError(k)

    def trans(self):
        r = self.r
        free = self.names(1, 5)
        explicit = self.names(0, 3)
        self.h("trans")
        if len(set(free) - set(explicit)) >= 2:
            self.h("trans-multi-free")
        head = []
        if r.random() < 0.3:
            head.append(r.choice(["trimmed", "notrimmed"]))
        for n in explicit:
            head.append(n if r.random() < 0.3 else "%s=%s" % (n, self.expr(0)))
        if r.random() < 0.3:
            head.insert(0, "'ctx'")
        # a context string must be followed by a comma only if variables follow; keep it simple: context first, space separated
        ctx = ""
        if head and head[0] == "'ctx'":
            ctx = " 'ctx'"
            head = head[1:]
        # `trimmed` is not followed by a comma in the real grammar when it comes first; put it first
        mods = [h for h in head if h in ("trimmed", "notrimmed")]
        vs = [h for h in head if h not in ("trimmed", "notrimmed")]
        hs = ctx + (" " + mods[0] if mods else "") + (" " + ", ".join(vs) if vs else "")
        used = free + [n for n in explicit if r.random() < 0.7]
        r.shuffle(used)
        body = " ".join("{{ %s }}" % n for n in used) + r.choice(["", " text", " 100%"])
        out = "{%% trans%s %%}%s" % (hs, body)
        if r.random() < 0.4:
            pl = self.names(0, 3) + used[:2]
            out += "{%% pluralize%s %%}%s" % (r.choice(["", " " + r.choice(explicit)]) if explicit else "",
                                             " ".join("{{ %s }}" % n for n in pl) + " many")
            self.h("trans-plural")
        return out + "{% endtrans %}"

    def branch_body(self, d):
        """body of an if branch: biased towards stores so that branch_update has several new names to write"""
        out = self.body(d)
        if self.r.random() < 0.8:
            out += self.set_stmt()
        if self.r.random() < 0.3:
            out += self.set_stmt()
        return out

    def body(self, d):
        return "".join(self.stmt(d) for _ in range(self.r.randrange(1, 4)))

    def template(self):
        r = self.r
        head = ""
        if r.random() < 0.25:
            self.h("extends")
            head = r.choice(["{% extends 'base' %}", "{%% extends %s %%}" % self.name(),
                             "{% if " + self.cond(0) + " %}{% extends 'base' %}{% endif %}"])
        return head + "".join(self.stmt(self.depth) for _ in range(r.randrange(2, 6)))
