"""Grammar-based generator of small template *sets* (DictLoader mappings) with data.

Used by the end-to-end layers of several properties.  Everything derives from the
`random.Random` passed in.  The feature set is selectable so that each property can
keep to the minimal features it needs (DESIGN §2.7).
"""
from __future__ import annotations

VARS = ["a", "b", "c", "items", "name"]


class TG:
    def __init__(self, rng, features=None, depth=3):
        self.r = rng
        self.f = features or {"if", "for", "set", "macro", "include", "import", "extends", "filter", "empty", "call", "with"}
        self.depth = depth
        self.templates = {}

    def text(self):
        return self.r.choice(["x", "Hello ", "\n", "<p>", " & ", "äö", "1 2", "--", "  "])

    def expr(self):
        r = self.r
        c = r.randrange(10)
        if c < 3:
            return r.choice(VARS[:3] + ["name"])
        if c < 4 and "empty" in self.f:
            return r.choice(["''", "missing", "none_v", "missing.attr"])
        if c < 6 and "filter" in self.f:
            return r.choice(["name|upper", "a|default('d')", "items|length", "items|join(',')", "name|e", "b|string|center(5)"])
        if c < 7:
            return r.choice(["a + 1", "b ~ name", "a if b else c", "items[0]", "[a, b]|length"])
        return r.choice(["a", "name", "c"])

    def node(self, d):
        r = self.r
        kinds = ["text", "text", "var", "var"]
        if d > 0:
            for k in ("if", "for", "set", "with", "filterblock"):
                if k in self.f or (k == "filterblock" and "filter" in self.f):
                    kinds.append(k)
            if "macro" in self.f:
                kinds.append("macro")
            if "include" in self.f and self.templates.get("inc") is not None:
                kinds.append("include")
            if "import" in self.f and self.templates.get("lib") is not None:
                kinds.append("import")
            if "call" in self.f:
                kinds.append("call")
        k = r.choice(kinds)
        if k == "text":
            return self.text()
        if k == "var":
            return "{{ %s }}" % self.expr()
        if k == "if":
            e = "{%% if (%s) %%}%s" % (self.expr(), self.body(d - 1))  # parenthesised: `if` takes no bare conditional expression
            if r.random() < 0.5:
                e += "{% else %}" + self.body(d - 1)
            return e + "{% endif %}"
        if k == "for":
            inner = self.body(d - 1) + r.choice(["{{ x }}", "{{ loop.index }}", ""])
            e = "{%% for x in %s %%}%s" % (r.choice(["items", "[1, 2]", "[]", "range(3)"]), inner)
            if r.random() < 0.3:
                e += "{% else %}none"
            return e + "{% endfor %}"
        if k == "set":
            return self.set_stmt(d)
        if k == "with":
            return "{%% with w = %s %%}{{ w }}%s{%% endwith %%}" % (self.expr(), self.body(d - 1))
        if k == "filterblock":
            return "{%% filter %s %%}%s{%% endfilter %%}" % (r.choice(["upper", "trim", "e"]), self.body(d - 1))
        if k == "macro":
            n = "m%d" % r.randrange(3)
            return "{%% macro %s(p, q=2) %%}[{{ p }}{{ q }}%s]{%% endmacro %%}{{ %s(%s) }}" % (
                n, self.body(d - 1), n, self.expr())
        if k == "call":
            return ("{% macro wrap(t) %}<{{ t }}{{ caller() }}>{% endmacro %}"
                    + "{%% call wrap(%s) %%}%s{%% endcall %%}" % (self.expr(), self.body(d - 1)))
        if k == "include":
            return r.choice(["{% include 'inc' %}", "{% include 'inc' without context %}",
                             "{% include ['nope', 'inc'] %}", "{% include 'nope' ignore missing %}"])
        if k == "import":
            return r.choice(["{% import 'lib' as lib %}{{ lib.show(a) }}", "{% from 'lib' import show %}{{ show(name) }}",
                             "{% from 'lib' import show as s with context %}{{ s(b) }}"])
        raise AssertionError(k)

    def set_stmt(self, d):
        r = self.r
        c = r.randrange(10)
        if c < 4:
            return "{%% set %s = %s %%}" % (r.choice(["a", "b", "t"]), self.expr())
        if c < 6:
            # tuple targets mixing exported and private (underscore) names: what a module exports is bookkeeping of its own
            tg = r.choice(["label, _hidden", "_h, lab", "t, u", "_p, _q", "first, _r, last"])
            n = tg.count(",") + 1
            return "{%% set %s = [%s] %%}{{ %s }}" % (tg, ", ".join(self.expr() for _ in range(n)), tg.split(",")[r.randrange(n)].strip())
        if c < 7:
            return "{%% set _priv = %s %%}{{ _priv }}" % self.expr()
        if c < 9:
            return "{%% set %s %%}%s{%% endset %%}{{ %s }}" % (("t",) + (self.body(d - 1) if d > 0 else self.text(), "t"))
        return "{% set ns = namespace(k=1) %}{% set ns.k = ns.k + 1 %}{{ ns.k }}"

    def body(self, d):
        return "".join(self.node(d) for _ in range(self.r.randrange(1, 4)))

    def make_set(self):
        """returns (templates, main template name)"""
        r = self.r
        self.templates = {}
        self.templates["lib"] = None
        self.templates["inc"] = None
        if "import" in self.f:
            saved = self.f
            self.f = self.f - {"include", "import", "extends", "macro", "call"}
            self.templates["lib"] = "{% macro show(v) %}(" + self.body(1) + "{{ v }}){% endmacro %}" + r.choice(["", "lib text"])
            self.f = saved
        if "include" in self.f:
            saved = self.f
            self.f = self.f - {"include", "extends"}
            self.templates["inc"] = "[inc:" + self.body(1) + "]"
            self.f = saved
        self.templates = {k: v for k, v in self.templates.items() if v is not None}
        self.templates.setdefault("inc", "[inc]")
        self.templates.setdefault("lib", "{% macro show(v) %}({{ v }}){% endmacro %}")
        if "extends" in self.f and r.random() < 0.5:
            blocks = ["b1", "b2", "b3"][: r.randrange(1, 4)]
            self.templates["base"] = self.body(1) + "".join(
                "{%% block %s %%}%s{%% endblock %%}%s" % (b, self.body(1), self.text()) for b in blocks)
            child = "{% extends 'base' %}" + "ignored text"
            for b in blocks:
                if r.random() < 0.7:
                    child += "{%% block %s %%}%s%s{%% endblock %%}" % (
                        b, r.choice(["", "{{ super() }}"]), self.body(self.depth - 1))
            self.templates["main"] = child
        else:
            self.templates["main"] = self.body(self.depth)
        if "set" in self.f and r.random() < 0.6:
            # top-level assignments (they decide what the template exports as a module)
            pre = "".join(self.set_stmt(1) for _ in range(r.randrange(1, 3)))
            if self.templates["main"].startswith("{% extends"):
                i = self.templates["main"].index("%}") + 2
                self.templates["main"] = self.templates["main"][:i] + pre + self.templates["main"][i:]
            else:
                self.templates["main"] = pre + self.templates["main"]
        return dict(self.templates), "main"

    def data(self):
        r = self.r
        return {
            "a": r.choice([0, 1, 7, "", "s"]),
            "b": r.choice([True, False, 3, "<b>"]),
            "c": r.choice(["see", 0, None]),
            "items": r.choice([[], [1], [1, 2, 3], ["x", "", "y"]]),
            "name": r.choice(["world", "", "<i>"]),
            "none_v": None,
        }
