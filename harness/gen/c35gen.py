"""C35 — generator of multi-line template sets with exactly one *site* (a raising call or a malformed construct)
placed at a random line inside random nesting.

Every tag is built from *pieces* (tokens) joined by random whitespace (blanks, tabs, line breaks), so a tag may span
several lines.  For the site the generator records the offset of its *anchor* piece: the token whose line the
property expects in the error —
  * block tags: the tag keyword (`if`, `for`, `set`, `include`, `call`, `filter`, `with`, `macro`, ...), because the
    parser gives the statement node the line of that token and the compiler announces the statement node;
  * `{% elif E %}`: the first token of `E` (the parser creates the nested `If` after consuming `elif`);
  * `{{ E }}` and `{% for … if E %}`: the token that carries the line of `E`'s top node (for `boom()` the `(`,
    for `a + boom()` the `a`, for `boom()|f` the `f`, …): debug info is recorded per statement/expression node;
  * malformed constructs: the offending token.
All sources are produced with `\n` line breaks; the runner converts them to the line-break style under test.
"""
from __future__ import annotations

WORDS = ["lorem", "ipsum", "<p>x</p>", "é", "a b", "T.", "1,2", "x-y", "(z)"]


class Site:
    def __init__(self):
        self.template = None     # name of the template that holds the site
        self.offset = None       # offset of the anchor token in that template's source
        self.kind = None         # leaf kind
        self.form = None         # expression / malformed form
        self.containers = []     # nesting path, outermost first
        self.multiline = False   # the site's tag contains a line break
        self.anchor_on_first_line = True
        self.truncate = None     # (template, offset): cut the template here (unterminated constructs)
        self.lexer_level = False
        self.eof = False


class TB:
    """builder of one template's source"""

    def __init__(self, name, minus_ends=()):
        self.name = name
        self.parts = []
        self.len = 0
        self.last = "\n"
        self.minus_ends = tuple(minus_ends)
        self.minus_pending = False      # only whitespace since a tag that ended with a `-` sign

    def emit(self, s):
        if s:
            self.parts.append(s)
            self.len += len(s)
            self.last = s[-1]
            if s.endswith(self.minus_ends):
                self.minus_pending = True
            elif s.strip():
                self.minus_pending = False

    def source(self):
        return "".join(self.parts)


class Gen:
    def __init__(self, rng, cfg, mode="runtime", max_depth=3, forms=None):
        self.rng = rng
        self.c = cfg
        self.mode = mode                      # "runtime" | "syntax" | "plain"
        self.max_depth = max_depth
        self.site = Site()
        self.templates = {}                   # name -> TB
        self.order = []
        self.n = 0
        self.forced_leaf = forms
        self.dollar = cfg["variable_end_string"] == "}"

    # ------------------------------------------------------------------ helpers
    def uid(self, p):
        self.n += 1
        return f"{p}{self.n}"

    def ws(self, multi=True, empty_ok=False):
        r = self.rng
        if multi and r.random() < 0.3:
            return r.choice(["\n", " \n  ", "\n\n", "\n ", " \n", "\t\n\t"])
        if empty_ok and r.random() < 0.5:
            return ""
        return r.choice([" ", " ", " ", "  ", "\t"])

    TIGHT_BEFORE = {"(", ")", "[", "]", ".", ",", "|", ":"}
    TIGHT_AFTER = {"(", "[", ".", "|"}

    def join(self, pieces, multi, anchor=None):
        """joins pieces with random whitespace; returns (text, offset of pieces[anchor] or None, has line break)"""
        out, off = [], None
        pos = 0
        for i, p in enumerate(pieces):
            if i:
                tight = p in self.TIGHT_BEFORE or pieces[i - 1] in self.TIGHT_AFTER
                w = self.ws(multi, empty_ok=tight)
                out.append(w)
                pos += len(w)
            if i == anchor:
                off = pos
            out.append(p)
            pos += len(p)
        t = "".join(out)
        return t, off, "\n" in t

    def tag(self, tb, kind, pieces, anchor=None, multi=None, linestmt_ok=True):
        """emit one tag; returns absolute offset of the anchor piece (or None)"""
        r, c = self.rng, self.c
        if multi is None:
            multi = r.random() < 0.5
        ls = c["line_statement_prefix"]
        if kind == "block" and ls and linestmt_ok and r.random() < 0.35 and not tb.minus_pending:
            # (after `-%}` the lexer has consumed the indentation, `^` no longer matches: no line statement there)
            # line statement form: only at the start of a line, single line, ends with the line break
            if tb.last != "\n":
                tb.emit("\n")
            ind = r.choice(["", " ", "\t", "  "])
            body, off, _ = self.join(pieces, False, anchor)
            pre = ind + ls + r.choice(["", " "])
            start = tb.len
            tb.emit(pre + body + r.choice(["", " "]) + "\n")
            return None if off is None else start + len(pre) + off
        if kind == "block":
            s, e = c["block_start_string"], c["block_end_string"]
            s2 = r.choice(["", "", "", "-", "+"])
            e2 = r.choice(["", "", "", "-", "+"])
        else:
            s, e = c["variable_start_string"], c["variable_end_string"]
            s2 = r.choice(["", "", "", "-"])
            e2 = r.choice(["", "", "", "-"])
        body, off, _ = self.join(pieces, multi, anchor)
        w1 = self.ws(multi)
        w2 = self.ws(multi)
        if e2 and body.rstrip()[-1:] in "-+":
            e2 = ""
        start = tb.len
        tb.emit(s + s2 + w1 + body + w2 + e2 + e)
        return None if off is None else start + len(s + s2 + w1) + off

    def raw_begin(self, tb):
        r, c = self.rng, self.c
        tb.emit(c["block_start_string"] + r.choice(["", "", "-"]) + r.choice(["", " ", "  "]) + "raw" + r.choice(["", " "]) +
                r.choice(["", "", "-"]) + c["block_end_string"])

    def sep(self, tb):
        tb.emit(self.rng.choice(["\n", "\n", "\n", "", " ", "\n\n", "\n  ", " \n"]))

    # ------------------------------------------------------------------ filler (never raises)
    def filler(self, tb, n=None):
        r, c = self.rng, self.c
        for _ in range(r.randrange(0, 4) if n is None else n):
            k = r.choice(["text", "text", "text2", "comment", "raw", "var", "var", "set", "if", "for", "blank", "lcomment"])
            if k == "text":
                tb.emit(r.choice(WORDS) + r.choice(["", " " + r.choice(WORDS)]))
            elif k == "text2":
                tb.emit(r.choice(WORDS) + "\n" + r.choice(["", "  "]) + r.choice(WORDS) + r.choice(["", "\n\n" + r.choice(WORDS)]))
            elif k == "comment":
                cs, ce = c["comment_start_string"], c["comment_end_string"]
                tb.emit(cs + r.choice(["", "", "-"]) + self.ws() + "note" + self.ws() + r.choice(["more", "{{ no }}", ""]) +
                        self.ws() + r.choice(["", "", "-"]) + ce)
            elif k == "raw":
                self.raw_begin(tb)
                tb.emit(r.choice(["", "\n", " r\n\n"]) + r.choice(["{{ nope }}", "{% if %}", "r", "{#"]) + r.choice(["", "\n"]))
                self.tag(tb, "block", ["endraw"], multi=False, linestmt_ok=False)
            elif k == "var":
                self.tag(tb, "var", r.choice([["x"], ["s", "|", "upper"], ["x", "+", "1"], ["xs", "|", "length"], ["'q'"],
                                               ["ident", "(", "x", ")"], ["x", "if", "yes", "else", "s"], ["[", "x", ",", "1", "]"]]))
            elif k == "set":
                self.tag(tb, "block", ["set", self.uid("f"), "=", r.choice(["x", "1", "'v'", "xs"])])
            elif k == "if":
                self.tag(tb, "block", r.choice([["if", "yes"], ["if", "no"], ["if", "x"], ["if", "x", ">", "5"]]))
                tb.emit(r.choice(["a", "a\n", "\nb\n"]))
                if r.random() < 0.3:
                    self.tag(tb, "block", ["else"])
                    tb.emit(r.choice(["c", "\nc\n"]))
                self.tag(tb, "block", ["endif"])
            elif k == "for":
                v = self.uid("i")
                self.tag(tb, "block", ["for", v, "in", "xs"])
                tb.emit(r.choice(["", "\n", " "]))
                self.tag(tb, "var", [v])
                tb.emit(r.choice(["", "\n", " "]))
                self.tag(tb, "block", ["endfor"])
            elif k == "lcomment" and c["line_comment_prefix"]:
                tb.emit(r.choice(["", "w "]) + c["line_comment_prefix"] + " note")
                tb.emit("\n")
            else:
                tb.emit(r.choice(["\n", "\n\n", "  \n"]))
            self.sep(tb)

    # ------------------------------------------------------------------ expressions containing the raising call
    def boom_expr(self, output=False, nocond=False):
        """returns (pieces, index of the piece carrying the line of the top node, form name)"""
        r = self.rng
        B = ["boom", "(", ")"] if r.random() < 0.7 else ["boom", "(", "1", ",", "k", "=", "2", ")"]
        forms = ["call", "call", "call", "bin-right", "bin-left", "filter", "filter-args", "filter-arg-inner", "getattr", "getitem",
                 "paren", "list", "cond-test", "cond-left", "not", "neg", "arg", "test-arg", "and", "or", "compare", "concat"]
        if not self.dollar:
            forms.append("dict")
        if output:
            forms.append("tuple")
        if nocond:      # `if`/`elif` tests and `for` iterables are parsed without conditional expressions
            forms = [x for x in forms if not x.startswith("cond")]
        f = r.choice(forms)
        if f == "call":
            return B, 1, f
        if f == "bin-right":
            return ["1", r.choice(["+", "-", "*", "//", "%", "**"])] + B, 0, f
        if f == "bin-left":
            return B + [r.choice(["+", "-", "*"]), "1"], 0, f
        if f == "filter":
            return B + ["|", "upper"], len(B) + 1, f
        if f == "filter-args":
            return B + ["|", "center", "(", "3", ")"], len(B) + 1, f
        if f == "filter-arg-inner":
            return ["s", "|", "center", "("] + B + [")"], 2, f
        if f == "getattr":
            return B + [".", "real"], len(B), f
        if f == "getitem":
            return B + ["[", "0", "]"], len(B), f
        if f == "paren":
            return ["("] + B + [")"], 2, f
        if f == "list":
            return ["["] + B + [",", "1", "]"], 0, f
        if f == "dict":
            return ["{", "'k'", ":"] + B + ["}"], 0, f
        if f == "cond-test":
            return ["1", "if"] + B + ["else", "2"], 0, f
        if f == "cond-left":
            return B + ["if", "yes", "else", "2"], 0, f
        if f == "not":
            return ["not"] + B, 0, f
        if f == "neg":
            return ["-"] + B, 0, f
        if f == "arg":
            return ["ident", "("] + B + [")"], 1, f
        if f == "test-arg":
            return ["x", "is", "divisibleby", "("] + B + [")"], 1, f
        if f == "and":
            return ["yes", "and"] + B, 0, f
        if f == "or":
            return ["no", "or"] + B, 0, f
        if f == "compare":
            return ["1", r.choice(["==", "<", "in", "!="])] + B, 0, f
        if f == "concat":
            return ["s", "~"] + B, 0, f
        if f == "tuple":
            return B + [",", "1"], len(B), f     # parse_tuple gives a Tuple the line of its last separating comma
        raise AssertionError(f)

    # ------------------------------------------------------------------ malformed constructs
    SYNTAX_FORMS = [
        # (name, tag kind, pieces, index of the offending piece | "end" (the closing delimiter), lexer-level?)
        ("unknown-tag", "block", ["frobnicate", "x"], 0, False),
        ("stray-end", "block", ["endfrob"], 0, False),
        ("missing-operand", "var", ["1", "+"], "end", False),
        ("if-no-expr", "block", ["if"], "end", False),
        ("for-no-in", "block", ["for", "q", "zz"], 2, False),
        ("two-exprs", "var", ["x", "y"], 1, False),
        ("block-number", "block", ["block", "1"], 1, False),
        ("macro-paren", "block", ["macro", "mm", "("], "end", False),
        ("set-no-target", "block", ["set", "=", "1"], 1, False),
        ("unknown-filter", "var", ["x", "|", "nofilterhere"], 2, False),
        ("unknown-test", "var", ["x", "is", "notesthere"], 1, False),
        ("bad-escape", "var", ["'\\x'"], 0, False),
        ("assign-to-literal", "block", ["set", "1", "=", "2"], 1, False),
        ("include-no-expr", "block", ["include"], "end", False),
        ("unbalanced-close", "var", ["x", ")"], None, True),
        ("unbalanced-mismatch", "var", ["(", "x", "]"], None, True),
        ("bad-char", "var", ["x", "$"], None, True),
        ("open-quote", "var", ["'abc"], None, True),
        ("unclosed-comment", "comment", [], None, True),
        ("unclosed-raw", "raw", [], None, True),
        ("eof-in-if", "eof", [], None, False),
        ("dup-block", "dup", [], None, False),
    ]

    # ------------------------------------------------------------------ the site
    def leaf(self, tb, path, toplevel):
        if self.mode == "syntax":
            return self.leaf_syntax(tb, path)
        r = self.rng
        kinds = ["out", "out", "out", "out", "if", "elif", "for", "forif", "set", "include", "call", "filter", "do",
                 "import", "from", "macrodefault", "with", "autoescape"]
        # not used: {% set x | f(boom()) %}…{% endset %} hits a compiler assertion on free names (not C35's subject)
        if toplevel and not path and tb.name == "main":
            kinds.append("extends")
        k = self.forced_leaf or r.choice(kinds)
        s = self.site
        s.template, s.kind, s.containers = tb.name, k, list(path)
        before = tb.len
        E, a, form = self.boom_expr(output=(k == "out"), nocond=k in ("if", "elif", "for"))
        s.form = form
        if k == "out":
            s.offset = self.tag(tb, "var", E, a)
        elif k == "if":
            s.offset = self.tag(tb, "block", ["if"] + E, 0)
            tb.emit("a")
            self.tag(tb, "block", ["endif"])
        elif k == "elif":
            self.tag(tb, "block", ["if", "no"])
            tb.emit(r.choice(["a", "\na\n"]))
            s.offset = self.tag(tb, "block", ["elif"] + E, 1)
            tb.emit("b")
            self.tag(tb, "block", ["endif"])
        elif k == "for":
            s.offset = self.tag(tb, "block", ["for", self.uid("v"), "in"] + E, 0)
            tb.emit("a")
            self.tag(tb, "block", ["endfor"])
        elif k == "forif":
            s.offset = self.tag(tb, "block", ["for", self.uid("v"), "in", "xs", "if"] + E, 5 + a)
            tb.emit("a")
            self.tag(tb, "block", ["endfor"])
        elif k == "set":
            s.offset = self.tag(tb, "block", ["set", self.uid("v"), "="] + E, 0)
        elif k == "include":
            s.offset = self.tag(tb, "block", ["include"] + E, 0)
        elif k == "call":
            B = ["boom", "(", ")"]
            s.form = "call"
            s.offset = self.tag(tb, "block", ["call"] + B, 0)
            tb.emit("a")
            self.tag(tb, "block", ["endcall"])
        elif k == "filter":
            s.offset = self.tag(tb, "block", ["filter", "center", "("] + E + [")"], 0)
            tb.emit("a")
            self.tag(tb, "block", ["endfilter"])
        elif k == "do":
            s.offset = self.tag(tb, "block", ["do"] + E, 0)
        elif k == "import":
            s.offset = self.tag(tb, "block", ["import"] + E + ["as", self.uid("q")], 0)
        elif k == "from":
            s.offset = self.tag(tb, "block", ["from"] + E + ["import", self.uid("q")], 0)
        elif k == "extends":
            s.offset = self.tag(tb, "block", ["extends"] + E, 0)
        elif k == "macrodefault":
            m = self.uid("m")
            s.offset = self.tag(tb, "block", ["macro", m, "(", "a", "=", "1", ",", "b", "="] + E + [")"], 0)
            tb.emit("a")
            self.tag(tb, "block", ["endmacro"])
            self.sep(tb)
            self.filler(tb)
            self.tag(tb, "var", [m, "(", ")"])
        elif k == "with":
            s.offset = self.tag(tb, "block", ["with", self.uid("v"), "="] + E, 0)
            tb.emit("a")
            self.tag(tb, "block", ["endwith"])
        elif k == "autoescape":
            s.offset = self.tag(tb, "block", ["autoescape"] + E, 0)
            tb.emit("a")
            self.tag(tb, "block", ["endautoescape"])
        else:
            raise AssertionError(k)
        self._site_shape(tb, before)

    def _site_shape(self, tb, before):
        s = self.site
        src = tb.source()
        # the site's own tag: from `before` to the end of the tag that contains the anchor
        e_candidates = [src.find(self.c["block_end_string"], s.offset), src.find(self.c["variable_end_string"], s.offset),
                        src.find("\n", s.offset) if self.c["line_statement_prefix"] else -1]
        e = min([x for x in e_candidates if x >= 0] or [len(src)])
        s.multiline = "\n" in src[before:e]
        s.anchor_on_first_line = "\n" not in src[before:s.offset].lstrip("\n")

    def leaf_syntax(self, tb, path):
        r = self.rng
        s = self.site
        forms = self.SYNTAX_FORMS
        if self.forced_leaf:
            forms = [f for f in forms if f[0] == self.forced_leaf]
        name, kind, pieces, bad, lexlevel = r.choice(forms)
        if name == "bad-char" and self.dollar:
            name, kind, pieces, bad, lexlevel = "unknown-tag", "block", ["frobnicate", "x"], 0, False
        s.template, s.kind, s.form, s.containers, s.lexer_level = tb.name, "syntax", name, list(path), lexlevel
        before = tb.len
        if kind in ("block", "var"):
            if bad == "end":
                self.tag(tb, kind, pieces, None, linestmt_ok=False)
                e = self.c["block_end_string"] if kind == "block" else self.c["variable_end_string"]
                src = tb.source()
                off = len(src) - len(e)
                if src[off - 1] in "-+" and src[off - 2] in " \t\n":
                    off -= 1
                s.offset = off
            else:
                s.offset = self.tag(tb, kind, pieces, bad, linestmt_ok=False)
                if s.offset is None:
                    s.offset = before
        elif kind == "comment":
            tb.emit(self.c["comment_start_string"] + self.ws() + "never closed" + self.ws())
            s.offset = before
            s.truncate = (tb.name, tb.len)
        elif kind == "raw":
            self.raw_begin(tb)
            tb.emit(self.ws() + "never closed" + self.ws())
            s.offset = before
            s.truncate = (tb.name, tb.len)
        elif kind == "eof":
            self.tag(tb, "block", r.choice([["if", "x"], ["for", "q", "in", "xs"], ["macro", self.uid("m"), "(", ")"],
                                            ["filter", "upper"], ["block", self.uid("b")]]))
            self.sep(tb)
            self.filler(tb)
            s.offset = before
            s.eof = True
            s.truncate = (tb.name, tb.len)
        elif kind == "dup":
            b = self.uid("b")
            self.tag(tb, "block", ["block", b])
            tb.emit("a")
            self.tag(tb, "block", ["endblock"])
            self.sep(tb)
            self.filler(tb)
            s.offset = self.tag(tb, "block", ["block", b], 0)
            tb.emit("a")
            self.tag(tb, "block", ["endblock"])
        s.multiline = "\n" in tb.source()[before:]

    # ------------------------------------------------------------------ nesting
    def body(self, tb, depth, site, path, block_ok, toplevel=False):
        self.filler(tb)
        if site:
            if depth > 0 and self.rng.random() < 0.8:
                self.container(tb, depth, path, block_ok, toplevel)
            else:
                self.leaf(tb, path, toplevel)
            self.sep(tb)
        self.filler(tb)

    def container(self, tb, depth, path, block_ok, toplevel):
        r = self.rng
        kinds = ["if", "else", "elif", "for", "forelse", "macro", "call", "filter", "setblock", "with", "autoescape", "include",
                 "import", "from", "nested-for"]
        if block_ok:
            kinds += ["block", "block"]
        k = r.choice(kinds)
        p = path + [k]
        d = depth - 1
        if self.mode == "syntax" and k in ("include", "import", "from"):
            k = "if"
        if k == "if":
            self.tag(tb, "block", ["if", r.choice(["yes", "x", "xs"])])
            self.body(tb, d, True, p, block_ok)
            self.tag(tb, "block", ["endif"])
        elif k == "else":
            self.tag(tb, "block", ["if", "no"])
            self.filler(tb)
            self.tag(tb, "block", ["else"])
            self.body(tb, d, True, p, block_ok)
            self.tag(tb, "block", ["endif"])
        elif k == "elif":
            self.tag(tb, "block", ["if", "no"])
            self.filler(tb)
            self.tag(tb, "block", ["elif", "yes"])
            self.body(tb, d, True, p, block_ok)
            self.tag(tb, "block", ["endif"])
        elif k == "for":
            self.tag(tb, "block", ["for", self.uid("v"), "in", "xs"] + r.choice([[], [], ["if", "yes"], ["recursive"]]))
            self.body(tb, d, True, p, block_ok)
            self.tag(tb, "block", ["endfor"])
        elif k == "nested-for":
            self.tag(tb, "block", ["for", self.uid("v"), "in", "xs"])
            self.tag(tb, "block", ["for", self.uid("v"), "in", "xs"])
            self.body(tb, d, True, p, block_ok)
            self.tag(tb, "block", ["endfor"])
            self.tag(tb, "block", ["endfor"])
        elif k == "forelse":
            self.tag(tb, "block", ["for", self.uid("v"), "in", "[", "]"])
            self.filler(tb)
            self.tag(tb, "block", ["else"])
            self.body(tb, d, True, p, block_ok)
            self.tag(tb, "block", ["endfor"])
        elif k == "macro":
            m = self.uid("m")
            self.tag(tb, "block", ["macro", m, "(", "a", "=", "1", ")"])
            self.body(tb, d, True, p, False)
            self.tag(tb, "block", ["endmacro"])
            self.sep(tb)
            self.filler(tb)
            if r.random() < 0.5:
                self.tag(tb, "var", [m, "(", ")"])
            else:
                self.tag(tb, "block", ["set", self.uid("f"), "=", m, "(", "2", ")"])
        elif k == "call":
            m = self.uid("m")
            self.tag(tb, "block", ["macro", m, "(", ")"])
            tb.emit(r.choice(["<", "\n"]))
            self.tag(tb, "var", ["caller", "(", ")"])
            tb.emit(r.choice([">", "\n"]))
            self.tag(tb, "block", ["endmacro"])
            self.sep(tb)
            self.tag(tb, "block", ["call", m, "(", ")"])
            self.body(tb, d, True, p, False)
            self.tag(tb, "block", ["endcall"])
        elif k == "filter":
            self.tag(tb, "block", ["filter", "upper"])
            self.body(tb, d, True, p, False)
            self.tag(tb, "block", ["endfilter"])
        elif k == "setblock":
            self.tag(tb, "block", ["set", self.uid("f")])
            self.body(tb, d, True, p, False)
            self.tag(tb, "block", ["endset"])
        elif k == "with":
            self.tag(tb, "block", ["with", self.uid("w"), "=", "1"])
            self.body(tb, d, True, p, block_ok)
            self.tag(tb, "block", ["endwith"])
        elif k == "autoescape":
            self.tag(tb, "block", ["autoescape", r.choice(["true", "false"])])
            self.body(tb, d, True, p, block_ok)
            self.tag(tb, "block", ["endautoescape"])
        elif k == "block":
            self.tag(tb, "block", ["block", self.uid("b")] + r.choice([[], [], ["scoped"]]))
            self.body(tb, d, True, p, False)
            self.tag(tb, "block", ["endblock"])
        elif k == "include":
            name = self.uid("inc")
            t2 = self.new_template(name)
            self.body(t2, d, True, p, True, toplevel=True)
            self.tag(tb, "block", ["include", repr(name)] + r.choice([[], [], ["with", "context"], ["without", "context"]]))
        elif k in ("import", "from"):
            name = self.uid("lib")
            m = self.uid("m")
            t2 = self.new_template(name)
            self.filler(t2)
            self.tag(t2, "block", ["macro", m, "(", ")"])
            self.body(t2, d, True, p, False)
            self.tag(t2, "block", ["endmacro"])
            self.sep(t2)
            self.filler(t2)
            if k == "import":
                a = self.uid("L")
                self.tag(tb, "block", ["import", repr(name), "as", a])
                self.sep(tb)
                self.filler(tb)
                self.tag(tb, "var", [a, ".", m, "(", ")"])
            else:
                self.tag(tb, "block", ["from", repr(name), "import", m])
                self.sep(tb)
                self.filler(tb)
                self.tag(tb, "var", [m, "(", ")"])
        else:
            raise AssertionError(k)

    def new_template(self, name):
        c = self.c
        tb = TB(name, ["-" + c["block_end_string"], "-" + c["variable_end_string"], "-" + c["comment_end_string"]])
        self.templates[name] = tb
        self.order.append(name)
        return tb

    # ------------------------------------------------------------------ whole sets
    def generate(self):
        """returns {name: source}, site"""
        r = self.rng
        main = self.new_template("main")
        shape = r.choice(["plain", "plain", "plain", "extends-parent-top", "extends-parent-block", "extends-child-block",
                          "extends-super", "extends-grandparent"])
        if self.mode == "syntax" and shape != "plain":
            shape = r.choice(["plain", "extends-child-block"])
        d = r.randrange(0, self.max_depth + 1)
        if shape == "plain":
            self.body(main, d, True, [], True, toplevel=True)
        else:
            base = self.new_template("base")
            b = self.uid("b")
            if shape == "extends-grandparent":
                mid = self.new_template("mid")
                self.filler(mid)
                self.tag(mid, "block", ["extends", "'base'"])
                self.sep(mid)
                self.filler(mid)
                self.filler(main)
                self.tag(main, "block", ["extends", "'mid'"])
                self.sep(main)
                self.filler(main)
                self.filler(base)
                self.tag(base, "block", ["block", b])
                self.body(base, d, True, [shape], False)
                self.tag(base, "block", ["endblock"])
                self.sep(base)
                self.filler(base)
            else:
                self.filler(main)
                self.tag(main, "block", ["extends", "'base'"])
                self.sep(main)
                if shape == "extends-parent-top":
                    self.body(base, d, True, [shape], True, toplevel=True)
                    self.tag(base, "block", ["block", b])
                    self.filler(base)
                    self.tag(base, "block", ["endblock"])
                    self.tag(main, "block", ["block", b])
                    self.filler(main)
                    self.tag(main, "block", ["endblock"])
                elif shape == "extends-parent-block":
                    self.filler(base)
                    self.tag(base, "block", ["block", b])
                    self.body(base, d, True, [shape], False)
                    self.tag(base, "block", ["endblock"])
                    self.filler(base)
                    self.filler(main)
                elif shape == "extends-child-block":
                    self.filler(base)
                    self.tag(base, "block", ["block", b])
                    self.filler(base)
                    self.tag(base, "block", ["endblock"])
                    self.filler(base)
                    self.filler(main)
                    self.tag(main, "block", ["block", b])
                    self.body(main, d, True, [shape], False)
                    self.tag(main, "block", ["endblock"])
                    self.filler(main)
                else:  # extends-super
                    self.filler(base)
                    self.tag(base, "block", ["block", b])
                    self.body(base, d, True, [shape], False)
                    self.tag(base, "block", ["endblock"])
                    self.filler(base)
                    self.tag(main, "block", ["block", b])
                    self.filler(main)
                    self.tag(main, "var", ["super", "(", ")"])
                    self.filler(main)
                    self.tag(main, "block", ["endblock"])
        srcs = {n: tb.source() for n, tb in self.templates.items()}
        if self.site.truncate:
            n, off = self.site.truncate
            srcs[n] = srcs[n][:off]
        return srcs, self.site
