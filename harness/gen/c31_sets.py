"""Template SETS for C31 (precompiled ≡ source): extends harness/gen/templates.py (TG) with what the module loader has to get
right between templates — inheritance chains (3 levels, super at each level), conditional / dynamic extends, includes with and
without context, `ignore missing`, select lists (first existing wins), imports / from-imports with and without context, macros
calling macros of an imported library, includes nested in includes, template names with directories, spaces and non-ASCII
characters (the module file name is the SHA-1 of the UTF-8 name), references to templates that do not exist.
Everything derives from the `random.Random` passed in.
"""
from __future__ import annotations

from harness.gen.templates import TG

ODD_NAMES = ["sub/inc.html", "weird name ü.txt", "a.b/c-d.tmpl", "UPPER", "x/../y", "tab\tname"]


class SetGen(TG):
    def __init__(self, rng, depth=3):
        super().__init__(rng, depth=depth)
        self.hit = {}

    def h(self, k):
        self.hit[k] = self.hit.get(k, 0) + 1

    def ref(self, kind):
        """a cross-template reference statement of the given kind, targets drawn from the names that exist in this set"""
        r = self.r
        inc = r.choice(self.incs)
        lib = r.choice(self.libs)
        if kind == "include":
            c = r.randrange(8)
            self.h("include")
            if c == 0:
                return "{%% include '%s' %%}" % inc
            if c == 1:
                self.h("include-without-context")
                return "{%% include '%s' without context %%}" % inc
            if c == 2:
                self.h("select-list")
                return "{%% include ['nope', '%s', '%s'] %%}" % (inc, r.choice(self.incs))
            if c == 3:
                self.h("ignore-missing")
                return "{% include 'nope' ignore missing %}"
            if c == 4:
                self.h("ignore-missing")
                return "{% include ['nope', 'nada'] ignore missing with context %}"
            if c == 5:
                self.h("dynamic-include")
                return "{% include inc_name %}"
            if c == 6:
                self.h("missing-include")
                return "{% if c == 'see' %}{% include 'does-not-exist' %}{% endif %}"
            return "{%% include '%s' ignore missing without context %%}" % inc
        if kind == "import":
            c = r.randrange(6)
            self.h("import")
            if c == 0:
                return "{%% import '%s' as lib %%}{{ lib.show(a) }}" % lib
            if c == 1:
                return "{%% from '%s' import show %%}{{ show(name) }}" % lib
            if c == 2:
                self.h("import-with-context")
                return "{%% from '%s' import show as s with context %%}{{ s(b) }}" % lib
            if c == 3:
                self.h("import-with-context")
                return "{%% import '%s' as L with context %%}{{ L.show(c) }}{{ L.twice(a) }}" % lib
            if c == 4:
                return "{%% from '%s' import twice, show %%}{{ twice(items|length) }}" % lib
            self.h("missing-import-name")
            return "{%% from '%s' import nothing_there %%}[{{ nothing_there is defined }}]" % lib
        raise AssertionError(kind)

    def body_with_refs(self, d, kinds=("include", "import")):
        out = []
        for _ in range(self.r.randrange(2, 5)):
            c = self.r.randrange(4)
            if c == 0 and kinds:
                out.append(self.ref(self.r.choice(kinds)))
            else:
                out.append(self.node(d))
        return "".join(out)

    def make_set(self):
        r = self.r
        self.templates = {}
        saved = self.f
        # libraries (macros only; a second macro calls the first)
        self.f = saved - {"include", "import", "extends", "macro", "call"}
        self.libs = ["lib"] + r.sample(["macros/forms.html", "LIB2"], r.randrange(0, 2))
        for n in self.libs:
            self.templates[n] = ("{% macro show(v) %}(" + self.body(1) + "{{ v }}){% endmacro %}"
                                 + "{% macro twice(v) %}{{ show(v) }}{{ show(v) }}{% endmacro %}" + r.choice(["", "lib text", "{% set exported = 42 %}"]))
        # includes; some include another include or import a library
        self.incs = ["inc"] + r.sample(ODD_NAMES, r.randrange(1, 3))
        self.templates["inc"] = "[inc:" + self.body(1) + "]"
        for n in self.incs[1:]:
            self.templates[n] = "[%s:" % n.split("/")[-1][:4] + self.body(1) + r.choice(
                ["", "{% include 'inc' %}", "{% import 'lib' as l %}{{ l.show(name) }}", "{{ a }}{{ w is defined }}"]) + "]"
        self.f = saved
        # inheritance chain of 1-3 levels
        blocks = ["b1", "b2", "b3"][: r.randrange(1, 4)]
        self.templates["base"] = self.body_with_refs(1) + "".join(
            "{%% block %s %s%%}%s{%% endblock %%}%s" % (b, r.choice(["", "scoped "]), self.body_with_refs(1), self.text()) for b in blocks)
        chain = ["base"]
        for lvl, n in enumerate(["mid", "main"][: r.randrange(1, 3)] if r.random() < 0.8 else []):
            head = r.randrange(5)
            parent = chain[-1]
            if head == 0 and len(chain) > 1:
                self.h("conditional-extends-expr")
                t = "{%% extends '%s' if a else '%s' %%}" % (parent, chain[0])
            elif head == 1:
                self.h("conditional-extends-block")
                t = "{%% if b %%}{%% extends '%s' %%}{%% endif %%}plain:" % parent
            elif head == 2:
                self.h("dynamic-extends")
                t = "{% extends layout %}"
            else:
                t = "{%% extends '%s' %%}" % parent
            self.h("extends")
            t += "ignored text"
            for b in blocks:
                if r.random() < 0.7:
                    sup = r.choice(["", "{{ super() }}", "{{ super() }}{{ super() }}", "{{ self.%s() }}" % blocks[0] if b != blocks[0] else ""])
                    if "super" in sup:
                        self.h("super")
                    t += "{%% block %s %%}%s%s{%% endblock %%}" % (b, sup, self.body_with_refs(self.depth - 1))
            if r.random() < 0.3:
                t += "{% macro toplevel_in_child() %}x{% endmacro %}"
            self.templates[n] = t
            chain.append(n)
        if "main" not in self.templates:
            self.templates["main"] = self.body_with_refs(self.depth)
        # one template that refers to things that do not exist
        if r.random() < 0.5:
            self.h("missing-parent")
            self.templates["orphan"] = r.choice(["{% extends 'no-such-parent' %}", "{% import 'no-such-lib' as q %}{{ q.x() }}",
                                                 "{% include ['n1', 'n2'] %}", "{% from 'inc' import nothing %}{{ nothing() }}"])
        self.chain = chain
        return dict(self.templates), "main"

    def data(self):
        d = super().data()
        d["inc_name"] = self.r.choice(self.incs + ["nope"])
        d["layout"] = self.r.choice(self.chain[:1] + ["base", "no-such-layout"])
        return d
