"""Ways of reaching an autoescaping configuration (shared by C15, C16, C24).

A *scenario* is a small history over one loader: a root `Environment(loader=…, autoescape=a0, cache_size=…)`, then steps that either
take an overlay (`env.overlay(autoescape=a)` of the root, of an overlay, a sibling of an existing overlay) or *use* an environment
(load templates BY NAME through the loader — `get_template`, and inside them `include`, `import`, `extends` — and render them).
The autoescape setting in effect for every environment is known from the history alone, so each use is compared with a fresh
`Environment(loader=<fresh loader>, autoescape=<effective>)` that has no history, and judged by the caller's oracle.

Histories covered (each scenario is labelled with the `way` of the environment being used): the direct constructor; an overlay of a
fresh parent; an overlay of a parent that has ALREADY loaded the same names; an overlay of an overlay; sibling overlays with different
settings; every parent again after its overlays were used.  Autoescape values: True, False, `select_autoescape(...)`, a callable.
Loaders: DictLoader, FunctionLoader.  Caches: LRU (cache_size 400 and 2), unlimited dict (-1), none (0).
"""
from __future__ import annotations

AUTOESCAPES = ["on", "off", "select", "callable"]
NAMES = ["page.html", "page.txt", "child.html", "macros.html"]

TEMPLATES = {
    "page.html": "{{ x }}|{{ x ~ y }}|{{ x|upper }}|{% set s %}{{ x }}{% endset %}{{ s }}|{% macro m(a) %}{{ a }}{% endmacro %}{{ m(x) }}|"
                 "{% include 'inc.html' %}|{% import 'lib.html' as lib %}{{ lib.f(x) }}|{{ [x, y]|join(y) }}|{{ 'L<i>' }}",
    "page.txt": "{{ x }}|{{ x ~ y }}|{% include 'inc.html' %}|{% include 'inc.txt' %}",
    "inc.html": "[{{ y }}]",
    "inc.txt": "({{ y }})",
    "lib.html": "{% macro f(a) %}({{ a }}{{ 'l&' }}){% endmacro %}",
    "base.html": "{% block c %}{{ y }}{% endblock %}",
    "child.html": "{% extends 'base.html' %}{% block c %}{{ x }}{{ super() }}{% from 'lib.html' import f %}{{ f(y) }}{% endblock %}",
    "macros.html": "{% macro g(a) %}{% call w() %}{{ a }}{% endcall %}{% endmacro %}{% macro w() %}{{ caller() }}{% endmacro %}{{ g(x) }}"
                   "{% filter replace('a', y) %}a{{ x }}{% endfilter %}",
}


def make_autoescape(jinja2, kind):
    if kind == "on":
        return True
    if kind == "off":
        return False
    if kind == "select":
        return jinja2.select_autoescape(enabled_extensions=("html",), disabled_extensions=("txt",), default=False)
    return lambda name: name is not None and name.lower().endswith(".html")


def effective_on(kind, name):
    """is autoescaping in effect for a template of this name under this setting (names end in .html or .txt)"""
    return kind == "on" or (kind in ("select", "callable") and name.endswith(".html"))


def make_loader(jinja2, kind):
    if kind == "dict":
        return jinja2.DictLoader(dict(TEMPLATES))
    return jinja2.FunctionLoader(lambda name: TEMPLATES.get(name))


def plan(rng, n_random):
    """scenarios as pure data: {"loader", "cache_size", "root": kind, "steps": [("overlay", parent_index, kind) | ("use", env_index, name)]}"""
    out = []
    # fixed skeletons: parent uses a name, overlay with another setting uses the same name, sibling, overlay of overlay, parent again
    for a0 in AUTOESCAPES:
        for a1 in AUTOESCAPES:
            if a0 == a1:
                continue
            for name in NAMES:
                out.append({"loader": rng.choice(["dict", "function"]), "cache_size": rng.choice([400, -1, 2, 0]), "root": a0, "steps": [
                    ("use", 0, name), ("overlay", 0, a1), ("use", 1, name), ("overlay", 0, rng.choice(AUTOESCAPES)), ("use", 2, name),
                    ("overlay", 1, a0), ("use", 3, name), ("use", 0, name), ("use", 1, name)]})
    for _ in range(n_random):
        steps, n_env = [], 1
        for _ in range(rng.randrange(3, 9)):
            if rng.random() < 0.35:
                steps.append(("overlay", rng.randrange(n_env), rng.choice(AUTOESCAPES)))
                n_env += 1
            else:
                steps.append(("use", rng.randrange(n_env), rng.choice(NAMES)))
        out.append({"loader": rng.choice(["dict", "function"]), "cache_size": rng.choice([400, -1, 2, 0]), "root": rng.choice(AUTOESCAPES),
                    "steps": steps})
    return out


def execute(jinja2, sc, data, api="sync"):
    """run one scenario; yields (way, env_index, effective_kind, name, output, fresh_output); `api`: see autoesc_terms.APIS"""
    from harness.gen import autoesc_terms as T

    akw = T.api_env_kw(api)
    loader = make_loader(jinja2, sc["loader"])
    envs = [jinja2.Environment(loader=loader, autoescape=make_autoescape(jinja2, sc["root"]), cache_size=sc["cache_size"], **akw)]
    kinds, parent, used, has_child = [sc["root"]], [None], [set()], [False]
    for st in sc["steps"]:
        if st[0] == "overlay":
            _, p, kind = st
            envs.append(envs[p].overlay(autoescape=make_autoescape(jinja2, kind)))
            kinds.append(kind)
            parent.append(p)
            used.append(set())
            has_child[p] = True
            has_child.append(False)
            continue
        _, i, name = st
        if parent[i] is None:
            way = "parent-after-overlays" if has_child[i] else "direct"
        elif parent[parent[i]] is not None:
            way = "overlay-of-overlay"
        elif used[parent[i]]:
            way = "overlay-of-used-parent" if name in used[parent[i]] else "overlay-of-parent-used-otherwise"
        else:
            way = "overlay-of-fresh-parent"
        if sum(1 for q in parent if q == parent[i] and q is not None) > 1:
            way += "+sibling"

        def render(env):
            try:
                return T.render_api(env.get_template(name), api, data)
            except Exception as e:  # noqa
                return f"raised:{type(e).__name__}:{e}"

        out = render(envs[i])
        fresh = render(jinja2.Environment(loader=make_loader(jinja2, sc["loader"]), autoescape=make_autoescape(jinja2, kinds[i]), **akw))
        used[i].add(name)
        yield way, i, kinds[i], name, out, fresh
