"""Shared plumbing for the per-property checks.

Everything here is deliberately boring: S-expression codec, the Lean build
(under a file lock), the line-protocol driver, the axiom audit, hygiene grep,
evidence files, known findings, verdicts.
"""
from __future__ import annotations

import fcntl
import hashlib
import json
import os
import random
import re
import subprocess
import sys
import time
from pathlib import Path

VERIF = Path(__file__).resolve().parent.parent
REPO = Path(os.environ.get("JINJA_REPO", "/repo"))
LEAN = VERIF / "lean"
DRIVER = LEAN / ".lake" / "build" / "bin" / "jv-driver"
GEN = LEAN / "JinjaV" / "Gen"
ALLOWED_AXIOMS = {"propext", "Classical.choice", "Quot.sound"}
HOOK_GUARD = "JINJA_VERIF_HOOKS"


# --------------------------------------------------------------------------
# the implementation under test is always /repo's working tree
# --------------------------------------------------------------------------

def source_fingerprint() -> str:
    """sha256 over the engine's source files (names and contents), the tree the checks import"""
    h = hashlib.sha256()
    root = REPO / "src" / "jinja2"
    for f in sorted(root.rglob("*.py")):
        h.update(str(f.relative_to(root)).encode())
        h.update(b"\0")
        h.update(f.read_bytes())
        h.update(b"\0")
    return h.hexdigest()


def source_is_baseline() -> bool:
    """is /repo's source the tree the baselines (and the harness's own preconditions) were recorded against?"""
    p = VERIF / "translate" / "baseline" / "SOURCE.sha256"
    return p.exists() and p.read_text().strip() == source_fingerprint()


def import_jinja():
    src = str(REPO / "src")
    if src not in sys.path:
        sys.path.insert(0, src)
    os.environ[HOOK_GUARD] = "1"
    import jinja2  # noqa

    f = Path(jinja2.__file__).resolve()
    if not str(f).startswith(str((REPO / "src").resolve())):
        raise SystemExit(f"harness error: jinja2 imported from {f}, not from {REPO}/src")
    return jinja2


# --------------------------------------------------------------------------
# S-expressions
# --------------------------------------------------------------------------

class Atom(str):
    """symbol / number on the wire (as opposed to a quoted string)"""

    __slots__ = ()

    def __repr__(self):
        return f"Atom({str.__repr__(self)})"


def sx(v) -> str:
    if isinstance(v, Atom):
        return str(v)
    if isinstance(v, bool):
        return "true" if v else "false"
    if isinstance(v, int):
        return str(v)
    if isinstance(v, str):
        out = ['"']
        for ch in v:
            o = ord(ch)
            if ch == '"':
                out.append('\\"')
            elif ch == "\\":
                out.append("\\\\")
            elif 32 <= o < 127:
                out.append(ch)
            else:
                out.append("\\u{%x}" % o)
        out.append('"')
        return "".join(out)
    if isinstance(v, (list, tuple)):
        return "(" + " ".join(sx(x) for x in v) + ")"
    raise TypeError(f"cannot encode {type(v)}")


_TOK = re.compile(r'\s*(?:(\()|(\))|"((?:[^"\\]|\\.)*)"|([^\s()"]+))')
_ESC = re.compile(r"\\(?:u\{([0-9a-fA-F]+)\}|(.))")


def _unesc(s: str) -> str:
    def rep(m):
        if m.group(1):
            return chr(int(m.group(1), 16))
        c = m.group(2)
        return {"n": "\n"}.get(c, c)

    return _ESC.sub(rep, s)


def parse_sx(text: str):
    """parse one S-expression; atoms come back as Atom (ints as int), strings as str"""
    pos = 0
    stack = [[]]
    n = len(text)
    while pos < n:
        m = _TOK.match(text, pos)
        if not m:
            if text[pos:].strip() == "":
                break
            raise ValueError(f"bad sexp at {pos}: {text[pos:pos+40]!r}")
        pos = m.end()
        if m.group(1):
            stack.append([])
        elif m.group(2):
            x = stack.pop()
            stack[-1].append(x)
        elif m.group(3) is not None:
            stack[-1].append(_unesc(m.group(3)))
        else:
            a = m.group(4)
            if re.fullmatch(r"-?\d+", a):
                stack[-1].append(int(a))
            elif a == "true":
                stack[-1].append(True)
            elif a == "false":
                stack[-1].append(False)
            else:
                stack[-1].append(Atom(a))
    if len(stack) != 1 or len(stack[0]) != 1:
        raise ValueError(f"bad sexp: {text[:80]!r}")
    return stack[0][0]


# --------------------------------------------------------------------------
# Lean: build, driver, audit, hygiene
# --------------------------------------------------------------------------

class Lock:
    def __init__(self, name="lean"):
        self.path = VERIF / f".lock.{name}"

    def __enter__(self):
        self.f = open(self.path, "w")
        fcntl.flock(self.f, fcntl.LOCK_EX)
        return self

    def __exit__(self, *a):
        fcntl.flock(self.f, fcntl.LOCK_UN)
        self.f.close()


def run(cmd, cwd=None, timeout=3600, input=None, env=None):
    p = subprocess.run(cmd, cwd=cwd, capture_output=True, text=True, timeout=timeout, input=input, env=env)
    return p.returncode, p.stdout, p.stderr


def lake_build(targets: list[str], timeout=3000):
    """returns (ok, log)"""
    with Lock():
        rc, out, err = run(["lake", "build", *targets], cwd=LEAN, timeout=timeout)
    return rc == 0, out + err


def write_if_changed(path: Path, content: str) -> bool:
    with Lock("gen"):
        if path.exists() and path.read_text() == content:
            return False
        path.parent.mkdir(parents=True, exist_ok=True)
        tmp = path.with_suffix(path.suffix + f".tmp{os.getpid()}")
        tmp.write_text(content)
        os.replace(tmp, path)
        return True


def driver_batch(requests: list, timeout=3000) -> list:
    """send each request (python structure) as one line, get parsed replies"""
    if not requests:
        return []
    if not DRIVER.exists():
        ok, log = lake_build(["jv-driver"])
        if not ok:
            raise HarnessError("cannot build jv-driver:\n" + log[-3000:])
    data = "\n".join(sx(r) for r in requests) + "\n"
    if os.environ.get("JV_DUMP_REQS"):  # debugging aid: keep the request stream
        Path(os.environ["JV_DUMP_REQS"]).write_text(data)
    rc, out, err = run([str(DRIVER)], input=data, timeout=timeout)
    if rc != 0:
        raise HarnessError(f"driver exited {rc}: {err[-2000:]}")
    lines = out.split("\n")
    if lines and lines[-1] == "":
        lines.pop()
    if len(lines) != len(requests):
        raise HarnessError(f"driver returned {len(lines)} lines for {len(requests)} requests")
    return [parse_sx(l) for l in lines]


class mem_cap:
    """soft address-space limit around in-process evaluations whose data can blow up (sequence repetition by a
    perturbed integer): the allocation fails with MemoryError instead of taking the machine down.  Not held across
    subprocess launches (Lean reserves a large address range)."""

    def __init__(self, nbytes):
        self.n = nbytes

    def __enter__(self):
        import resource
        self.old = resource.getrlimit(resource.RLIMIT_AS)
        hard = self.old[1]
        resource.setrlimit(resource.RLIMIT_AS, (self.n if hard == resource.RLIM_INFINITY else min(self.n, hard), hard))
        return self

    def __exit__(self, *a):
        import resource
        resource.setrlimit(resource.RLIMIT_AS, self.old)
        return False


class HarnessError(Exception):
    pass


_HYGIENE = re.compile(r"\b(sorry|admit|native_decide|bv_decide|implemented_by)\b|^\s*axiom\s|unsafe\s|maxHeartbeats\s+0")


def strip_lean_comments(src: str) -> str:
    out = []
    i, n, depth = 0, len(src), 0
    while i < n:
        if src.startswith("/-", i):
            depth += 1
            i += 2
        elif depth and src.startswith("-/", i):
            depth -= 1
            i += 2
        elif depth:
            if src[i] == "\n":
                out.append("\n")
            i += 1
        elif src.startswith("--", i):
            while i < n and src[i] != "\n":
                i += 1
        else:
            out.append(src[i])
            i += 1
    return "".join(out)


def hygiene(files: list[Path]) -> list[str]:
    bad = []
    for f in files:
        txt = strip_lean_comments(f.read_text())
        for ln, line in enumerate(txt.split("\n"), 1):
            if _HYGIENE.search(line):
                bad.append(f"{f.relative_to(VERIF)}:{ln}: {line.strip()[:100]}")
    return bad


def lean_closure(module: str) -> list[Path]:
    """all JinjaV source files transitively imported by `module`"""
    seen, todo = {}, [module]
    while todo:
        m = todo.pop()
        if m in seen or not m.startswith("JinjaV"):
            continue
        p = LEAN / (m.replace(".", "/") + ".lean")
        if not p.exists():
            continue
        seen[m] = p
        for mm in re.findall(r"^import\s+([\w.]+)", p.read_text(), re.M):
            todo.append(mm)
    return list(seen.values())


def audit_axioms(module: str, theorems: list[str]) -> dict[str, list[str]]:
    """`#print axioms` for each theorem (fully qualified); returns name -> axioms"""
    src = f"import {module}\n" + "".join(f"#print axioms {t}\n" for t in theorems)
    tmp = LEAN / f".audit_{os.getpid()}_{abs(hash(module)) % 10**6}.lean"
    tmp.write_text(src)
    try:
        rc, out, err = run(["lake", "env", "lean", str(tmp)], cwd=LEAN, timeout=1200)
    finally:
        tmp.unlink(missing_ok=True)
    text = out + err
    res: dict[str, list[str]] = {}
    for m in re.finditer(r"'([^']+)' depends on axioms: \[([^\]]*)\]", text, re.S):
        res[m.group(1)] = [a.strip() for a in m.group(2).replace("\n", " ").split(",") if a.strip()]
    for m in re.finditer(r"'([^']+)' does not depend on any axioms", text):
        res[m.group(1)] = []
    missing = [t for t in theorems if t not in res]
    if missing or rc != 0:
        raise HarnessError(f"axiom audit failed for {missing} rc={rc}\n{text[-2000:]}")
    return res


def theorems_in(module: str) -> list[str]:
    """names of `theorem`s declared in a Props module (fully qualified by its namespace)"""
    p = LEAN / (module.replace(".", "/") + ".lean")
    txt = strip_lean_comments(p.read_text())
    ns = []
    names = []
    for line in txt.split("\n"):
        m = re.match(r"^namespace\s+([\w.]+)", line)
        if m:
            ns.append(m.group(1))
            continue
        m = re.match(r"^end\s+([\w.]+)", line)
        if m and ns and ns[-1] == m.group(1):
            ns.pop()
            continue
        m = re.match(r"^(?:@\[[^\]]*\]\s*)?(private\s+)?theorem\s+([\w.']+)", line)
        if m and not m.group(1):
            names.append(".".join(ns + [m.group(2)]))
    return names


# --------------------------------------------------------------------------
# verdicts, evidence, known findings
# --------------------------------------------------------------------------

class Violation:
    def __init__(self, key: str, what: str, replay: dict, no_input: bool = False):
        self.key = key          # canonical key, matched against known_findings.json
        self.what = what
        self.replay = replay
        self.no_input = no_input


def load_known() -> list[dict]:
    out = []
    p = VERIF / "known_findings.json"
    if p.exists():
        out += json.loads(p.read_text()).get("findings", [])
    # per-property fragments written by builders before integration (merged into the file above when integrated)
    for q in sorted((VERIF / "known_findings.d").glob("*.json")) if (VERIF / "known_findings.d").is_dir() else []:
        out += json.loads(q.read_text()).get("findings", [])
    return out


def rng_for(seed: int, *parts) -> random.Random:
    h = hashlib.sha256(("/".join(map(str, (seed,) + parts))).encode()).digest()
    return random.Random(int.from_bytes(h[:8], "big"))


class Result:
    """what a property runner hands back to main"""

    def __init__(self):
        self.violations: list[Violation] = []
        self.coverage: dict = {}
        self.assumptions: list[str] = []
        self.notes: list[str] = []

    def violate(self, key, what, replay, no_input=False):
        if not any(v.key == key for v in self.violations):
            self.violations.append(Violation(key, what, replay, no_input))


def now():
    return time.monotonic()
