"""Which properties are claimed, at what level, and why.  MANIFEST.json is generated from
this table by tools/mk_manifest.py so that it is always schema-valid and current."""

ALL_IDS = [f"C{i:02d}" for i in range(1, 40)]

# id -> dict(text, note, technique, design_ref, category)
CLAIMED = {
    "C26": dict(
        category="proof",
        technique="Lean 4 refinement proof (LRU model ⊑ reference LRU map, all operation sequences) + "
                  "lock-serialisation theorem over source-derived critical sections + exhaustive "
                  "differential histories and controlled line-level schedules on the real LRUCache",
        text="Theorems (Props/C26.lean, C26Sched.lean): for every capacity >= 1 and every operation sequence the "
             "model of LRUCache returns exactly the reference LRU map's outputs, never exceeds capacity, never takes an "
             "IndexError/ValueError path; every line-level interleaving of lock-bracketed sections equals their serial "
             "execution in lock-acquisition order; the fact that each concurrent method is one such section is read "
             "from utils.py on every run (Gen/LRUSteps.lean) and re-proved by decide. The model is tied to the code by "
             "exhaustive histories (<=4 quick / <=5 thorough mutating ops x 3 keys x capacities 1-3, observers "
             "interleaved), random long histories, and stateless DFS over line-granularity thread schedules whose "
             "histories are checked for linearizability by the Lean reference map.",
        note="Trusted: Lean kernel; hand model Model/LRU.lean (tied by correspondence only); translator for "
             "LRUSteps; threading.Lock mutual exclusion and switching at source-line granularity; capacity >= 1.",
        design_ref="§5 C26",
    ),
    "C07": dict(
        category="proof",
        technique="Lean 4 invariant/refinement proof (LoopContext model = loop specification for all item lists "
                  "and all operation sequences) + exhaustive differential op sequences on LoopContext/"
                  "AsyncLoopContext + end-to-end renders",
        text="Theorems (Props/C07.lean): for every item list, sized or unsized iterable and every finite sequence of "
             "next/attribute operations the LoopContext model (look-ahead slot, lazily cached length) returns exactly "
             "the documented values (loop_attr_values); the items handed out are a prefix of the input in order "
             "(loop_visits_in_order) and all of it once next reports exhaustion (stop_means_all). Tie: every query "
             "pattern of length <=2 (quick) / <=3 (thorough) over the 12 attributes on lists of length 0-4 / 0-6 in "
             "list/tuple/iterator/generator/async-generator form against the real LoopContext and AsyncLoopContext, "
             "random op soups, and rendered for-loops (filter, else, recursive depth) in sync and async environments; "
             "recursive loops with an else clause: a nested loop(children) call over an empty list/tuple/dict/str/"
             "undefined (and over non-empty children) must render exactly what the same loop renders at the top level "
             "over those children (one-level unfolding), and sized/generator/iterator/async-generator forms of one tree "
             "must agree.",
        note="Trusted: Lean kernel; hand model Model/Loop.lean (tied by correspondence); compiler's for-loop "
             "driver (visit_For) is covered end-to-end only; values are ints.",
        design_ref="§5 C07",
    ),
    "C10": dict(
        category="proof",
        technique="Lean 4 proof about the buffering loop model (concatenation preserved, chunk sizes) + exhaustive "
                  "differential piece lists on the real TemplateStream + all entry points end-to-end",
        text="Theorems (Props/C10.lean): for every piece list and buffer size >= 1, concatenating the buffered chunks "
             "equals concatenating the pieces (buffered_concat); every chunk but the last holds exactly `size` "
             "non-empty pieces, none is made of empty pieces only, none exceeds `size` (buffered_chunks). Tie: every "
             "piece list of length <=6 (quick) / <=8 (thorough) over {'', 'a', 'bc'} x sizes 2-8 against the real "
             "TemplateStream; generated template sets (extends/include/import/macros/loops) through render, generate, "
             "stream, buffered stream, dump (text, utf-8, path, write-only target), module str, render_async, "
             "generate_async, with the real piece lists fed to the Lean model for the expected chunking. Markup "
             "family: the same with autoescape on (Environment flag, select_autoescape, callable, autoescape section), "
             "where one chunk mixes Markup expression output with plain template data containing < > & ' \": every "
             "short Markup/str piece list x sizes 2-8 on the real TemplateStream, and markup-rich generated template "
             "sets through all entry points plus buffered stream join and every dump target fed from buffered streams.",
        note="Trusted: Lean kernel; hand model Model/Stream.lean (tied by correspondence); str.join, file objects and "
             "codecs are Python's; render = concat(generate) etc. are established by correspondence, not by proof.",
        design_ref="§5 C10",
    ),
    "C06": dict(
        category="proof",
        technique="Lean 4 proof that the model of Macro.__call__ equals a declarative binding specification for all "
                  "signatures and calls + exhaustive differential calls on the real Macro object + end-to-end macro "
                  "calls (template, star-args, call block, Template.module sync/async)",
        text="Theorem macro_call_eq_spec (Props/C06.lean): for every signature with distinct parameter names, every "
             "positional list and every keyword list with distinct names, the transcription of Macro.__call__ (cursor, "
             "kwargs.pop loop, caller/kwargs/varargs special-casing) returns exactly the documented binding (positional "
             "in order; surplus to varargs or TypeError; keywords fill remaining parameters; leftovers to kwargs or "
             "TypeError; unfilled = default marker); corollaries for the two TypeError clauses. Tie: exhaustive calls on "
             "the real Macro object (<=3/<=4 parameters from 5 names incl. caller, 8 flag combinations, 0-5 positional, "
             "keyword sets of <=2/<=4 from 6 names) and generated macros with defaults referring to earlier parameters "
             "and outer variables, called from templates, call blocks, star-args and Python.",
        note="Trusted: Lean kernel; hand model Model/Macro.lean (tied by correspondence); default evaluation and "
             "special-name detection are compiled code (macro_body) covered end-to-end only; values are ints.",
        design_ref="§5 C06",
    ),
    "C19": dict(
        category="proof",
        technique="Lean 4 proofs (decide +kernel) over decision functions and tables regenerated from sandbox.py by a "
                  "Python-ast translator, with the set of mutating builtin methods measured from the interpreter; "
                  "counterexample finder + exhaustive method/route/filter sweep on the real immutable sandbox",
        text="Theorems (Props/C19.lean over Gen/Sandbox.lean, regenerated every run): every (type, method) of "
             "list/dict/set/deque that can mutate its receiver (measured) is refused by the translated "
             "ImmutableSandboxedEnvironment.is_safe_attribute including the first-matching-row lookup of _mutable_spec "
             "(mutators_blocked); for every object and name, admitted implies not-modifying and admitted by the plain "
             "sandbox (immutable_attr_decision). Tie: translated functions cross-run against sandbox.py; every public "
             "method x argument shapes x 7 routes x sync/async rendered with deep comparison; every built-in filter x "
             "container receivers x container arguments (positional and per keyword parameter) x autoescape on/off.",
        note="Trusted: Lean kernel; translator (small Python subset); measured mutator table (12 argument shapes per "
             "method); the filter purity claim is by correspondence sweep only, not a theorem.",
        design_ref="§5 C19",
    ),
    # C17: the claim lives in harness/props/c17.py (CLAIM)
    "C18": dict(
        category="proof",
        technique="Lean 4 proofs over is_safe_callable and the guard shape of SandboxedEnvironment.call regenerated from "
                  "sandbox.py + recording unsafe callables along 31 call paths + safe-then-unsafe call histories of short-lived "
                  "callables in one environment + structural validation of generated code",
        text="Theorems (Props/C18.lean over Gen/Sandbox.lean): SandboxedEnvironment.call forwards to context.call only "
             "if is_safe_callable holds (call_guard); a callable carrying unsafe_callable or alters_data is rejected "
             "whatever else it carries (marked_unsafe_rejected / never_invoked). Tie: translator checks the exact shape "
             "`if not self.is_safe_callable(obj): raise SecurityError; return context.call(obj, ...)`; recording "
             "callables reached through 31 paths x 6 environments (sync/async/immutable/overridden check/i18n) must "
             "never run; generated code of every program must contain no context.call and no direct call of an l_N_* "
             "value; call histories in one environment (800 quick / 6000 thorough: safe short-lived bound methods, "
             "closures, partials, callable instances first, then an unsafe one of the same kind reusing the freed "
             "address, along 34 routes, 1-3 renders, default and overridden check, sync/async) must end in SecurityError "
             "with the recorder never run.",
        note="Trusted: Lean kernel; translator; the compile-side claim (every Call node goes through environment.call) "
             "is per-program translation validation, not a theorem about compiler.py.",
        design_ref="§5 C18",
    ),
    "C22": dict(
        category="proof",
        technique="Lean 4 proofs of the filter contracts on list models (partition, sizes, first occurrences, sorted "
                  "stable permutation, grouping, extrema, sum) + differential runs of the real filters (sync/async, "
                  "lists/generators/async generators) against the models + a may-alias inventory of in-place operations and "
                  "returned objects read from filters.py/async_utils.py each run and pinned by decide + before/after deep "
                  "snapshots of every argument around direct calls and template renders",
        text="Theorems (Props/C22.lean), for all lists and arguments: slice without fill concatenates to the input, has n "
             "slices of size floor(len/n) (+1 for the first len mod n), fill goes exactly to the short slices and to none "
             "when the input divides evenly; batch concatenates to the input, all batches but the last have n items, with "
             "fill all have n; unique is a subsequence with distinct keys covering every key and keeps the first item; sort "
             "is a key-ordered permutation, stable, also with reverse (equal keys keep input order); groupby partitions the "
             "key-sorted input into non-empty groups of equal key; min/max return an item bounding all items; sum = start "
             "+ items. Tie: exhaustive lengths 0-7/0-10 x sizes 1-8 x fill; all key lists of length <4/<5 over mixed-case "
             "keys + random lists, case sensitivity, reverse, rendered through the real filters in sync and async "
             "environments; 17 further filter forms compared with their Python definitions. Frame (Props/C22Frame.lean over "
             "Gen/FilterMutators.lean, regenerated from filters.py + async_utils.py every run): in the functions behind all 22 "
             "collection filter names (sync and async variants, and every helper they call) no in-place operation (.sort .reverse "
             ".append .extend .pop ..., x[i]=v, del x[i], x+=v) has a receiver that may be (part of) an argument "
             "(no_inplace_mutation_of_arguments); auto_to_list and every 'returns a new list/iterator' filter return only "
             "generators or objects built in the function (auto_to_list_fresh, new_object_filters_return_fresh); the roster covers "
             "every name and both variants. The Lean list models are pure, so 'arguments unchanged' is a harness oracle: every "
             "argument (value as list/tuple/list subclass/dict/dict view/generator/async generator, nested lists, fill/start/"
             "default/test arguments) is deep-snapshotted before and after direct calls of every filter in sync and async "
             "environments and around templates that use the same variable again after the filter; new-object filters must not "
             "return the argument and modifying the result must not reach it; results equal across variants. Attribute paths "
             "(Props/C22Attr.lean over Model/FiltColl.lean attrWalk = a fold over the parts of the dotted path with the default "
             "substituted after EACH part): if every prefix of the path is defined the getter returns the looked-up value "
             "(attr_defined); with a default that has none of the path's parts it returns the looked-up value or, as soon as some "
             "prefix is undefined (first, middle or last part), the default (attr_default); with any given default it never raises "
             "and never returns an Undefined (attr_default_total); without default an undefined last part gives an Undefined, an "
             "undefined earlier part UndefinedError, ChainableUndefined an Undefined (attr_nodefault_*); the statement skeleton of "
             "make_attrgetter / make_multi_attrgetter / _prepare_attribute_parts is read from filters.py every run and pinned "
             "(attrgetter_shape). Tie: the Lean driver gives make_attrgetter's outcome per item and the outcome of map, groupby, "
             "unique, sort (multi-attribute), min, max, sum, join, selectattr, rejectattr for random paths of 1-3 parts (names, "
             "integer parts) over dicts, objects, dicts in objects, lists, indexed strings with the first / a middle / the last "
             "part missing on some items, default absent / None / falsy / truthy / container, under Undefined, ChainableUndefined "
             "and StrictUndefined, compared with the real code directly, via call_filter (sync, async) and via templates.",
        note="Trusted: Lean kernel; hand model Model/FiltColl.lean; Python's sorted() = stable merge sort, str order = "
             "code-point order (ASCII keys); sort theorems assume a total transitive order; the 'Python definition' filters "
             "(reverse, first, last, length, list, join, map, select, reject, selectattr, rejectattr) are correspondence only; "
             "the may-alias analysis of translate/filter_mutators.py (its lists of constructor / scalar / mutator names) and the "
             "snapshot oracle; methods of non-builtin argument types are not analysed; Environment.getitem is modelled for str-keyed "
             "dicts, plain objects, lists, strings, ints, None and names that are not methods of builtin types; filter outcomes with "
             "keys that are not all ints / all strings are outside the model (counted, not compared).",
        design_ref="§5 C22",
    ),
    "C39": dict(
        category="proof",
        technique="Lean 4 invariant proof over a full executable model of Lexer.tokeniter (all sources, all valid "
                  "configurations, no bound) + exhaustive/random/structured differential lexing against Environment.lex",
        text="Theorems (Props/C39.lean over Model/Lex.lean, 21 scanner lemmas in Lemmas/Lex.lean): for every configuration and "
             "source, if the lexer model succeeds, concatenating the token texts with the removed whitespace re-inserted "
             "(ghost tokens) gives exactly the preprocessed source (lex_lossless); every removed piece is whitespace "
             "(removed_is_whitespace); every token's line number is 1 + the number of line breaks before its text "
             "(token_line_any); a lexer error carries the current line, which lies inside the source (error_line). Tie: the "
             "model is compared token-for-token (kind, text, line, error kind and line) with the real tokeniter on every "
             "concatenation of <=2 (quick) / <=3 (thorough) fragments per configuration x 11 configurations, random "
             "concatenations over an extended alphabet, and structured skeletons lexed through fresh, overlay-of-used and "
             "Template(...) environments (700k+ sources agreed while building).",
        note="Trusted: Lean kernel; the hand scanners standing for Python's re (validated only by the differential run); "
             "measured whitespace class; identifier characters beyond ASCII limited to five; configurations with "
             "whitespace in delimiters are out of model.",
        design_ref="§5 C39",
    ),
    "C11": dict(
        category="proof",
        technique="Lean 4 proofs over the lexer model (line-break normalisation, trailing newline, single data token for "
                  "sources without start sequences) + exhaustive short strings and random long texts rendered end-to-end",
        text="Theorems (Props/C11.lean): splitting on \\r\\n|\\r|\\n and re-joining equals replacing every line break by \\n "
             "(join_split_eq_normNl); preprocess keeps the normalised source under keep_trailing_newline and otherwise removes "
             "at most one trailing \\n (preprocess_keep, preprocess_drop); if no root alternative matches anywhere the lexer "
             "yields exactly one data token holding the whole preprocessed source (plain_single_data); a comment adds only "
             "ignored tokens (comment_tokens_ignored); newline conversion with the default sequence is the identity. Tie: "
             "every string of length <=5 (quick) / <=6 (thorough) over 9 characters incl. partial delimiters and CR/LF, random "
             "long Unicode/control texts, random raw blocks and comments with look-alikes, rendered under 3 newline "
             "sequences x keep_trailing_newline (x trim/lstrip) and compared with the model's data tokens; raw blocks and "
             "comments stand after text / indentation at a line start made by LF, CRLF or lone CR and are followed by LF, "
             "CRLF, CR, LF CR, FF, VT; every configuration is reached in 15 ways in rotation (fresh; Template(...); overlays of "
             "used parents overriding everything / whitespace options / newline_sequence alone / keep_trailing_newline "
             "alone / both / delimiters; chains; siblings; parent after its overlays). Environment histories "
             "(harness/envways.py): for 6+ roots and every override set (newline_sequence alone, keep_trailing_newline alone, "
             "every combination of the four whitespace options, prefixes, delimiters, none) overlays of fresh and used "
             "Environment/Template roots, siblings, chains, parents re-used, random histories; at every use plain sources "
             "with all three line breaks must render as the lexer model says for the options in effect and as a fresh "
             "Environment does. Environments with a finalize callable (plain, @pass_context, @pass_eval_context, "
             "@pass_environment) that alters strings (strip, upper, escape, placeholder for empty, wrap), set by "
             "Environment(finalize=), overlay(finalize=) or Template(..., finalize=): plain text, text around comments and "
             "raw-block bodies must still render as the lexer model says (finalize is for expression results only).",
        note="Trusted: Lean kernel; lexer model hand scanners (differentially validated); parser/compiler path for data-only "
             "templates is end-to-end only.",
        design_ref="§5 C11",
    ),
    "C12": dict(
        category="proof",
        technique="Lean 4 rule-level theorems about the lexer model's whitespace handling + a segment-level reference of the "
                  "documented rules (Lean) compared with real renders of exhaustive and random skeletons",
        text="Theorems (Props/C12.lean): '-' on the left keeps exactly the text without its whitespace suffix (minus_left); '+' "
             "disables trimming (plus_left, plus_right); without lstrip_blocks nothing is removed before a tag; variable tags "
             "are untouched by the automatic options (variable_untouched, variable_end_keeps_newline); lstrip_blocks removes "
             "only the blanks after the last line break and only when the tag is first on its line (lstrip_rule, "
             "splitLastNl_tail_no_nl); trim_blocks consumes exactly one following newline after a sign-less tag end "
             "(trim_rule); '-' on the right removes exactly the following whitespace (minus_right); with C39's "
             "removed_is_whitespace/lex_lossless non-whitespace is never removed from any source. Tie: text-tag-text triples "
             "with every sign combination x 12x12 whitespace runs (exhaustive in thorough), raw blocks with signs on four "
             "sides, the same triples for every pair of whitespace runs involving CRLF / lone CR / CR and LF on either side "
             "of the tag / LF CR / form feed / vertical tab (reference: Spec/Trim `documented` normalises the three line "
             "breaks first; FF and VT are not line breaks), random skeletons over all runs, x 4 trim/lstrip settings x 3 "
             "delimiter sets x 12 ways of building the environment "
             "(fresh; Template(...); overlay of a used parent overriding everything / only whitespace options / one "
             "whitespace option / only delimiters; overlay chain used at each level; overlay of a fresh parent; sibling "
             "overlays; parent after its overlays were used). Environment histories (harness/envways.py): for 4+ root option "
             "sets and every override set (each of trim_blocks, lstrip_blocks, newline_sequence, keep_trailing_newline alone, "
             "all combinations, line prefixes, delimiters, mixtures, none) overlays of fresh and of already used "
             "Environment/Template roots, siblings, chains of depth 3, parents re-used after their overlays, random "
             "histories; at every use the render must equal the Lean reference trim-env for the options in effect.",
        note="Trusted: Lean kernel; lexer model (differentially validated, C39); the reference Spec/Trim.lean is tied to the "
             "real renderer by correspondence; that the lexer model equals the reference on every skeleton is tested, not "
             "proved (partial with respect to DESIGN's lex_skeleton).",
        design_ref="§5 C12",
    ),
    "C13": dict(
        category="proof",
        technique="Lean 4 proof that the shared lexer cache is transparent for every call history (over the LRU reference "
                  "map proved in C26) with the key-covers-reads fact re-proved from lexer.py each run + metamorphic renders "
                  "across delimiter sets, line statements, Template(...), overlays, with interleaved environments",
        text="Theorems (Props/C13.lean): every environment attribute read by Lexer.__init__/compile_rules is an element of "
             "get_lexer's key tuple (key_covers_reads, by decide over Gen/LexerKey.lean regenerated every run); get_lexer has the "
             "get-or-build-and-store shape, the lexer keeps no environment reference and Environment.lexer memoises nothing "
             "(get_lexer_shape); for every history of keys and every capacity, each call returns the lexer built from its own "
             "key (lexer_cache_transparent). Tie: random skeletons unparsed by the Lean reference into 8 delimiter sets x 4 "
             "trim/lstrip settings and rendered through Environment / Template(...) / overlay / overlay chains, interleaved; "
             "60-200 further configurations cycle the caches and the first environments are re-checked; whole-line tags and "
             "comments rewritten as line statements/comments (3 prefix sets; lines end in LF, CRLF, lone CR or a mixture; a "
             "third of the statements keep a ( [ { open across 1-3 line breaks: nested brackets, strings holding brackets / "
             "prefixes / escapes, an operator spelled like a prefix at a continuation start, colon or tokens after the closing "
             "bracket; line form == block-tag form under trim+lstrip and real tokens == Lean lexer model, whose step "
             "function carries the bracket-balancing stack); "
             "skeleton texts, raw bodies and probe sources carry all three line breaks. Environment histories (harness/envways.py): for "
             "4+ root option sets and every override set (each of trim_blocks, lstrip_blocks, newline_sequence, "
             "keep_trailing_newline alone, all 11 combinations, line prefixes both/one/removed, delimiter sets, mixtures, "
             "none) an overlay of the fresh and of the already used root (Environment(...) or Template(...).environment), "
             "sibling overlays of one used parent, overlay chains of depth 3 used at each level, every parent used again "
             "after its overlays, plus random histories; at every use skeletons sensitive to all four whitespace options "
             "and line-statement sources must render as in a fresh Environment with the options in effect, as the Lean "
             "reference trim-env / lexer model say, and (trim+lstrip) as the block-tag form.",
        note="Trusted: Lean kernel; translator; the delimiter-translation and line-statement equivalences are correspondence "
             "(metamorphic) only. Known finding: a whole-line *comment* written as line comment keeps its newline.",
        design_ref="§5 C13",
    ),
}

NOT_YET = "not yet decided by the Lean model in this revision (machinery for it is not built; see DESIGN.md §8 build order)"

# properties the technique genuinely cannot decide (none so far): id -> reason
NOT_APPLICABLE = {}


def _collect_module_claims():
    """a property runner may carry its own claim: `CLAIM = dict(category=, technique=, text=, note=, design_ref=)`
    in harness/props/cNN.py; entries in the table above win"""
    import ast
    from pathlib import Path
    for p in sorted((Path(__file__).parent / "props").glob("c[0-9][0-9].py")):
        pid = p.stem.upper()
        if pid in CLAIMED:
            continue
        try:
            tree = ast.parse(p.read_text())
        except SyntaxError:
            continue
        for node in tree.body:
            if isinstance(node, ast.Assign) and any(isinstance(t, ast.Name) and t.id == "CLAIM" for t in node.targets):
                try:
                    c = ast.literal_eval(node.value) if not isinstance(node.value, ast.Call) else \
                        {k.arg: ast.literal_eval(k.value) for k in node.value.keywords}
                except Exception:  # noqa
                    continue
                if {"category", "technique", "text", "note", "design_ref"} <= set(c):
                    CLAIMED[pid] = c


_collect_module_claims()
