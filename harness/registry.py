"""Which properties are claimed, at what level, and why.  MANIFEST.json is generated from
this table by tools/mk_manifest.py so that it is always schema-valid and current."""

ALL_IDS = [f"C{i:02d}" for i in range(1, 40)]

# id -> dict(text, note, technique, design_ref, category)
CLAIMED = {
    "C26": dict(
        category="proof",
        technique="Lean 4 refinement proof (LRU model ⊑ reference LRU map, all operation sequences) + "
                  "lock-serialisation theorem over source-derived critical sections + exhaustive "
                  "differential histories and controlled line-level schedules on the real LRUCache",
        text="Theorems (Props/C26.lean, C26Sched.lean): for every capacity >= 1 and every operation sequence the "
             "model of LRUCache returns exactly the reference LRU map's outputs, never exceeds capacity, never takes an "
             "IndexError/ValueError path; every line-level interleaving of lock-bracketed sections equals their serial "
             "execution in lock-acquisition order; the fact that each concurrent method is one such section is read "
             "from utils.py on every run (Gen/LRUSteps.lean) and re-proved by decide. The model is tied to the code by "
             "exhaustive histories (<=4 quick / <=5 thorough mutating ops x 3 keys x capacities 1-3, observers "
             "interleaved), random long histories, and stateless DFS over line-granularity thread schedules whose "
             "histories are checked for linearizability by the Lean reference map.",
        note="Trusted: Lean kernel; hand model Model/LRU.lean (tied by correspondence only); translator for "
             "LRUSteps; threading.Lock mutual exclusion and switching at source-line granularity; capacity >= 1.",
        design_ref="§5 C26",
    ),
    "C07": dict(
        category="proof",
        technique="Lean 4 invariant/refinement proof (LoopContext model = loop specification for all item lists "
                  "and all operation sequences) + exhaustive differential op sequences on LoopContext/"
                  "AsyncLoopContext + end-to-end renders",
        text="Theorems (Props/C07.lean): for every item list, sized or unsized iterable and every finite sequence of "
             "next/attribute operations the LoopContext model (look-ahead slot, lazily cached length) returns exactly "
             "the documented values (loop_attr_values); the items handed out are a prefix of the input in order "
             "(loop_visits_in_order) and all of it once next reports exhaustion (stop_means_all). Tie: every query "
             "pattern of length <=2 (quick) / <=3 (thorough) over the 12 attributes on lists of length 0-4 / 0-6 in "
             "list/tuple/iterator/generator/async-generator form against the real LoopContext and AsyncLoopContext, "
             "random op soups, and rendered for-loops (filter, else, recursive depth) in sync and async environments.",
        note="Trusted: Lean kernel; hand model Model/Loop.lean (tied by correspondence); compiler's for-loop "
             "driver (visit_For) is covered end-to-end only; values are ints.",
        design_ref="§5 C07",
    ),
}

NOT_YET = "not yet decided by the Lean model in this revision (machinery for it is not built; see DESIGN.md §8 build order)"

# properties the technique genuinely cannot decide (none so far): id -> reason
NOT_APPLICABLE = {}
