"""C32 — static introspection (jinja2.meta) over-approximates what a render looks up / loads.

Lean: Model/Scope.lean transcribes Symbols / FrameSymbolVisitor / RootVisitor and the frames the code generator creates;
Props/C32.lean proves that every run (any branch / iteration / call oracle) only fetches names that the analysis reports, and
that every constant template name a load site can request is yielded by find_referenced_templates (or None is).
Tie: L-unit  model `undeclared`/`referenced` == real meta.* on the real parse tree of generated templates;
     L-code  resolve("…") literals of Environment.compile(raw=True) == model resolve sites, ⊆ reported ∪ globals;
             get_template/select_template literals ⊆ referenced;
     L-e2e   renders (sync/async, several data assignments, extends/include/import chains) with a recording Context and a
             recording Environment.join_path/loader.
"""
from __future__ import annotations

import ast as pyast
import asyncio
import sys

from harness import core
from harness.core import Atom

ID = "C32"
LEAN_MODULES = ["JinjaV.Props.C32"]
LEVEL = "proof"
TRUSTED = [
    "Model/Scope.lean is a hand transcription of idtracking.Symbols/FrameSymbolVisitor/RootVisitor, of the frames "
    "compiler.CodeGenerator creates (root, block, for test/body/else, macro, call, filter, with, set-block, scope) and of "
    "meta.find_referenced_templates; tied on every run by exact comparison with meta.* and with the resolve(...) literals "
    "of the generated code on generated templates",
    "the runtime model (context is read only by the `l = resolve(name)` prologue of a frame, once per dynamic entry) is the "
    "reading of compiler.enter_frame; that no other code path of a render reads the context is checked end-to-end only "
    "(recording Context.resolve_or_missing)",
    "the AST encoder of this runner (statement fields, classification of the template expression of "
    "Extends/Include/Import/FromImport into constant / tuple-or-list / dynamic)",
]
ASSUMPTIONS = [
    "templates use the built-in tags (no i18n/do/loopcontrols/debug extensions, no OverlayScope); callables passed as data "
    "do not read the context themselves (pass_context functions are outside the property)",
    "environment.globals at introspection time are the globals at render time",
]

CLAIM = dict(
    category="proof",
    technique="Lean 4 proof over a model of idtracking/compiler frame analysis and of meta.find_referenced_templates "
              "(structural induction over all templates of the fragment, all branch/iteration/call oracles) + exact "
              "differential of the model against meta.* and the generated code + recording-context/loader renders",
    text="Theorems (Props/C32.lean): for every template of the fragment (output, if/elif/else, for with filter/else/recursive, "
         "set, set-block, with, macro, call, filter, block, scoped block, include, import, from-import, extends, autoescape "
         "scope) and every oracle deciding branches, iteration counts, loop recursion and how often macros/call blocks/block "
         "functions are invoked, every name the run fetches from the context is a resolve site of the generated module "
         "(lookups_subset_sites) and hence reported by find_undeclared_variables or an environment global "
         "(lookups_subset_undeclared); the root frame's names are fetched by every run (root_lookups_always); every name the "
         "code generator visits in a frame has a slot assigned by the analysis of that frame chain, so a load never needs an "
         "ad-hoc context read and Symbols.ref cannot fail (refs_never_fail_root, refs_never_fail_block); every template "
         "name an executed Extends/Include/Import/FromImport site can hand to the loader is yielded by "
         "find_referenced_templates unless None is yielded (site_sound, referenced_templates_sound), and by name when the "
         "expression has no dynamic part (site_sound_const). Tie: model == meta.find_undeclared_variables and == "
         "list(meta.find_referenced_templates) on the real parse trees of generated templates (5 ordinary names, special names "
         "loop/self/super/caller/varargs/kwargs, globals; shadowing, conditional assignment, read-before-write, tuple "
         "targets, ns.x assignment, macro defaults, scoped blocks, imports); resolve(...) literals of compile(raw=True) == "
         "model resolve sites in sync and async mode; Symbols.ref failures == model prediction; get_template/select_template "
         "literals of the generated code are yielded; renders with a recording Context/join_path/loader (sync+async, several "
         "data assignments, extends/include/import chains): every context lookup is reported for the template whose code "
         "performed it (lookups made by runtime plumbing - Context.get/__getitem__/get_exported, pass_context globals - are "
         "attributed to the template whose context they read and judged the same way), the root prologue names are always "
         "fetched, every load request is reported for the requesting template; module probe: Template.module, "
         "make_module(vars), make_module_async, import/from-import/include with and without context of templates exporting "
         "public and private top-level names read nothing outside find_undeclared_variables + globals.",
    note="Trusted: Lean kernel; hand model Model/Scope.lean (tied by exact correspondence); the runtime model reads the "
         "context only in frame prologues (compiler.enter_frame) - other runtime paths are covered end-to-end only; extensions "
         "and pass_context callables are out of scope.",
    design_ref="§5 C32",
)

ORD = ["a", "b", "c", "d", "ns"]
SPECIAL = ["loop", "self", "super", "caller", "varargs", "kwargs"]
GLOBALS = ["range", "namespace", "dict", "cycler", "joiner", "lipsum"]
TNAMES = ["base", "t1", "t2", "t3"]


# which templates a generated template of the e2e sets may name (no include/import/extends cycles)
ODD_SPELLINGS = ["./N", "d//N", "d/./N", "/N", "d/N", "N/", "./d/../N", "N.html", "d\\N", " N"]
ACYCLIC = {"main": ["base", "t1", "t2", "t3"], "t1": ["base", "t2", "t3"], "t3": ["base", "t2"], "base": ["t2"], "t2": []}


class OutOfModel(Exception):
    pass


# ------------------------------------------------------------------------------------------------
# real AST -> request
# ------------------------------------------------------------------------------------------------

def enc_expr(nodes, n):
    if n is None:
        return [Atom("None")]
    if isinstance(n, nodes.Name):
        return [Atom("Name"), n.name, Atom(n.ctx)]
    if isinstance(n, nodes.NSRef):
        raise OutOfModel("NSRef inside an expression")
    if isinstance(n, nodes.Stmt):
        raise OutOfModel("statement inside expression")
    return [Atom(type(n).__name__)] + [enc_expr(nodes, c) for c in n.iter_child_nodes()]


def leaves(nodes, t, out):
    if isinstance(t, nodes.Name):
        out.append([Atom("store"), t.name])
    elif isinstance(t, nodes.NSRef):
        out.append([Atom("nsref"), t.name])
    elif isinstance(t, (nodes.Tuple, nodes.List)):
        for i in t.items:
            leaves(nodes, i, out)
    else:
        raise OutOfModel(f"target {type(t).__name__}")
    return out


def names_of(nodes, t):
    ls = leaves(nodes, t, [])
    if any(l[0] != "store" for l in ls):
        raise OutOfModel("nsref as parameter")
    return [l[1] for l in ls]


def enc_titem(nodes, i):
    if isinstance(i, nodes.Const):
        return [Atom("str"), i.value] if isinstance(i.value, str) else Atom("other")
    return Atom("dyn")


def enc_texpr(nodes, t):
    if isinstance(t, nodes.Const):
        v = t.value
        if isinstance(v, str):
            return [Atom("constStr"), v]
        if isinstance(v, (tuple, list)):
            return [Atom("constSeq")] + [[Atom("str"), x] if isinstance(x, str) else Atom("other") for x in v]
        return [Atom("constOther")]
    if isinstance(t, (nodes.Tuple, nodes.List)):
        return [Atom("seq")] + [enc_titem(nodes, i) for i in t.items]
    return [Atom("dyn")]


def enc_stmts(nodes, body):
    return [enc_stmt(nodes, s) for s in body]


def enc_stmt(nodes, s):
    k = type(s)
    if k is nodes.Output:
        return [Atom("Output")] + [enc_expr(nodes, c) for c in s.nodes]
    if k is nodes.If:
        return [Atom("If"), enc_expr(nodes, s.test), enc_stmts(nodes, s.body), enc_stmts(nodes, s.elif_), enc_stmts(nodes, s.else_)]
    if k is nodes.For:
        return [Atom("For"), names_of(nodes, s.target), enc_expr(nodes, s.iter), enc_stmts(nodes, s.body), enc_stmts(nodes, s.else_),
                Atom("none") if s.test is None else enc_expr(nodes, s.test), bool(s.recursive)]
    if k is nodes.Assign:
        return [Atom("Assign"), leaves(nodes, s.target, []), enc_expr(nodes, s.node)]
    if k is nodes.AssignBlock:
        ls = leaves(nodes, s.target, [])
        if len(ls) != 1:
            raise OutOfModel("set block with tuple target")
        return [Atom("AssignBlock"), ls[0], enc_expr(nodes, s.filter), enc_stmts(nodes, s.body)]
    if k is nodes.With:
        tg = []
        for t in s.targets:
            tg += names_of(nodes, t)
        return [Atom("With"), tg, [enc_expr(nodes, v) for v in s.values], enc_stmts(nodes, s.body)]
    if k is nodes.Macro:
        return [Atom("Macro"), s.name, [a.name for a in s.args], [enc_expr(nodes, d) for d in s.defaults], enc_stmts(nodes, s.body)]
    if k is nodes.CallBlock:
        return [Atom("CallBlock"), enc_expr(nodes, s.call), [a.name for a in s.args], [enc_expr(nodes, d) for d in s.defaults],
                enc_stmts(nodes, s.body)]
    if k is nodes.FilterBlock:
        return [Atom("FilterBlock"), enc_expr(nodes, s.filter), enc_stmts(nodes, s.body)]
    if k is nodes.Block:
        return [Atom("Block"), s.name, bool(s.scoped), enc_stmts(nodes, s.body)]
    if k in (nodes.Extends, nodes.Include):
        return [Atom("Ref"), Atom(k.__name__), enc_texpr(nodes, s.template), enc_expr(nodes, s.template), []]
    if k is nodes.Import:
        return [Atom("Ref"), Atom("Import"), enc_texpr(nodes, s.template), enc_expr(nodes, s.template), [s.target]]
    if k is nodes.FromImport:
        binds = [n[1] if isinstance(n, tuple) else n for n in s.names]
        return [Atom("Ref"), Atom("FromImport"), enc_texpr(nodes, s.template), enc_expr(nodes, s.template), binds]
    if k is nodes.Scope:
        return [Atom("Scope"), enc_stmts(nodes, s.body)]
    if k is nodes.ScopedEvalContextModifier:
        return [Atom("EvalCtx"), [enc_expr(nodes, o) for o in s.options], enc_stmts(nodes, s.body)]
    raise OutOfModel(f"statement {k.__name__}")


def request(nodes, env, tree):
    return [Atom("scope-analyze"), [Atom("globals")] + sorted(env.globals), enc_stmts(nodes, tree.body)]


def parse_reply(rep):
    if rep[0] != "ok":
        return None
    d = {}
    for part in rep[1]:
        d[str(part[0])] = part[1:]
    refs = [None if (r == "none" and isinstance(r, Atom)) else r[1] for r in d["referenced"]]
    return {"refok": bool(d["refok"][0]), "sites": sorted(d["sites"]), "undeclared": sorted(d["undeclared"]), "root": sorted(d["root"]), "referenced": refs,
            "runs": [sorted(x) for x in d["runs"]]}


# ------------------------------------------------------------------------------------------------
# generated code: resolve sites and template load sites
# ------------------------------------------------------------------------------------------------

def code_sites(src_py):
    """(set of names in resolve("…")-style calls, list of (func, firstarg-ast) of template load calls)"""
    tree = pyast.parse(src_py)
    res, loads = set(), []
    for n in pyast.walk(tree):
        if not isinstance(n, pyast.Call):
            continue
        f = n.func
        fname = f.id if isinstance(f, pyast.Name) else f.attr if isinstance(f, pyast.Attribute) else None
        if fname in ("resolve", "resolve_or_missing") and len(n.args) == 1 and isinstance(n.args[0], pyast.Constant) \
                and isinstance(n.args[0].value, str):
            res.add(n.args[0].value)
        elif fname in ("resolve", "resolve_or_missing"):
            res.add("<dynamic>")
        if fname in ("get_template", "select_template", "get_or_select_template") and n.args:
            loads.append((fname, n.args[0]))
    return res, loads


def load_consts(arg):
    """(constant strings, has_dynamic_part) of the first argument of a template load call"""
    if isinstance(arg, pyast.Constant):
        v = arg.value
        if isinstance(v, str):
            return [v], False
        if isinstance(v, (tuple, list)):
            return [x for x in v if isinstance(x, str)], False
        return [], True
    if isinstance(arg, (pyast.Tuple, pyast.List)):
        strs, dyn = [], False
        for e in arg.elts:
            if isinstance(e, pyast.Constant):
                if isinstance(e.value, str):
                    strs.append(e.value)
            else:
                dyn = True
        return strs, dyn
    return [], True


# ------------------------------------------------------------------------------------------------
# template generator
# ------------------------------------------------------------------------------------------------

class Gen:
    def __init__(self, rng, e2e=False, extends_ok=True, tnames=None):
        self.rng = rng
        self.tnames = tnames if tnames is not None else TNAMES
        self.e2e = e2e
        self.blocks = 0
        self.extends_ok = extends_ok
        self.feat = set()

    def name(self, special=0.12):
        r = self.rng.random()
        if self.e2e:                      # renders should survive: special names / globals as plain values are rare
            special = special / 4
        if r < special:
            return self.rng.choice(SPECIAL)
        if r < special + (0.02 if self.e2e else 0.06):
            return self.rng.choice(GLOBALS)
        return self.rng.choice(ORD)

    def store_name(self):
        # assigning the special names is legal almost everywhere; keep it rare
        if self.rng.random() < 0.04:
            return self.rng.choice(["self", "caller", "kwargs", "varargs", "super"])
        return self.rng.choice(ORD[:4] if self.rng.random() < 0.9 else ORD)

    def expr(self, d=2):
        r = self.rng
        k = r.randrange(16) if d > 0 else r.randrange(4)
        n = self.name()
        if k <= 2:
            return n
        if k == 3:
            return r.choice(["'s'", "[1, 2]", "[[1, [2]], [3]]", "'xy'"] if self.e2e else ["1", "'s'", "[1, 2]", "true", "none", "[[1, [2]], [3]]"])
        if k == 4:
            return f"{n}.{r.choice(['x', 'y', 'index'])}"
        if k == 5:
            return f"{n}[{self.expr(d - 1)}]"
        if k == 6:
            return f"({self.expr(d - 1)} {r.choice(['+', '~', 'and', 'or', '==', 'in'])} {self.expr(d - 1)})"
        if k == 7:
            return f"({self.expr(d - 1)}|default({self.expr(d - 1)}))"
        if k == 8:
            return f"({self.expr(d - 1)} if {self.expr(d - 1)} else {self.expr(d - 1)})"
        if k == 9:
            return f"({self.expr(d - 1)} is {r.choice(['defined', 'none', 'sameas(' + self.name() + ')'])})"
        if k == 10:
            return f"{n}({self.expr(d - 1)}, k={self.expr(d - 1)})"
        if k == 11 and self.e2e and r.random() < 0.8:
            return r.choice(["range(2)", "namespace(x=1)", "m1(%s)" % self.name(0), "m2()"])
        if k == 11:
            return r.choice(["loop.index", "loop.first", "loop(" + self.name(0) + ")", "self.b0()", "super()", "caller()",
                             "caller(" + self.name(0) + ")", "varargs|length", "kwargs|length", "range(2)", "namespace(x=1)"])
        if k == 12:
            return f"[{self.expr(d - 1)}, {self.expr(d - 1)}]"
        if k == 13:
            return f"{{'k': {self.expr(d - 1)}}}"
        if k == 14:
            return f"(not {self.expr(d - 1)})"
        return f"{n}|join({self.expr(d - 1)})"

    def tref(self, kind):
        r = self.rng
        k = r.randrange(10)
        if k < 6 or (kind != "include" and k < 8):
            return repr(r.choice(self.tnames + ['nope'] if not self.tnames else self.tnames))
        if k == 9 or kind != "include":
            return r.choice(["tn", self.name(0), "tn ~ ''"])
        items = [repr(r.choice(self.tnames + ["nope"])) if r.random() < 0.7 else r.choice(["tn", "3"]) for _ in range(r.randrange(1, 4))]
        return r.choice(["[%s]", "(%s,)"]) % ", ".join(items)

    def target(self):
        r = self.rng
        k = r.randrange(6)
        a, b, c = (self.store_name() for _ in range(3))
        if k < 3:
            return a
        if k < 5:
            return f"{a}, {b}"
        return f"{a}, ({b}, {c})"

    def body(self, d, top=False, n=None):
        n = self.rng.randrange(1, 4) if n is None else n
        return "".join(self.stmt(d, top) for _ in range(n))

    def stmt(self, d, top=False):
        r = self.rng
        k = r.randrange(26) if d > 0 else r.randrange(7)
        if self.e2e and not self.tnames and k in (21, 22, 23, 25):
            k = 0        # a leaf template of the e2e sets references nothing
        f = self.feat.add
        if k <= 2:
            return "{{ %s }}" % self.expr()
        if k in (3, 4):
            f("set")
            kk = r.randrange(6)
            if kk < 3:
                return "{%% set %s = %s %%}" % (self.store_name(), self.expr())
            if kk == 3:
                f("set-tuple")
                return "{%% set %s, %s = %s, %s %%}" % (self.store_name(), self.store_name(), self.expr(1), self.expr(1))
            if kk >= 4 and self.e2e:     # imported / context-less templates have no `ns`: guard so the render goes on
                return "{%% if ns is defined and ns.x is defined %%}{%% set %sns.x = %s2 %%}{%% endif %%}" % (
                    (self.store_name() + ", ", self.expr(1) + ", ") if kk == 5 else ("", ""))
            if kk == 4:
                f("set-ns")
                return "{%% set %s.%s = %s %%}" % ("ns" if self.e2e and r.random() < 0.97 else r.choice(["ns", self.name(0)]),
                                               r.choice(["x", "y"]), self.expr())
            f("set-ns-tuple")
            return "{%% set %s, ns.x = %s, 2 %%}" % (self.store_name(), self.expr(1))
        if k == 5:
            return "x"
        if k == 6:
            return "{{ %s }}{{ %s }}" % (self.name(0), self.name(0))
        if k in (7, 8, 9):
            f("if")
            s = "{%% if %s %%}%s" % (self.expr(), self.body(d - 1, top))
            for _ in range(r.choice([0, 0, 1, 2])):
                f("elif")
                s += "{%% elif %s %%}%s" % (self.expr(1), self.body(d - 1, top))
            if r.random() < 0.5:
                s += "{% else %}" + self.body(d - 1, top)
            return s + "{% endif %}"
        if k in (10, 11, 12):
            f("for")
            it = self.expr(1)
            if self.e2e and r.random() < 0.85:      # something iterable, so that loop bodies are reached
                it = r.choice([self.name(0), self.name(0) + ".x", "[1, 2]", "range(2)", "[[1, [2]], [3]]", self.name(0) + "(1)"])
            s = "{%% for %s in %s" % (self.target(), it)
            if r.random() < 0.25:
                f("for-filter")
                s += " if " + self.expr(1)
            if r.random() < 0.2:
                f("for-recursive")
                s += " recursive"
            s += " %}" + self.body(d - 1)
            if r.random() < 0.3:
                f("for-else")
                s += "{% else %}" + self.body(d - 1)
            return s + "{% endfor %}"
        if k == 13:
            f("set-block")
            flt = r.choice(["", "", " | upper", " | default('z')"])
            if r.random() < 0.1:      # the filter's names belong to the set block's frame (compiler.py:1625, idtracking.py:188-195)
                flt = " | replace(%s, 'q')" % self.name(0)
            return "{%% set %s%s %%}%s{%% endset %%}" % (self.store_name(), flt, self.body(d - 1))
        if k == 14:
            f("with")
            binds = ", ".join("%s = %s" % (self.store_name(), self.expr(1)) for _ in range(r.randrange(0, 3)))
            return "{%% with %s %%}%s{%% endwith %%}" % (binds, self.body(d - 1))
        if k in (15, 16):
            f("macro")
            args = []
            for _ in range(r.randrange(0, 3)):
                a = r.choice(ORD[:4] + (["caller", "kwargs", "varargs"] if r.random() < 0.1 else []))
                if a not in args:
                    args.append(a)
            # defaults only on a suffix of the arguments
            nd = r.randrange(0, len(args) + 1)
            sig = [a if i < len(args) - nd else "%s=%s" % (a, self.expr(1)) for i, a in enumerate(args)]
            return "{%% macro %s(%s) %%}%s{%% endmacro %%}" % (r.choice(["m1", "m2", self.store_name()]), ", ".join(sig), self.body(d - 1))
        if k == 17:
            f("call")
            params = r.choice(["", "", "(%s)" % self.store_name(), "(a, b=%s)" % self.expr(1)])
            callee = "m2" if self.e2e and r.random() < 0.7 else r.choice(["m1", "m2", self.name(0)])
            return "{%% call%s %s(%s) %%}%s{%% endcall %%}" % (params, callee, "" if callee == "m2" and self.e2e else self.expr(1),
                                                             self.body(d - 1))
        if k == 18:
            f("filter")
            return "{%% filter %s %%}%s{%% endfilter %%}" % (r.choice(["upper", "default(%s)" % self.expr(1), "replace(%s, 'q')" % self.name(0)]),
                                                          self.body(d - 1))
        if k in (19, 20):
            f("block")
            self.blocks += 1
            sc = ""
            if r.random() < 0.4:
                f("block-scoped")
                sc = " scoped"
            return "{%% block b%d%s %%}%s{%% endblock %%}" % (self.blocks - 1, sc, self.body(d - 1))
        if k == 21:
            f("include")
            return "{%% include %s%s%s %%}" % (self.tref("include"), r.choice(["", "", " ignore missing"]),
                                               r.choice(["", "", " without context", " with context"]))
        if k == 22:
            f("import")
            return "{%% import %s as %s%s %%}" % (self.tref("import"), r.choice(["m1", self.store_name()]), r.choice(["", " with context"]))
        if k == 23:
            f("from-import")
            items = ", ".join(r.choice(["m1", "m2", "m1 as %s" % self.store_name(), "a as %s" % self.store_name(), "b"])
                              for _ in range(r.randrange(1, 3)))
            return "{%% from %s import %s%s %%}" % (self.tref("import"), items, r.choice(["", " with context"]))
        if k == 24:
            f("autoescape")
            return "{%% autoescape %s %%}%s{%% endautoescape %%}" % (r.choice(["true", "false", self.name(0)]), self.body(d - 1))
        if top and self.extends_ok:
            f("extends")
            self.extends_ok = False
            return "{%% extends %s %%}" % self.tref("extends")
        return "{{ %s }}" % self.expr()

    def template(self, depth):
        r = self.rng
        s = ""
        if self.extends_ok and r.random() < 0.2:
            self.feat.add("extends")
            self.extends_ok = False
            s += "{%% extends %s %%}" % self.tref("extends")
        return s + self.body(depth, top=True, n=r.randrange(1, 6))


# ------------------------------------------------------------------------------------------------
# correspondence
# ------------------------------------------------------------------------------------------------

def analyse_real(jinja2, env, src):
    """parse + introspect + compile; returns dict or ('reject', reason)"""
    from jinja2 import meta, nodes
    try:
        tree = env.parse(src)
    except jinja2.TemplateSyntaxError as e:
        return ("reject", "syntax:" + str(e)[:40])
    try:
        req = request(nodes, env, env.parse(src))
    except OutOfModel as e:
        return ("oom", str(e))
    try:
        und = meta.find_undeclared_variables(tree)
        refs = list(meta.find_referenced_templates(tree))
        code = env.compile(src, name="tpl", raw=True)
    except jinja2.TemplateSyntaxError as e:        # TemplateAssertionError: block defined twice, assignment to loop, ...
        return ("reject", type(e).__name__ + ":" + str(e)[:30])
    except AssertionError as e:
        if "unknown to the frame" in str(e):        # Symbols.ref failed: the model predicts exactly when (refOkTemplate)
            return {"src": src, "req": req, "ref_failed": str(e)}
        return ("reject", "AssertionError:" + str(e)[:30])
    sites, loads = code_sites(code)
    return {"src": src, "undeclared": sorted(und), "referenced": refs, "sites": sorted(sites), "loads": loads, "req": req}


def ref_key(r):
    return (0, "") if r is None else (1, r)


def compare_static(res, src, real, model, globals_, tag, stats):
    """L-unit + L-code for one template; returns True when everything agrees"""
    ok = True
    g = set(globals_)
    rep = {"src": src, "real_undeclared": real["undeclared"], "model_undeclared": model["undeclared"],
           "code_sites": real["sites"], "model_sites": model["sites"], "real_referenced": real["referenced"],
           "model_referenced": model["referenced"], "layer": tag}
    # the property itself on the generated code: a resolve site that is not reported is looked up at render time unreported
    missing = [n for n in real["sites"] if n not in real["undeclared"] and n not in g]
    if missing:
        ok = False
        res.violate("C32:resolve-site-unreported",
                    f"generated code of {src!r} fetches {missing} from the context but find_undeclared_variables reports "
                    f"{real['undeclared']}", rep)
    if real["undeclared"] != model["undeclared"]:
        ok = False
        lost = sorted(set(model["undeclared"]) - set(real["undeclared"]))
        if not missing:
            res.violate("C32:undeclared:model-diff" + (":lost" if lost else ":extra"),
                        f"find_undeclared_variables({src!r}) = {real['undeclared']}, model of idtracking gives {model['undeclared']}",
                        rep, no_input=True)
    if real["sites"] != model["sites"]:
        ok = False
        if not missing:
            res.violate("C32:sites:model-diff", f"resolve sites of compiled {src!r} = {real['sites']}, model {model['sites']}", rep,
                        no_input=True)
    # referenced templates
    if sorted(real["referenced"], key=ref_key) != sorted(model["referenced"], key=ref_key) or real["referenced"] != model["referenced"]:
        ok = False
        res.violate("C32:referenced:model-diff",
                    f"find_referenced_templates({src!r}) = {real['referenced']}, model {model['referenced']}", rep, no_input=True)
    yielded = set(x for x in real["referenced"] if x is not None)
    for fname, arg in real["loads"]:
        strs, dyn = load_consts(arg)
        stats["load_sites"] = stats.get("load_sites", 0) + 1
        lostn = [s for s in strs if s not in yielded]
        if lostn or (dyn and None not in real["referenced"]):
            ok = False
            res.violate("C32:load-site-unreported",
                        f"generated code of {src!r} calls {fname}({pyast.unparse(arg)}) but find_referenced_templates yields "
                        f"{real['referenced']}", rep)
    return ok


def run(ctx, res):
    jinja2 = core.import_jinja()
    from jinja2 import nodes  # noqa
    env = jinja2.Environment()
    aenv = jinja2.Environment(enable_async=True)
    stats = {"rejected": {}, "oom": {}, "features": {}, "sizes": {}}
    cases = []
    seen = set()
    rng = ctx.rng("static")
    n_static = ctx.pick(800, 9000)
    attempts = 0
    for src in FIXED:
        cases.append(src)
        seen.add(src)
    while len(cases) < n_static + len(FIXED) and attempts < 4 * n_static:
        attempts += 1
        g = Gen(rng)
        src = g.template(rng.choice([1, 2, 2, 3]))
        if src in seen:
            continue
        seen.add(src)
        cases.append(src)
        for ft in g.feat:
            stats["features"][ft] = stats["features"].get(ft, 0) + 1
    reals, reqs = [], []
    for src in cases:
        try:
            r = analyse_real(jinja2, env, src)
        except core.HarnessError:
            raise
        except Exception as e:  # noqa  -- the implementation failed in an unforeseen way on this template: an observation
            r = ("reject", "unexpected-" + type(e).__name__ + ":" + str(e)[:40])
        if isinstance(r, tuple):
            kind, why = r
            key = why.split(":")[0] if kind == "reject" else why
            stats["rejected" if kind == "reject" else "oom"][key] = stats["rejected" if kind == "reject" else "oom"].get(key, 0) + 1
            continue
        if "ref_failed" in r:
            reals.append(r)
            reqs.append(r["req"])
            continue
        # async code generation must have the same sites
        try:
            asites, _ = code_sites(aenv.compile(src, name="tpl", raw=True))
            r["async_sites"] = sorted(asites)
        except Exception as e:  # noqa
            r["async_sites"] = ["<async compile failed: %s>" % type(e).__name__]
        reals.append(r)
        reqs.append(r["req"])
    if not reals:
        raise core.HarnessError("C32: none of the generated templates could be parsed/introspected/compiled: "
                                + str(stats["rejected"])[:300])
    replies = core.driver_batch(reqs)
    evaluations, nontrivial, agree = 0, set(), 0
    shadow = 0
    for r, rep in zip(reals, replies):
        model = parse_reply(rep)
        evaluations += 1
        if model is None:
            res.violate("C32:model:bad-reply", f"driver reply {rep!r} for {r['src']!r}", {"src": r["src"]}, no_input=True)
            continue
        if ("ref_failed" in r) == model["refok"]:
            res.violate("C32:refok:model-diff",
                        f"compiling {r['src']!r}: " + (f"Symbols.ref failed ({r['ref_failed']})" if "ref_failed" in r else "succeeded")
                        + f", model refOkTemplate = {model['refok']}", {"src": r["src"]}, no_input=True)
        if "ref_failed" in r:
            stats["ref_failed"] = stats.get("ref_failed", 0) + 1
            continue
        b = len(r["src"]) // 250
        stats["sizes"][b * 250] = stats["sizes"].get(b * 250, 0) + 1
        ok = compare_static(res, r["src"], r, model, env.globals, "static", stats)
        if r["async_sites"] != r["sites"]:
            ok = False
            res.violate("C32:sites:async-diff", f"async code of {r['src']!r} has resolve sites {r['async_sites']}, sync {r['sites']}",
                        {"src": r["src"]}, no_input=True)
        agree += ok
        # non-trivial: some name occurs in the template that is NOT reported (bound somewhere) and some name is reported
        names_in_src = {n for n in ORD + SPECIAL if n in r["src"]}
        if r["undeclared"] and (names_in_src - set(r["undeclared"])):
            nontrivial.add(r["src"])
        if set(model["runs"][0]) != set(model["runs"][1]):
            shadow += 1
    e2e = run_e2e(ctx, res, jinja2, stats)
    modp = run_module_probe(ctx, res, jinja2)
    res.coverage.update({
        "evaluations": evaluations + e2e["renders"] + modp["operations"],
        "distinct_nontrivial": len(nontrivial) + e2e["distinct"] + modp["distinct"],
        "module_probe": modp,
        "rule": "random templates over 5 ordinary names + loop/self/super/caller/varargs/kwargs + globals, built from output, set "
                "(tuple, ns.x), set-block, if/elif/else, for (tuple targets, filter, else, recursive), with, macro (defaults), call, "
                "filter, block (scoped), include/import/from-import/extends (constant, list/tuple, dynamic), autoescape; the real parse "
                "tree is sent to the Lean model; non-trivial = at least one name reported and at least one occurring name not reported "
                "(bound by the template); e2e: template sets in a DictLoader rendered sync+async on random data with recording "
                "Context/join_path/loader; module probe: leaf templates with public/private top-level set and macro names through "
                "Template.module, make_module(vars), make_module_async, import / from-import / include with and without context",
        "samples": [reals[i]["src"] for i in range(len(FIXED), min(len(reals), len(FIXED) + 4))],
        "static_templates": evaluations, "static_agree": agree, "runs_differ_between_oracles": shadow,
        "rejected_by_compiler": stats["rejected"], "out_of_model": stats["oom"], "feature_counts": stats["features"],
        "source_length_histogram": dict(sorted(stats["sizes"].items())), "load_sites_checked": stats.get("load_sites", 0),
        "symbols_ref_failures_predicted_by_model": stats.get("ref_failed", 0),
        "e2e": e2e,
    })


# fixed shapes that must always be exercised (scoping corner cases found while reading idtracking.py)
FIXED = [
    "{% set foo = 42 %}{{ bar + foo }}",
    "{{ x }}{% set x = 1 %}",
    "{% for i in [1] %}{{ y }}{% endfor %}{% set y = 1 %}",
    "{% if c %}{% set x = 1 %}{% endif %}{{ x }}",
    "{% if c %}{{ x }}{% else %}{% set x = 1 %}{% endif %}{{ x }}",
    "{% if a %}{% if b %}{{ x }}{% else %}{% set x = 1 %}{% endif %}{% endif %}",
    "{% if a %}{% set x = 1 %}{% elif b %}{{ x }}{% elif c %}{% set y = x %}{% else %}{{ y }}{% endif %}",
    "{% for a in xs %}{% if a %}{% set b = 1 %}{% endif %}{{ b }}{% endfor %}{{ b }}",
    "{% set x = 1 %}{% block b %}{{ x }}{% endblock %}",
    "{% for i in xs %}{% block b scoped %}{{ i }}{{ loop.index }}{% endblock %}{% endfor %}",
    "{% macro m(a, b=c) %}{{ a }}{{ b }}{{ d }}{{ caller() }}{{ varargs }}{{ kwargs }}{% endmacro %}",
    "{% macro m(a=b, b=1) %}{{ a }}{% endmacro %}{% call(x) m() %}{{ x }}{{ y }}{% endcall %}",
    "{% for x in x %}{{ x }}{% endfor %}",
    "{% for a, (b, c) in xs if b and d %}{{ loop.index }}{% else %}{{ e }}{{ loop }}{% endfor %}",
    "{% for a in xs recursive %}{{ loop(a) }}{% endfor %}",
    "{% with a = b, b = a %}{{ a }}{{ b }}{% endwith %}{{ a }}",
    "{% set ns = namespace(x=1) %}{% set ns.x = y %}{% set q.z = 1 %}",
    "{% set a, ns.x = 1, 2 %}{{ a }}",
    "{% set a %}{{ b }}{% set b = 1 %}{% endset %}{{ b }}",
    "{% filter replace(a, b) %}{{ c }}{% endfilter %}",
    "{% import 'm' as a %}{{ a.x }}{% from 'm' import b as c, d %}{{ c }}{{ d }}{{ b }}",
    "{% extends 'base' %}{% include helper %}{% include ['a', x] %}{% include ('p', 'q') %}{% import x as y %}",
    "{% extends layout %}{{ self.b() }}{% block b %}{{ super() }}{{ self }}{% endblock %}",
    "{% autoescape q %}{{ z }}{% set w = 1 %}{% endautoescape %}{{ w }}",
    "{{ self }}{% set self = 1 %}{% block c %}{% set super = 2 %}{{ super }}{{ self }}{% endblock %}",
    "{% macro m() %}{% set caller = 1 %}{{ caller }}{{ kwargs }}{% endmacro %}",
    "{% macro m(caller=1, kwargs=2) %}{{ caller }}{{ kwargs }}{{ varargs }}{% endmacro %}",
    "{% for a in b %}{% for c in d %}{{ loop.x }}{% endfor %}{% set e = loop %}{% endfor %}",
    "{{ range(3) }}{{ dict(a=b) }}{{ namespace }}{% set range = 1 %}{{ range }}",
    "{% if a %}{% extends 'x' %}{% endif %}{{ b }}",
    "{% set x | replace(a, 'b') %}hi{% endset %}{{ x }}",
    "{{ a }}{% set x | replace(a, 'b') %}hi{% endset %}{{ x }}",
    "{% block k %}{% set x | default(zz) %}{% endset %}{% endblock %}",
]


# ------------------------------------------------------------------------------------------------
# end to end
# ------------------------------------------------------------------------------------------------

def make_recording(jinja2, log):
    from jinja2.runtime import Context

    class RecContext(Context):
        def resolve_or_missing(self, key):
            # who performed the lookup: generated template code (its module globals carry `name`, `root`, `blocks`), or runtime
            # plumbing (Context.get/__getitem__/resolve/get_exported/…, an extension's pass_context global): such a lookup is
            # attributed to the template whose context it is made on and judged like any other
            try:
                fr = sys._getframe(1)
                g = fr.f_globals
                if "root" in g and "blocks" in g and "debug_info" in g:
                    who, via = g.get("name"), "code"
                else:
                    fn, depth = fr.f_code.co_name, 0
                    while fr is not None and depth < 4 and fr.f_code.co_name in ("resolve", "get", "__getitem__", "__contains__", "<dictcomp>"):
                        fr = fr.f_back
                        depth += 1
                        if fr is not None:
                            fn = fr.f_code.co_name
                    who, via = self.name, "plumbing:" + str(fn)
            except Exception:  # noqa
                who, via = self.name, "plumbing:?"
            who = who if isinstance(who, str) else "<unnamed>"
            log["lookups"].append((who, str(self.name), key if isinstance(key, str) else "<%s>" % type(key).__name__, via))
            return super().resolve_or_missing(key)

    class RecLoader(jinja2.DictLoader):
        def get_source(self, environment, template):
            log["sources"].append(template if isinstance(template, str) else None)
            return super().get_source(environment, template)

    class RecEnv(jinja2.Environment):
        def join_path(self, template, parent):
            log["requests"].append((parent, template if isinstance(template, str) else None))
            return super().join_path(template, parent)

    return RecContext, RecLoader, RecEnv


class NS:
    """attribute bag with a couple of attributes"""

    def __init__(self):
        self.x = [1, 2]
        self.y = "y"
        self.index = 3

    def __call__(self, *a, **k):
        return "called"


class Any:
    """a value that survives most template operations: attribute/item access, calls, iteration (two children, bounded depth),
    arithmetic, string conversion; truthiness fixed per object"""

    def __init__(self, depth, truth, rng_bits=0):
        self._d = depth
        self._t = truth
        self._b = rng_bits

    def _child(self, i=0):
        return Any(self._d - 1, bool((self._b >> i) & 1), self._b >> 1)

    def __getattr__(self, n):
        if n.startswith("_") or n.startswith("jinja_"):
            raise AttributeError(n)
        return Any(self._d, not self._t, self._b >> 1)

    def __getitem__(self, k):
        return Any(self._d, self._t, self._b >> 1)

    def __call__(self, *a, **k):
        return Any(self._d, self._t, self._b >> 2)

    def __iter__(self):
        return iter([self._child(0), self._child(1)] if self._d > 0 else [])

    def __len__(self):
        return 2 if self._d > 0 else 0

    def __bool__(self):
        return self._t

    def __contains__(self, x):
        return self._t

    def __str__(self):
        return "A"

    def __hash__(self):
        return 7

    def __eq__(self, o):
        return self is o

    def _same(self, *a):
        return self

    __add__ = __radd__ = __sub__ = __rsub__ = __mul__ = __rmul__ = _same


def make_ns(jinja2):
    from jinja2.utils import Namespace

    class NSAny(Namespace):
        """a real Namespace (so `{% set ns.x = … %}` works) that also survives iteration / calls / arithmetic"""

        def __iter__(self):
            return iter([])

        def __call__(self, *a, **k):
            return self

        def __len__(self):
            return 0

        def __contains__(self, x):
            return False

        def _same(self, *a):
            return self

        __add__ = __radd__ = __getitem__ = _same

    return NSAny


def make_undefined(jinja2):
    class Soft(jinja2.ChainableUndefined):
        def _self(self, *a, **k):
            return self

        __call__ = __add__ = __radd__ = __sub__ = __rsub__ = __mul__ = __rmul__ = __getitem__ = _self

        def __contains__(self, x):
            return False

    return Soft


def make_data(jinja2, rng):
    from jinja2.utils import Namespace
    anyv = lambda: Any(rng.choice([2, 3, 3, 4]), rng.random() < 0.6, rng.getrandbits(16))  # noqa
    vals = [anyv] * 100 + [lambda: 0, lambda: 1, lambda: "s", lambda: [1, 2], lambda: [], lambda: [[1, [2]], [3]], lambda: {"x": 1, "k": 2},
            lambda: NS(), lambda: Namespace(x=1), lambda: (lambda *a, **k: "f"), lambda: [(1, (2, 3)), (4, (5, 6))], lambda: None,
            lambda: True]
    data = {}
    for n in ORD + ["tn"] + SPECIAL:
        p = 0.75 if n in ORD else 0.15
        if rng.random() < p:
            data[n] = rng.choice(vals)()
    if "tn" in data or rng.random() < 0.7:
        data["tn"] = rng.choice(["t2", "t2", "t2", "nope"])      # t2 is a leaf: dynamic references cannot close a cycle
    if rng.random() < 0.97:
        data["ns"] = make_ns(jinja2)(x=0, y=anyv())
    return data


def run_e2e(ctx, res, jinja2, stats):
    import warnings
    from jinja2 import meta
    warnings.simplefilter("ignore", RuntimeWarning)     # repr of an AsyncLoopContext leaves a never-awaited coroutine
    rng = ctx.rng("e2e")
    nsets = ctx.pick(60, 900)
    ndata = ctx.pick(3, 5)
    renders = 0
    distinct = set()
    lookups_total = requests_total = 0
    outcome = {}
    messages = {}
    plumbing = {}
    unattributed = 0
    lower_checked = 0
    from jinja2 import nodes
    all_sets = []
    for si in range(nsets):
        srcs = {}
        tries = 0
        while len(srcs) < 5 and tries < 200:
            tries += 1
            nm = ["main", "base", "t1", "t2", "t3"][len(srcs)]
            g = Gen(rng, e2e=True, extends_ok=(nm in ("main", "t1")), tnames=ACYCLIC[nm])
            src = g.template(rng.choice([1, 2, 2, 3] if nm == "main" else [1, 1, 2]))
            if nm == "t2":  # the import target: make sure it exports macros
                src = "{% macro m1(a) %}{{ a }}{{ " + rng.choice(ORD) + " }}{% endmacro %}{% macro m2() %}{{ caller() }}{% endmacro %}" + src
            if nm == "main" and rng.random() < 0.7:
                src = "{% from 't2' import m1, m2 %}" + src
            if nm == "base":
                src = "{% block b0 %}{{ " + rng.choice(ORD) + " }}{% endblock %}" + src.replace("block b0", "block bz")
            try:
                probe = jinja2.Environment()
                meta.find_undeclared_variables(probe.parse(src))
                probe.compile(src, raw=True)
            except Exception:  # noqa
                continue
            srcs[nm] = src
        if len(srcs) == 5:
            if rng.random() < 0.4:
                # template names are opaque strings to everything but a loader: spell some of them with empty / `.` segments,
                # a leading slash or a directory, in the sources and as loader keys alike — the loader must be asked for exactly
                # the name that find_referenced_templates reports
                spell = {nm: rng.choice(ODD_SPELLINGS).replace("N", nm) for nm in ("base", "t1", "t2", "t3") if rng.random() < 0.7}
                ren = {}
                for nm, src in srcs.items():
                    for a, b in spell.items():
                        src = src.replace(repr(a), repr(b)).replace('"' + a + '"', '"' + b + '"')
                    ren[spell.get(nm, nm)] = src
                srcs = ren
            all_sets.append((si, srcs))
    # the model's view of every template of every set (one driver batch)
    probe = jinja2.Environment()
    flat = [(si, nm, src) for si, srcs in all_sets for nm, src in srcs.items()]
    models = {}
    replies = core.driver_batch([request(nodes, probe, probe.parse(src)) for _si, _nm, src in flat])
    for (si, nm, _src), rep in zip(flat, replies):
        models[(si, nm)] = parse_reply(rep)
    for si, srcs in all_sets:
        for is_async in (False, True):
            log = {"lookups": [], "sources": [], "requests": []}
            RecContext, RecLoader, RecEnv = make_recording(jinja2, log)
            env = RecEnv(loader=RecLoader(srcs), enable_async=is_async,
                         undefined=make_undefined(jinja2) if si % 2 else jinja2.Undefined)
            env.context_class = RecContext
            globs = set(env.globals)
            reported, referenced = {}, {}
            try:
                for nm, src in srcs.items():
                    tree = env.parse(src)
                    reported[nm] = set(meta.find_undeclared_variables(tree))
                    referenced[nm] = list(meta.find_referenced_templates(tree))
            except Exception as e:  # noqa  -- the implementation refuses a template the probe environment accepted: observation
                k = "introspection:" + type(e).__name__
                messages[k] = messages.get(k, 0) + 1
                continue
            union = set().union(*reported.values())
            for di in range(ndata):
                drng = ctx.rng("e2e-data", si, di)
                data = make_data(jinja2, drng)
                for k in log:
                    log[k].clear()
                try:
                    t = env.get_template("main")
                    if is_async:
                        asyncio.run(t.render_async(data))
                    else:
                        t.render(data)
                    oc = "ok"
                except RecursionError:
                    oc = "RecursionError"
                except Exception as e:  # noqa
                    oc = type(e).__name__
                    msg = oc + ":" + str(e)[:48]
                    messages[msg] = messages.get(msg, 0) + 1
                outcome[oc] = outcome.get(oc, 0) + 1
                renders += 1
                lookups_total += len(log["lookups"])
                requests_total += len(log["requests"])
                distinct.add((si, is_async, di, tuple(sorted(set(log["lookups"]), key=repr)), tuple(map(repr, log["requests"]))))
                replay = {"templates": srcs, "data_seed": [si, di], "data_keys": sorted(data), "async": is_async, "outcome": oc}
                for who, ctxname, key, via in sorted(set(log["lookups"]), key=repr):
                    if who in reported:
                        allowed = reported[who] | globs
                    else:
                        unattributed += 1
                        allowed = union | globs
                    if via != "code":
                        plumbing[via] = plumbing.get(via, 0) + 1
                    if key not in allowed:
                        res.violate("C32:e2e:lookup-unreported" + ("" if via == "code" else ":plumbing"),
                                    f"render ({'async' if is_async else 'sync'}) fetched {key!r} from the context "
                                    + (f"in code of template {who!r}" if via == "code" else f"of template {who!r} in runtime {via}")
                                    + f" (context of {ctxname!r}); find_undeclared_variables({who!r}) reports "
                                    f"{sorted(reported.get(who, union))}", dict(replay, lookup=[who, ctxname, key, via]))
                # ties the runtime model: (lower bound, theorem root_lookups_always) the root function of "main" always runs its
                # prologue, so the model's root-frame names must have been fetched; (upper bound) what the code of a template
                # fetched are resolve sites of the model
                looked = {}
                for who, _c, key, via in log["lookups"]:
                    if via == "code":
                        looked.setdefault(who, set()).add(key)
                m = models.get((si, "main"))
                if m is not None and oc != "RecursionError":
                    lower_checked += 1
                    notseen = sorted(set(m["root"]) - looked.get("main", set()))
                    if notseen:
                        res.violate("C32:e2e:root-prologue:model-diff",
                                    f"model says the root frame of 'main' fetches {m['root']} on entry; the render did not fetch {notseen}",
                                    dict(replay, model_root=m["root"]), no_input=True)
                for who, keys in looked.items():
                    m = models.get((si, who))
                    if m is not None and not keys <= set(m["sites"]):
                        res.violate("C32:e2e:sites:model-diff",
                                    f"code of {who!r} fetched {sorted(keys - set(m['sites']))} which are not resolve sites of the model "
                                    f"{m['sites']}", dict(replay, template=who), no_input=True)
                for parent, name in set(log["requests"]):
                    refs = referenced.get(parent)
                    if refs is None or name is None:      # a non-string is not a template name
                        continue
                    if name not in refs and None not in refs:
                        res.violate("C32:e2e:load-unreported",
                                    f"template {parent!r} requested {name!r} at render time; find_referenced_templates yields {refs}",
                                    dict(replay, request=[parent, name]))
                requested = {n for _p, n in log["requests"]} | {"main"}
                for s in log["sources"]:
                    if s is not None and s not in requested:
                        res.violate("C32:e2e:load-unattributed", f"loader was asked for {s!r} without a join_path request",
                                    dict(replay, source=s), no_input=True)
    boundary = run_extension_boundary(res, jinja2)
    return {"i18n_alias_boundary_case": boundary, "template_sets": nsets, "renders": renders, "distinct": len(distinct), "context_lookups": lookups_total,
            "load_requests": requests_total, "outcomes": outcome, "unattributed_lookups": unattributed,
            "root_prologue_lower_bound_checked": lower_checked,
            "plumbing_lookups_by_runtime_function": plumbing,
            "top_render_errors": dict(sorted(messages.items(), key=lambda kv: -kv[1])[:8])}


# ------------------------------------------------------------------------------------------------
# L-unit: building a TemplateModule must not read the context beyond what is reported
# ------------------------------------------------------------------------------------------------

MODULE_OPS = ["module", "make_module", "import", "from-import", "include-nocontext", "import-context", "include-context"]


def module_case(rng):
    """a leaf library template exporting public/private top-level names + the templates that use it"""
    g = Gen(rng, e2e=True, extends_ok=False, tnames=[])
    pub = []
    for cand in rng.sample(ORD[:4] + ["pub", "_priv", "other"], k=rng.randrange(1, 4)):
        pub.append(cand)
    head = "".join("{%% set %s = %s %%}" % (p, g.expr(1)) for p in pub)
    head += "{% macro mac(a) %}{{ a }}{{ " + g.name(0) + " }}{% endmacro %}"
    if rng.random() < 0.5:
        head += "{% macro _hidden() %}{{ " + g.name(0) + " }}{% endmacro %}"
    lib = head + g.body(rng.choice([1, 1, 2]), top=True, n=rng.randrange(0, 4))
    first = pub[0]
    return {
        "lib": lib,
        "import": "{% import 'lib' as L %}{{ L.mac(1) }}{{ L." + first + " }}",
        "from-import": "{% from 'lib' import mac, " + first + " as q %}{{ mac(2) }}{{ q }}",
        "include-nocontext": "{{ " + g.name(0) + " }}{% include 'lib' without context %}",
        "import-context": "{% import 'lib' as L with context %}{{ L.mac(1) }}",
        "include-context": "{% set " + first + " = 5 %}{% include 'lib' %}",
    }


def module_op(env, op, is_async, data):
    """perform one module-building operation; implementation exceptions are part of the observation"""
    try:
        if op == "module":
            t = env.get_template("lib")
            if is_async:
                asyncio.run(t.make_module_async())
            else:
                t.module  # noqa
        elif op == "make_module":
            t = env.get_template("lib")
            if is_async:
                asyncio.run(t.make_module_async(dict(data)))
            else:
                t.make_module(dict(data))
        else:
            t = env.get_template(op)
            if is_async:
                asyncio.run(t.render_async(data))
            else:
                t.render(data)
        return "ok"
    except RecursionError:
        return "RecursionError"
    except Exception as e:  # noqa
        return type(e).__name__


def judge_module(res, log, reported, globs, replay_case, plumbing):
    bad = 0
    for who, ctxname, key, via in sorted(set(log["lookups"]), key=repr):
        if via != "code":
            plumbing[via] = plumbing.get(via, 0) + 1
        allowed = (reported[who] if who in reported else set().union(*reported.values())) | globs
        if key not in allowed:
            bad += 1
            res.violate("C32:module:lookup-unreported" + ("" if via == "code" else ":plumbing"),
                        f"{replay_case['op']} ({'async' if replay_case['async'] else 'sync'}) of a template exporting top-level names "
                        f"fetched {key!r} from the context of {ctxname!r} "
                        + (f"in code of {who!r}" if via == "code" else f"in runtime {via}")
                        + f"; find_undeclared_variables({who!r}) reports {sorted(reported.get(who, []))}",
                        dict(replay_case, lookup=[who, ctxname, key, via]))
    return bad


def run_module_probe(ctx, res, jinja2):
    from jinja2 import meta
    rng = ctx.rng("module")
    ncases = ctx.pick(60, 600)
    operations, distinct, outcomes, plumbing, lookups = 0, set(), {}, {}, 0
    skipped = 0
    for ci in range(ncases):
        srcs = module_case(rng)
        try:
            probe = jinja2.Environment()
            reported = {nm: set(meta.find_undeclared_variables(probe.parse(src))) for nm, src in srcs.items()}
            for src in srcs.values():
                probe.compile(src, raw=True)
        except Exception:  # noqa  -- rejected by the implementation: nothing to observe
            skipped += 1
            continue
        for is_async in (False, True):
            log = {"lookups": [], "sources": [], "requests": []}
            RecContext, RecLoader, RecEnv = make_recording(jinja2, log)
            # soft undefined: the module body should run to its end, where the exported names are collected
            env = RecEnv(loader=RecLoader(srcs), enable_async=is_async, undefined=make_undefined(jinja2))
            env.context_class = RecContext
            globs = set(env.globals)
            data = make_data(jinja2, ctx.rng("module-data", ci))
            for op in MODULE_OPS:
                for k in log:
                    log[k].clear()
                oc = module_op(env, op, is_async, data)
                operations += 1
                outcomes[oc] = outcomes.get(oc, 0) + 1
                lookups += len(log["lookups"])
                distinct.add((ci, is_async, op, tuple(sorted(set(log["lookups"]), key=repr))))
                judge_module(res, log, reported, globs,
                             {"templates": srcs, "op": op, "async": is_async, "module_data_seed": ci, "outcome": oc}, plumbing)
    return {"cases": ncases, "skipped": skipped, "operations": operations, "distinct": len(distinct), "outcomes": outcomes,
            "context_lookups": lookups, "plumbing_lookups_by_runtime_function": plumbing, "ops": MODULE_OPS}


def run_extension_boundary(res, jinja2):
    """One fixed case outside the generated fragment: the i18n extension's `_` global is a pass_context function that reads
    `gettext` from the render context (ext.py `_gettext_alias`: `__context.resolve("gettext")`)."""
    from jinja2 import meta
    log = {"lookups": [], "sources": [], "requests": []}
    RecContext, _RecLoader, RecEnv = make_recording(jinja2, log)
    env = RecEnv(extensions=["jinja2.ext.i18n"])
    env.context_class = RecContext
    src = "{{ _('x') }}"
    reported = set(meta.find_undeclared_variables(env.parse(src)))
    try:
        out = env.from_string(src).render(gettext=lambda s: s.upper())
    except Exception as e:  # noqa
        out = "raised:" + type(e).__name__
    fetched = {e[2] for e in log["lookups"]}
    missing = sorted(fetched - reported - set(env.globals))
    if missing:
        res.violate("C32:e2e:i18n-underscore-alias:gettext",
                    f"i18n extension, translations not installed: {src!r} rendered with gettext in the context gives {out!r}; the "
                    f"render fetched {missing} from the context, find_undeclared_variables reports {sorted(reported)} and "
                    f"{missing} are not environment globals",
                    {"src": src, "extensions": ["jinja2.ext.i18n"], "data_keys": ["gettext"], "fetched": sorted(fetched)})
    return {"fetched": sorted(fetched), "reported": sorted(reported), "output": out}


def replay(ctx, case):
    jinja2 = core.import_jinja()
    from jinja2 import meta
    c = case["case"]
    out = {}
    if "src" in c:
        env = jinja2.Environment(extensions=c.get("extensions", []))
        tree = env.parse(c["src"])
        out["undeclared"] = sorted(meta.find_undeclared_variables(tree))
        out["referenced"] = list(meta.find_referenced_templates(tree))
        out["code_sites"] = sorted(code_sites(env.compile(c["src"], raw=True))[0])
        return out
    if "templates" in c and "op" in c:
        log = {"lookups": [], "sources": [], "requests": []}
        RecContext, RecLoader, RecEnv = make_recording(jinja2, log)
        env = RecEnv(loader=RecLoader(c["templates"]), enable_async=c["async"], undefined=make_undefined(jinja2))
        env.context_class = RecContext
        oc = module_op(env, c["op"], c["async"], make_data(jinja2, ctx.rng("module-data", c["module_data_seed"])))
        return {"outcome": oc, "lookups": sorted(set(map(repr, log["lookups"]))),
                "reported": {n: sorted(meta.find_undeclared_variables(env.parse(s))) for n, s in c["templates"].items()}}
    if "templates" in c:
        log = {"lookups": [], "sources": [], "requests": []}
        RecContext, RecLoader, RecEnv = make_recording(jinja2, log)
        env = RecEnv(loader=RecLoader(c["templates"]), enable_async=c["async"], cache_size=0)
        env.context_class = RecContext
        si, di = c["data_seed"]
        data = make_data(jinja2, ctx.rng("e2e-data", si, di))
        try:
            t = env.get_template("main")
            asyncio.run(t.render_async(data)) if c["async"] else t.render(data)
            oc = "ok"
        except Exception as e:  # noqa
            oc = type(e).__name__
        out = {"outcome": oc, "lookups": sorted(set(map(repr, log["lookups"]))), "requests": log["requests"],
               "reported": {n: sorted(meta.find_undeclared_variables(env.parse(s))) for n, s in c["templates"].items()},
               "referenced": {n: list(meta.find_referenced_templates(env.parse(s))) for n, s in c["templates"].items()}}
    return out
