"""C13 — equivalent syntax configurations render identically; environments do not disturb each other."""
from __future__ import annotations

from harness import core
from harness import envways as ew
from harness import lexcommon as lc
from harness.core import Atom
from harness.props.c12 import gen_seg
from translate import lexer_key

ID = "C13"
GEN = [lexer_key.gen]
LEAN_MODULES = ["JinjaV.Props.C13"]
LEVEL = "proof"
TRUSTED = [
    "translator translate/lexer_key.py (key tuple of get_lexer, attributes read by Lexer.__init__/compile_rules, cache protocol shape)",
    "the delimiter-translation, line-statement, Template(...) and overlay equivalences are established by metamorphic "
    "renders (correspondence), not by a theorem; the LRU behind _lexer_cache is the model proved in C26",
    "harness/envways.py: the options in effect of an environment are computed from its history (constructor options updated "
    "by overlay deltas); Wire/EnvWays.lean trim-env extends the Spec/Trim reference by keep_trailing_newline and "
    "newline_sequence as docs/api.rst words them",
]
ASSUMPTIONS = ["skeleton texts share no characters with any of the delimiter sets used"]

DELIMS = [
    ("default", {}),
    ("erb", dict(block_start_string="<%", block_end_string="%>", variable_start_string="<%=", variable_end_string="%>",
                 comment_start_string="<%#", comment_end_string="%>")),
    ("php", dict(block_start_string="<?", block_end_string="?>", variable_start_string="<?=", variable_end_string="?>",
                 comment_start_string="<!--", comment_end_string="-->")),
    ("paren", dict(block_start_string="((", block_end_string="))", variable_start_string="(((", variable_end_string=")))",
                   comment_start_string="((#", comment_end_string="#))")),
    ("latex", dict(block_start_string="\\BLOCK{", block_end_string="}", variable_start_string="\\VAR{", variable_end_string="}",
                   comment_start_string="\\#{", comment_end_string="}")),
    ("brackets", dict(block_start_string="[%", block_end_string="%]", variable_start_string="[[", variable_end_string="]]",
                      comment_start_string="[#", comment_end_string="#]")),
    ("dollar", dict(variable_start_string="${", variable_end_string="}$")),
    ("long", dict(block_start_string="<<<%", block_end_string="%>>>", variable_start_string="<<<=", variable_end_string="=>>>",
                  comment_start_string="<<<#", comment_end_string="#>>>")),
]


def render(env_or_none, jinja2, src, c=None):
    try:
        if env_or_none is None:
            return jinja2.Template(src, **c).render()
        return env_or_none.from_string(src).render()
    except Exception as e:  # noqa
        return f"raised:{type(e).__name__}:{e}"


def run(ctx, res):
    jinja2 = core.import_jinja()
    rng = ctx.rng("c13")
    nsk = ctx.pick(250, 2500)
    skeletons = [[gen_seg(rng) for _ in range(rng.randrange(1, 7))] for _ in range(nsk)]
    total, distinct = 0, set()
    base_envs = {}
    samples = []
    for ti, (trim, lstrip) in enumerate([(False, False), (True, True), (True, False), (False, True)]):
        cfgs = []
        for name, d in DELIMS:
            c = lc.cfg(trim_blocks=trim, lstrip_blocks=lstrip, keep_trailing_newline=True, **d)
            cfgs.append((name, c))
        # sources for every delimiter set from the same segments (unparse in Lean)
        srcs = {}
        for name, c in cfgs:
            reps = core.driver_batch([[Atom("trim"), lc.enc_cfg(c), s] for s in skeletons])
            srcs[name] = [r[1] if r[0] == "ok" else None for r in reps]
        envs = {name: jinja2.Environment(**c) for name, c in cfgs}
        base_envs[ti] = (envs["default"], srcs["default"])
        root = jinja2.Environment()
        list(root.lex("{{ x }}"))
        for i in range(len(skeletons)):
            ref = render(envs["default"], jinja2, srcs["default"][i])
            # environments are interleaved: every skeleton goes through all configurations in turn
            for name, c in cfgs:
                src = srcs[name][i]
                if src is None:
                    continue
                ways = [("environment", lambda: render(envs[name], jinja2, src)),
                        ("template-ctor", lambda: render(None, jinja2, src, c)),
                        ("overlay", lambda: render(root.overlay(**c), jinja2, src)),
                        ("overlay-chain", lambda: render(root.overlay(**lc.cfg(trim_blocks=not trim)).overlay(**c), jinja2, src))]
                for wname, f in (ways if i % 4 == 0 or not ctx.quick else ways[: 1 + i % 3]):
                    got = f()
                    total += 1
                    distinct.add((ti, i, name, wname))
                    if got != ref:
                        res.violate(f"C13:{name}:{wname}", f"trim={trim} lstrip={lstrip}: {src!r} under {name} delimiters via {wname} renders "
                                    f"{got!r}; the default-delimiter form {srcs['default'][i]!r} renders {ref!r}",
                                    {"source": src, "config": c, "way": wname, "default_source": srcs["default"][i]})
        if len(samples) < 2:
            samples.append({"default": srcs["default"][0], "erb": srcs["erb"][0], "latex": srcs["latex"][0]})
    # earlier environments still render as before (caches were cycled: > 50 lexer keys, > 10 spontaneous environments)
    many = 0
    for k in range(ctx.pick(60, 200)):
        c = lc.cfg(block_start_string="<%d%%" % k, block_end_string="%%%d>" % k, trim_blocks=bool(k % 2))
        jinja2.Template("a<%d%% set z = 1 %%%d>\nb" % (k, k), **c).render()
        many += 1
    for ti, (env, ss) in base_envs.items():
        trim, lstrip = [(False, False), (True, True), (True, False), (False, True)][ti]
        reps = core.driver_batch([[Atom("trim"), lc.enc_cfg(lc.cfg(trim_blocks=trim, lstrip_blocks=lstrip, keep_trailing_newline=True)), s]
                                  for s in skeletons[:200]])
        for s, rep in zip(ss[:200], reps):
            want = "".join(p[1] if str(p[0]) == "data" else p[1].strip("'") for p in rep[2])
            got = render(env, jinja2, s)
            total += 1
            if got != want:
                res.violate("C13:interference", f"after creating {many} other environments, trim={trim} lstrip={lstrip} default environment renders "
                            f"{s!r} as {got!r}; documented {want!r}", {"source": s, "trim": trim, "lstrip": lstrip})
    ls = run_line_statements(ctx, res, jinja2)
    ways = run_env_ways(ctx, res, jinja2)
    res.coverage.update({
        "evaluations": total + ls["evaluations"] + ways["evaluations"],
        "distinct_nontrivial": len(distinct) + ls["distinct"] + ways["distinct_nontrivial"],
        "rule": (f"{nsk} random skeletons (text, signed block/comment/variable tags, raw blocks) unparsed by the Lean reference into "
                 f"{len(DELIMS)} delimiter sets (ERB with shared prefix, PHP/angle, triple parentheses, LaTeX-style with regex "
                 "metacharacters, brackets, dollar, long) x 4 trim/lstrip settings, rendered through Environment, Template(...), "
                 "overlay and overlay chains with the environments interleaved; then > 50 further configurations are created and "
                 "the first environments re-checked; whole-line tags and comments rewritten as line statements/comments, about a third "
                 "of the tags keeping a ( [ { open across 1-3 line breaks (nested, strings with brackets/prefixes, operator "
                 "spelled like a prefix at a continuation start, colon/tokens after the closing bracket), line form == "
                 "block-tag form and == lexer model tokens; "
                 "environment histories (see environment_ways.rule): " + ways["rule"]),
        "samples": samples,
        "line_statement_cases": ls,
        "environment_ways": ways,
        "environments_created_for_cache_cycling": many,
    })


def run_line_statements(ctx, res, jinja2):
    """whole-line tags / comments as line statements / comments (generator: envways.line_probe): single-line tags and
    tags that keep a bracket open across 1-3 line breaks; oracle: line form == block-tag form under trim+lstrip, and the
    real tokens of the line form == the Lean lexer model's (which carries the bracket-balancing stack)"""
    rng = ctx.rng("line")
    block_env = jinja2.Environment(trim_blocks=True, lstrip_blocks=True, keep_trailing_newline=True)
    evaluations, distinct = 0, set()
    known = cr_sources = multi = model_cmp = 0
    per_key = {}

    def violate(key, what, replay, no_input=False):
        per_key[key] = per_key.get(key, 0) + 1
        if per_key[key] <= 5:
            res.violate(key, what, replay, no_input=no_input)

    for prefix, cprefix in (("#", "##"), ("%", "%%"), ("@@", "//")):
        o = ew.options(trim_blocks=True, lstrip_blocks=True, keep_trailing_newline=True,
                       line_statement_prefix=prefix, line_comment_prefix=cprefix)
        line_env = jinja2.Environment(**o)
        probes = [ew.line_probe(rng, o) for _ in range(ctx.pick(300, 3000))]
        models = lc.model_lex([(o, p["line_source"]) for p in probes])
        for p, m in zip(probes, models):
            linesrc, blocks = p["line_source"], p["block_source"]
            cr_sources += ("\r" in linesrc)
            multi += p["multiline_statements"] > 0
            ref = render(block_env, jinja2, blocks)
            got = render(line_env, jinja2, linesrc)
            evaluations += 1
            distinct.add(linesrc)
            if got != ref:
                has_comment = p["has_line_comment"]
                documented = render(block_env, jinja2, p["block_source_plus"])
                if has_comment and got == documented:
                    known += 1
                    violate("C13:linecomment:whole-line-comment-keeps-its-newline",
                            f"whole-line comment written as a line comment keeps its line break: {linesrc!r} renders {got!r}, "
                            f"block/comment form {blocks!r} renders {ref!r}", {"line_source": linesrc, "block_source": blocks})
                else:
                    violate("C13:line-statement:" + ("multi-line" if p["multiline_statements"] else "comment" if has_comment else "tags"),
                            f"line-statement form {linesrc!r} (prefix {prefix!r}) renders {got!r}; block form {blocks!r} renders {ref!r}",
                            {"line_source": linesrc, "block_source": blocks, "prefix": prefix, "comment_prefix": cprefix})
                    continue
            if m["res"][0] != "oom":
                model_cmp += 1
                toks = lc.real_lex(line_env, linesrc)
                if toks != m["res"]:
                    violate("C13:line-statement:lexer-model", f"tokens of {linesrc!r} (prefix {prefix!r}) are {str(toks)[:300]}; the lexer "
                            f"model gives {str(m['res'])[:300]}", {"line_source": linesrc, "prefix": prefix, "comment_prefix": cprefix},
                            no_input=True)
    return {"evaluations": evaluations, "distinct": len(distinct), "known_finding_hits": known,
            "sources_with_crlf_or_cr_line_breaks": cr_sources, "sources_with_a_statement_over_several_lines": multi,
            "compared_with_lexer_model": model_cmp}


def run_env_ways(ctx, res, jinja2):
    """every way of arriving at an environment (harness/envways.py): at each use the environment must render like a
    fresh Environment with the options in effect, like the Lean reference, and (trim+lstrip) line form == block form"""
    rng = ctx.rng("env-ways")
    roots = ew.default_roots(rng, ctx.pick(0, 6))
    scenarios = ew.systematic(rng, roots) + [ew.random_scenario(rng) for _ in range(ctx.pick(60, 1500))]
    stats = ew.attach_probes(rng, scenarios, ctx.pick(1, 3), ctx.pick(2, 3))
    fresh = ew.Fresh(jinja2)
    st = {"evaluations": 0, "uses": 0, "overlay_uses": 0, "overlay_uses_where_the_parents_lexer_would_show": 0,
          "parent_rechecks": 0, "parent_rechecks_where_an_overlays_lexer_would_show": 0, "line_equivalences": 0,
          "known_finding_hits": 0, "suppressed_repeats": 0}
    by_way, distinct, per_key, samples = {}, set(), {}, []

    def violate(key, what, replay, no_input=False):
        per_key[key] = per_key.get(key, 0) + 1
        if per_key[key] > 3:
            st["suppressed_repeats"] += 1
            return
        res.violate(key, what, replay, no_input=no_input)

    for sc in scenarios:
        events = sc.events
        kid_opts = {}

        def on_use(ev, env, events=events, kid_opts=kid_opts):
            o, way, dk = ev["opts"], ev["way"], ev["delta"]
            tag = f"{way}:{dk}"
            by_way[tag] = by_way.get(tag, 0) + 1
            st["uses"] += 1
            shows = False
            other = ev["parent_opts"]
            if other is None and kid_opts:  # a root used after its overlays: the overlays' options are "the other lexer"
                other = kid_opts.get("last")
            for p in ev["skeletons"]:
                src = p["source"]
                got, ref = ew.render(env, src), fresh(o, src)
                st["evaluations"] += 1
                distinct.add((ew.okey(o), way, dk, src))
                if other is not None and fresh(other, src) != ref:
                    shows = True
                if got != ref:
                    violate(f"C13:env:{way}:{dk}",
                            f"{ew.describe(events, ev)}: {src!r} renders {got!r}; a fresh Environment with the options in effect "
                            f"({ew._short(o) or 'defaults'}) renders {ref!r}",
                            {"history": ew.history(events, ev), "source": src, "observed": got, "fresh_environment": ref,
                             "documented": p["documented"]})
                elif got != p["documented"]:
                    violate("C13:env:reference",
                            f"{ew.describe(events, ev)}: {src!r} renders {got!r} (as a fresh environment does) but the documented "
                            f"whitespace rules give {p['documented']!r}",
                            {"history": ew.history(events, ev), "source": src, "observed": got, "documented": p["documented"]},
                            no_input=True)
            for p in ev["lines"]:
                src = p["line_source"]
                got, ref = ew.render(env, src), fresh(o, src)
                st["evaluations"] += 1
                distinct.add((ew.okey(o), way, dk, src))
                if other is not None and fresh(other, src) != ref:
                    shows = True
                toks = lc.real_lex(env, src)
                if got != ref:
                    violate(f"C13:env:{way}:{dk}",
                            f"{ew.describe(events, ev)}: line form {src!r} renders {got!r}; a fresh Environment with the options "
                            f"in effect ({ew._short(o)}) renders {ref!r}",
                            {"history": ew.history(events, ev), "source": src, "observed": got, "fresh_environment": ref})
                    continue
                if p["model_tokens"][0] != "oom" and toks != p["model_tokens"]:
                    violate("C13:env:lexer-model", f"{ew.describe(events, ev)}: tokens of {src!r} are {str(toks)[:300]}; the lexer model "
                            f"gives {str(p['model_tokens'])[:300]}", {"history": ew.history(events, ev), "source": src}, no_input=True)
                if o["trim_blocks"] and o["lstrip_blocks"]:
                    # the property's own oracle: line statements/comments == whole-line block tags/comments
                    bo = dict(o, line_statement_prefix=None, line_comment_prefix=None)
                    bref = fresh(bo, p["block_source"])
                    st["line_equivalences"] += 1
                    if got != bref:
                        if p["has_line_comment"] and got == fresh(bo, p["block_source_plus"]):
                            st["known_finding_hits"] += 1
                            violate("C13:linecomment:whole-line-comment-keeps-its-newline",
                                    f"whole-line comment written as a line comment keeps its line break: {src!r} renders {got!r}, "
                                    f"block/comment form {p['block_source']!r} renders {bref!r}",
                                    {"line_source": src, "block_source": p["block_source"]})
                        else:
                            violate("C13:env:line-statement:" + ("multi-line" if p["multiline_statements"] else
                                                                 "comment" if p["has_line_comment"] else "tags"),
                                    f"{ew.describe(events, ev)}: line form {src!r} renders {got!r}; block form "
                                    f"{p['block_source']!r} renders {bref!r}",
                                    {"history": ew.history(events, ev), "source": src, "block_source": p["block_source"],
                                     "observed": got, "block_form_renders": bref})
            if ev["parent_opts"] is not None:
                st["overlay_uses"] += 1
                st["overlay_uses_where_the_parents_lexer_would_show"] += shows
                kid_opts["last"] = o
            elif kid_opts:
                st["parent_rechecks"] += 1
                st["parent_rechecks_where_an_overlays_lexer_would_show"] += shows
            if len(samples) < 3 and ev["parent_opts"] is not None and ev["skeletons"] and st["uses"] % 97 == 0:
                samples.append({"history": ew.describe(events, ev), "source": ev["skeletons"][0]["source"],
                                "renders": ew.render(env, ev["skeletons"][0]["source"])})

        ew.execute(jinja2, events, on_use)
    shapes = {}
    for sc in scenarios:
        shapes[sc.shape] = shapes.get(sc.shape, 0) + 1
    st.update({
        "distinct_nontrivial": len(distinct),
        "scenarios": shapes, "roots": [ew._short(r) or "defaults" for r in roots],
        "uses_by_way_and_overridden_option_group": dict(sorted(by_way.items())),
        "violations_by_key": per_key, "samples": samples, **stats,
        "rule": (f"{len(scenarios)} histories over {len(roots)} root option sets: for every root and every override set (each of "
                 "trim_blocks/lstrip_blocks/newline_sequence/keep_trailing_newline alone, all 11 combinations, line prefixes "
                 "(both/one/removed), delimiter sets, mixtures, none) an overlay of the fresh and of the already used root "
                 "(Environment(...) or Template('',...).environment), sibling overlays of one used parent, overlay chains of "
                 "depth 3 used at each level, every parent used again after its overlays, plus random histories; at each use "
                 "2 fixed skeletons sensitive to all four whitespace options (LF, CRLF and lone-CR versions) + random skeletons "
                 "(texts/raw bodies with all three line breaks, FF, VT) + line-statement/comment (LF/CRLF/CR/mixed line ends) "
                 "sources are rendered and compared with a fresh Environment(**options in effect), with the Lean reference "
                 "trim-env (documented rules incl. trailing newline and newline sequence), the lexer model's tokens, and "
                 "(trim+lstrip) with the block-tag form; a use is non-trivial when (options, way, source) is new; "
                 "'…would_show' counts uses whose probes render differently under the parent's (overlay's) options"),
    })
    return st


def replay(ctx, case):
    c = case["case"]
    if isinstance(c, dict) and "history" in c:
        return ew.replay_history(core.import_jinja(), c)
    if isinstance(c, dict) and "line_source" in c and "prefix" in c:
        jinja2 = core.import_jinja()
        o = ew.options(trim_blocks=True, lstrip_blocks=True, keep_trailing_newline=True, line_statement_prefix=c["prefix"],
                       line_comment_prefix=c.get("comment_prefix"))
        out = {"line_form_renders": render(jinja2.Environment(**o), jinja2, c["line_source"]),
               "tokens": lc.real_lex(jinja2.Environment(**o), c["line_source"]),
               "lexer_model": lc.model_lex([(o, c["line_source"])])[0]["res"]}
        if "block_source" in c:
            bo = dict(o, line_statement_prefix=None, line_comment_prefix=None)
            out["block_form_renders"] = render(jinja2.Environment(**bo), jinja2, c["block_source"])
        return out
    return c
