"""C14 — template literals denote the same values as Python literals.

Proof: Props/C14.lean (scanners of Model/Lex.lean + conversions of Model/Literal.lean against the reference grammar
Spec/PyLiteral.lean).  Tie, three ways on every case: the real lexer/parser/compiler, Python's own reading of the same
spelling (ast.parse / eval — the reference semantics itself, not a re-implementation), the Lean model and the Lean
reference grammar (both run by the driver).
"""
from __future__ import annotations

import ast
import itertools
import unicodedata
import warnings
from decimal import Decimal

import translate.literal_regex
from harness import core
from harness.core import Atom

ID = "C14"
LEAN_MODULES = ["JinjaV.Props.C14", "JinjaV.Props.C14Regex"]
GEN = [translate.literal_regex.gen]
LEVEL = "proof"
TRUSTED = [
    "Model/Lex.lean hand scanners for integer_re / float_re / string_re and Model/Literal.lean (int(s, 0), literal_eval on "
    "float spellings, str.encode('ascii','backslashreplace'), bytes.decode('unicode-escape'), repr quoting) are hand "
    "transcriptions tied to the running code and interpreter by this correspondence run only",
    "Spec/PyLiteral.lean is a transcription of the Python language reference (integer, floatnumber, escape sequences); it is "
    "compared with CPython's own tokenizer on every enumerated spelling and generated body",
    "conversion of an exact decimal mantissa*10^exp to an IEEE double is Python's float() on both sides (not modelled)",
    "str.isprintable (which code points repr() leaves unescaped) is a parameter of the repr theorem; measured per case",
]
ASSUMPTIONS = [
    "default newline_sequence '\\n'; default delimiters",
    "\\N{name} escapes are outside the model (the driver declines them); they are compared with Python only",
    "integers stay below Python's 4300-digit decimal conversion limit (Python itself rejects longer literals)",
]
CLAIM = dict(
    category="proof",
    technique="Lean 4 proofs that the lexer's number scanners accept only Python integer/floatnumber spellings (reference "
              "grammar as data, decided by a verified derivative matcher) and convert integers to Python's value, and that "
              "repr-style and alternative escape spellings of every string decode to that string + exhaustive four-way "
              "differential enumeration of number spellings and random literal round trips on the real lexer, parser and compiler",
    text="Theorems (Props/C14.lean): whatever text the integer scanner matches derives from Python's `integer` grammar, "
         "int(text.replace('_',''), 0) as modelled succeeds on it and yields the value the reference assigns to the "
         "spelling with its underscores (int_token_python); whatever text the float scanner matches derives from "
         "`floatnumber` and literal_eval(text.replace('_','')) as modelled returns a float whose exact decimal "
         "mantissa*10^exp is the one the reference assigns to the spelling (float_token_python; IEEE rounding of that "
         "decimal is Python's on both sides); hence a "
         "number token emitted by the tag rule is never a spelling Python rejects or reads as the other kind "
         "(number_token_python = DESIGN's number_never_longer); for every string of code points < 0x110000 (lone "
         "surrogates included), either quote character and every per-character choice among raw, single-character escape, "
         "\\xhh, \\ooo, \\uhhhh, \\Uhhhhhhhh, wrap's normalise/backslashreplace/unicode-escape pipeline returns exactly the "
         "string (string_value_roundtrip), and the tag rule reads the quoted spelling as one string token with that value "
         "wherever it stands (string_roundtrip; raw code points must be scalar values because model source text is List "
         "Char), in particular for the spelling repr() chooses, str.isprintable being a parameter (repr_roundtrip); a run of "
         "adjacent string tokens denotes the concatenation (adjacent_concat). The derivative matcher that runs the grammar "
         "in the driver is proved to decide the grammar (accepts_iff, Lemmas/PyLiteral.lean). For every body in which no "
         "escape-position backslash is directly followed by a non-ASCII code point, the backslashreplace/unicode-escape "
         "pipeline yields exactly what the reference escape table yields - same value, syntax error in the same cases, \\N "
         "declined on both sides (string_escape_spec_partial; the excluded shape is finding F13, for which Findings/F13.lean "
         "refutes the full statement in the model). The pattern strings and flags of integer_re, float_re, string_re read "
         "from lexer.py each run equal the patterns the scanners transcribe (literal_regexes_pinned, Props/C14Regex.lean "
         "over Gen/LiteralRegex.lean); if not, the run searches at the thorough budget. Tie: every spelling of length <=4 (quick) / <=5 (thorough) over [0-9_.eExXoObB+-] through "
         "the real lexer, Python's parser, the Lean model and the Lean grammar, each accepted one also through "
         "compile_expression (default undefined_to_none and False, sync and async environments; the literal's own value and "
         "type must come back, falsy values 0 / 0.0 / '' included) and render; random strings over all code point classes (quotes, backslashes, line breaks, "
         "controls, Latin-1, BMP, lone surrogates, astral) in repr, other-quote and mixed spellings with adjacent pieces "
         "through tokens, Environment.parse, compile_expression, render and the Lean model; random escape soups against "
         "eval and the Lean escape table; big integers in four bases with underscores; boundary and random floats in "
         "several spellings, also negated; non-finite constants (inf, -inf, nan by folding) in set/if/for/macro positions.",
    note="Trusted: Lean kernel; hand models of integer_re/float_re/string_re, int(s,0), literal_eval, the two codecs and "
         "repr (tied by correspondence); IEEE rounding and \\N{} assumed. Known findings: F13 ('\\é' gives '\\xe9'); a float "
         "literal that overflowed to inf was compiled to the bare name `inf` (NameError; fixed in 28fea2b, non-finite "
         "constants are still probed in set/if/for/macro-default/arithmetic positions).",
    design_ref="§5 C14",
)

ALPHABET = "0123456789_.eExXoObB+-"
SIMPLE = {92: "\\", 39: "'", 34: '"', 7: "a", 8: "b", 12: "f", 10: "n", 13: "r", 9: "t", 11: "v"}
CORE_STYLES = ("raw", "simple", "hex2", "oct3", "u4", "u8")


# ---------------------------------------------------------------------------------------------------------
# observations on the real code
# ---------------------------------------------------------------------------------------------------------

def raw_inner(env, expr):
    """non-whitespace raw tokens of `{{ expr }}` between the delimiters, or ('error', class)"""
    try:
        toks = [t for t in env.lexer.tokeniter("{{ " + expr + " }}", None) if t[1] != "whitespace"]
    except Exception as e:  # noqa
        return ("error", type(e).__name__)
    if len(toks) >= 2 and toks[0][1] == "variable_begin" and toks[-1][1] == "variable_end":
        return toks[1:-1]
    return ("error", "shape")


def convert(env, raw):
    """Lexer.wrap on raw tokens -> list of (type, value) or ('error', class)"""
    try:
        return [(t.type, t.value) for t in env.lexer.wrap(iter(raw))]
    except Exception as e:  # noqa
        return ("error", type(e).__name__)


def jinja_number(env, sp):
    """None: not read as one number token; else (kind, value) or (kind, ('error', cls))"""
    inner = raw_inner(env, sp)
    if isinstance(inner, tuple) or len(inner) != 1 or inner[0][1] not in ("integer", "float"):
        return None
    conv = convert(env, inner)
    if isinstance(conv, tuple):
        return (inner[0][1], conv)
    return (conv[0][0], conv[0][1])


def python_number(sp):
    """Python's reading of the spelling as one NUMBER token (int/float), else None"""
    try:
        b = ast.parse(sp, mode="eval").body
    except (SyntaxError, ValueError, MemoryError, RecursionError):
        return None
    if type(b) is ast.Constant and type(b.value) in (int, float) and b.col_offset == 0 and b.end_col_offset == len(sp):
        return b.value
    return None


def canon_num(v):
    if isinstance(v, bool):
        return ("bool", v)
    if isinstance(v, int):
        return ("int", v)
    if isinstance(v, float):
        return ("float", v.hex())
    if isinstance(v, tuple) and v and v[0] == "error":
        return v
    return ("other", type(v).__name__)


def lean_num(rep):
    """('one', 'int', n) / ('one','float', m, e) / ('one','error') / ('notone',) -> canonical or None"""
    if rep[0] == "notone":
        return None
    if rep[1] == "error":
        return ("error", "model")
    if rep[1] == "int":
        return ("int", rep[2])
    return ("float", dec_to_hex(rep[2], rep[3]))


def spec_num(rep):
    if rep[0] == "none":
        return None
    if rep[0] == "int":
        return ("int", rep[1])
    return ("float", dec_to_hex(rep[1], rep[2]))


def dec_to_hex(m, e):
    """the IEEE double Python assigns to the exact decimal m*10^e (Python's own conversion; not modelled)"""
    return float(f"{m}e{e}").hex()


def e2e_value(env, expr):
    try:
        return env.compile_expression(expr, undefined_to_none=False)()
    except Exception as e:  # noqa
        return ("error", type(e).__name__)


ENVS = {}


def async_env():
    if "async" not in ENVS:
        ENVS["async"] = core.import_jinja().Environment(enable_async=True)
    return ENVS["async"]


# (key suffix, description, async environment?, pass undefined_to_none=False?)
ROUTES = (("", "compile_expression(undefined_to_none=False)", False, True),
          (":default", "compile_expression (default undefined_to_none=True)", False, False),
          (":async-default", "async-environment compile_expression (default undefined_to_none=True)", True, False),
          (":async", "async-environment compile_expression(undefined_to_none=False)", True, True))


def e2e_routes(env, expr, full=True, data=None):
    """the value compile_expression hands out for the expression, per route: [(key suffix, description, value)].  A literal's
    value must come back unchanged on every route (only an Undefined result may turn into None, and only by default)."""
    out = []
    for suffix, desc, is_async, explicit_false in ROUTES:
        if is_async and not full:
            continue
        e = async_env() if is_async else env
        try:
            te = e.compile_expression(expr, undefined_to_none=False) if explicit_false else e.compile_expression(expr)
            v = te(**(data or {}))
        except Exception as ex:  # noqa
            v = ("error", type(ex).__name__)
        out.append((suffix, desc, v))
    return out


def e2e_value_data(env, expr, data):
    try:
        return env.compile_expression(expr, undefined_to_none=False)(**data)
    except Exception as e:  # noqa
        return ("error", type(e).__name__)


def e2e_render(env, expr):
    try:
        return env.from_string("{{ " + expr + " }}").render()
    except Exception as e:  # noqa
        return ("error", type(e).__name__)


def parse_const(env, jinja2, expr):
    """the Const the parser builds for `{{ expr }}` (no code generation involved)"""
    try:
        out = env.parse("{{ " + expr + " }}").body[0]
        node = out.nodes[0]
        if isinstance(node, jinja2.nodes.Const):
            return node.value
        return ("error", "not-const:" + type(node).__name__)
    except Exception as e:  # noqa
        return ("error", type(e).__name__)


def cps(s):
    return [ord(c) for c in s]


def is_scalar_text(s):
    return all(not (0xD800 <= ord(c) <= 0xDFFF) for c in s)


# ---------------------------------------------------------------------------------------------------------
# (a) exhaustive number spellings
# ---------------------------------------------------------------------------------------------------------

def check_number_e2e(env, res, sp, pv, stats, full=True):
    """value at render time for a spelling both sides read as the number pv: every compile_expression route, and render"""
    want = canon_num(pv)
    for suffix, desc, got in e2e_routes(env, sp, full):
        stats["e2e"] += 1
        stats["routes"][desc] = stats["routes"].get(desc, 0) + 1
        if not pv:
            stats["falsy_route_checks"] = stats.get("falsy_route_checks", 0) + 1
        if canon_num(got) != want:
            if isinstance(pv, float) and pv in (float("inf"),) and got == ("error", "NameError"):
                res.violate("C14:float-literal-inf:NameError",
                            f"compile_expression({sp!r})() raises NameError (the float literal overflows to inf and is written "
                            f"into the generated code as the bare name `inf`); Python's value of {sp!r} is inf",
                            {"kind": "number", "spelling": sp})
                stats["inf_nameerror"] += 1
            else:
                res.violate("C14:number:e2e-value" + suffix,
                            f"{desc}: {sp!r} evaluates to {got!r}; Python's {sp!r} is {pv!r} ({type(pv).__name__})",
                            {"kind": "number", "spelling": sp, "route": desc})
    out = e2e_render(env, sp)
    if out != str(pv):
        res.violate("C14:number:e2e-render", f"{{{{ {sp} }}}} renders {out!r}; str of Python's value is {str(pv)!r}",
                    {"kind": "number", "spelling": sp})


def intensified(ctx):
    """the regexes read from lexer.py differ from the transcribed ones (or cannot be read): search at the thorough budget"""
    return bool(getattr(ctx, "gen_changed", None) or getattr(ctx, "tie_broken", None) or getattr(ctx, "proof_broken", None))


def pick(ctx, quick, thorough):
    return thorough if intensified(ctx) else ctx.pick(quick, thorough)


def run_numbers(ctx, res, env):
    n = pick(ctx, 4, 5)
    rep = core.driver_batch([[Atom("lit-num-enum"), ALPHABET, n, ""]])[0]
    if rep[0] != "ok":
        raise core.HarnessError(f"lit-num-enum: {rep!r:.200}")
    model = {sp: lean_num(r) for sp, r in rep[1]}
    spec = {sp: spec_num(r) for sp, r in rep[2]}
    stats = {"spellings": 0, "jinja_one_number": 0, "python_number": 0, "model_one_number": len(model),
             "spec_number": len(spec), "e2e": 0, "routes": {}, "inf_nameerror": 0, "kinds": {"integer": 0, "float": 0},
             "python_only": 0}
    union = set()
    samples = []
    spec_bad = []
    for L in range(1, n + 1):
        for tup in itertools.product(ALPHABET, repeat=L):
            sp = "".join(tup)
            stats["spellings"] += 1
            j = jinja_number(env, sp)
            p = python_number(sp)
            pc = canon_num(p) if p is not None else None
            m = model.get(sp)
            s = spec.get(sp)
            if j is None and pc is None and m is None and s is None:
                continue
            union.add(sp)
            if pc is not None:
                stats["python_number"] += 1
            if s != pc:
                spec_bad.append((sp, s, pc))
            if j is None:
                if pc is not None:
                    stats["python_only"] += 1
            else:
                stats["jinja_one_number"] += 1
                stats["kinds"][j[0]] += 1
                jc = (j[0],) + (canon_num(j[1]),)
                kind_ok = pc is not None and {"integer": "int", "float": "float"}[j[0]] == pc[0]
                if pc is None:
                    res.violate("C14:number:reads-non-python-literal",
                                f"the lexer reads {sp!r} as one {j[0]} token ({j[1]!r}); Python rejects the spelling",
                                {"kind": "number", "spelling": sp})
                elif isinstance(j[1], tuple):
                    res.violate(f"C14:number:conversion-error:{j[1][1]}",
                                f"the lexer reads {sp!r} as one {j[0]} token but the conversion raises {j[1][1]}; Python's value is {p!r}",
                                {"kind": "number", "spelling": sp})
                elif not kind_ok or jc[1] != pc:
                    res.violate("C14:number:value-differs",
                                f"the lexer reads {sp!r} as {j[0]} {j[1]!r}; Python reads {p!r}",
                                {"kind": "number", "spelling": sp})
                else:
                    # end-to-end on every accepted spelling, except that plain 5-digit decimals are thinned (1 in 7)
                    # the async-environment routes: every falsy value, every spelling of length <= 3, a fixed fraction of the rest
                    if L < 5 or not sp.isdigit() or stats["jinja_one_number"] % 7 == 0:
                        full = (not p) or L <= 3 or stats["jinja_one_number"] % (8 if n <= 4 else 40) == 0
                        check_number_e2e(env, res, sp, p, stats, full)
                    if len(samples) < 6 and ("_" in sp or "e" in sp.lower()) and L >= 3 and stats["jinja_one_number"] % 97 == 0:
                        samples.append({"spelling": sp, "value": repr(p)})
            # tie: model of the lexer + conversion == real lexer + conversion
            jm = None if j is None else (canon_num(j[1]) if not isinstance(j[1], tuple) else ("error", "model"))
            if jm != m:
                concrete = j is not None and (pc is None or jm != pc)
                res.violate("C14:tie:number-model",
                            f"real lexer reads {sp!r} as {j!r}, the Lean model as {m!r} (Python: {p!r})",
                            {"kind": "number", "spelling": sp, "correspondence": "Model/Lex tagRule + Model/Literal vs Lexer.tokeniter+wrap"},
                            no_input=not concrete)
    for sp in set(model) | set(spec):
        if sp not in union:
            raise core.HarnessError(f"driver enumerated {sp!r} outside the harness enumeration")
    if spec_bad:
        raise core.HarnessError("Spec/PyLiteral.lean disagrees with CPython's tokenizer (machinery defect): "
                                + repr(spec_bad[:5]))
    stats["union_read_as_number_by_some_side"] = len(union)
    return stats, samples, len(union)


# ---------------------------------------------------------------------------------------------------------
# (b) random values -> spellings -> values
# ---------------------------------------------------------------------------------------------------------

CP_CLASSES = ["ascii", "quote", "backslash", "linebreak", "ctrl", "latin1", "bmp", "bmp-special", "surrogate", "astral",
              "astral-special", "jinja-delim"]


def gen_cp(rng, cls):
    if cls == "ascii":
        return ord(rng.choice("abcxyzNUXZ019 _-.,:;!?()[]"))
    if cls == "quote":
        return rng.choice([39, 34])
    if cls == "backslash":
        return 92
    if cls == "linebreak":
        return rng.choice([10, 13])
    if cls == "ctrl":
        return rng.choice([0, 1, 7, 8, 9, 11, 12, 27, 28, 31, 127])
    if cls == "latin1":
        return rng.choice([0x80, 0x85, 0xA0, 0xAD, 0xE9, 0xFF, rng.randrange(128, 256)])
    if cls == "bmp":
        c = rng.randrange(0x100, 0x10000)
        return c if not 0xD800 <= c <= 0xDFFF else 0x4E2D
    if cls == "bmp-special":
        return rng.choice([0x2028, 0x2029, 0x200B, 0xFEFF, 0xFFFF, 0xFFFE, 0x0378, 0x0100, 0xD7FF, 0xE000, 0x1680, 0x3000])
    if cls == "surrogate":
        return rng.choice([0xD800, 0xDBFF, 0xDC00, 0xDFFF, 0xD83D, 0xDE00, rng.randrange(0xD800, 0xE000)])
    if cls == "astral":
        return rng.randrange(0x10000, 0x110000)
    if cls == "astral-special":
        return rng.choice([0x10000, 0x1F600, 0x10FFFF, 0xE0001, 0xFFFFF, 0x100000, 0x2F800])
    return ord(rng.choice("{}%#"))


def gen_string(rng, maxlen):
    n = rng.choice([0, 1, 1, 2, 3]) if rng.random() < 0.3 else rng.randrange(0, maxlen + 1)
    fav = rng.sample(CP_CLASSES, rng.randrange(1, 5))
    out = []
    for _ in range(n):
        cls = rng.choice(fav) if rng.random() < 0.7 else rng.choice(CP_CLASSES)
        out.append(gen_cp(rng, cls))
    return out


def styles_for(c, q, rng, allow_extra):
    """spelling styles applicable to code point c inside quotes q"""
    st = []
    if c != 92 and c != q and c != 13:
        st += ["raw", "raw"]
    if c in SIMPLE:
        st += ["simple", "simple"]
    if c < 256:
        st.append("hex2")
    if c < 512:
        st.append("oct3")
    if c < 0x10000:
        st.append("u4")
    st.append("u8")
    if allow_extra:
        if c < 256:
            st.append("hex2-upper")
        if c < 512:
            st.append("oct-short")
        if c < 0x10000:
            st.append("u4-upper")
        st.append("u8-upper")
        if not 0xD800 <= c <= 0xDFFF:
            try:
                unicodedata.name(chr(c))
                st.append("named")
            except ValueError:
                pass
    return st


def spell1(c, st):
    if st == "raw":
        return chr(c)
    if st == "simple":
        return "\\" + SIMPLE[c]
    if st == "hex2":
        return "\\x%02x" % c
    if st == "hex2-upper":
        return "\\x%02X" % c
    if st in ("oct3", "oct-short"):
        return "\\%03o" % c
    if st == "u4":
        return "\\u%04x" % c
    if st == "u4-upper":
        return "\\u%04X" % c
    if st == "u8":
        return "\\U%08x" % c
    if st == "u8-upper":
        return "\\U%08X" % c
    if st == "named":
        return "\\N{%s}" % unicodedata.name(chr(c))
    raise ValueError(st)


def spell_body(v, q, styles, rng=None, continuations=False):
    parts = [spell1(c, st) for c, st in zip(v, styles)]
    # shortest octal form where the next character cannot extend it
    for i, st in enumerate(styles):
        if st == "oct-short":
            nxt = parts[i + 1][:1] if i + 1 < len(parts) else ""
            if nxt == "" or nxt not in "01234567":
                parts[i] = "\\%o" % v[i]
    if continuations and rng is not None:
        out = []
        for p in parts:
            if rng.random() < 0.15:
                out.append("\\\n")
            out.append(p)
        parts = out
    return "".join(parts)


def py_repr_quote(s):
    r = repr(s)
    return r[0]


def run_strings(ctx, res, env, jinja2):
    rng = ctx.rng("strings")
    ncases = pick(ctx, 1500, 20000)
    maxlen = pick(ctx, 10, 24)
    cases = []
    fixed = [[], [39], [34], [39, 34], [92], [92, 92], [92, 39], [10], [13], [13, 10], [0], [0xE9], [0xD800], [0xDC00, 0xD800],
             [0xD83D, 0xDE00], [0x1F600], [0x10FFFF], [0x7F], [0x80], [0xFF], [0x100], [0xFFFF], [0x10000], [92, 0xE9],
             [92, 120], [92, 78, 123], [123, 123], [125, 125], [37, 125], [35, 125], [92, 10], [0x2028], [0x85], [511], [256]]
    for v in fixed:
        cases.append(("repr", v))
        cases.append(("altquote", v))
    for i in range(ncases):
        mode = ("repr", "altquote", "core", "mixed", "adjacent", "adjacent")[i % 6]
        cases.append((mode, gen_string(rng, maxlen)))
    # explicit spellings of the empty string and of pieces around empty strings (expression text, value)
    explicit = [("''", ""), ('""', ""), ("'' \"\"", ""), ('""\'\'""', ""), ("''\n''", ""), ("''\t\"\"  ''", ""), ("'' 'a' ''", "a"),
                ('"" "" "b"', "b"), ("'\\\n'", ""), ("'\\\n' ''", ""), ("'\\x00'", "\0"), ("'0'", "0"), ("' '", " ")]
    for ex, val in explicit:
        cases.append(("explicit", (ex, cps(val))))
    reqs, meta = [], []
    stats = {"cases": 0, "modes": {}, "classes": {}, "styles": {}, "model_oom": 0, "lengths": {"0": 0, "1-3": 0, "4-9": 0, "10+": 0},
             "pieces": {}, "repr_checked": 0, "spell_checked": 0}
    distinct = set()
    samples = []
    for mode, v in cases:
        explicit_expr = None
        if mode == "explicit":
            explicit_expr, v = v
        s = "".join(map(chr, v))
        pieces = []          # (q, values, styles)
        if mode == "explicit":
            expr = explicit_expr
            pieces = None
        elif mode == "repr":
            r = repr(s)
            expr = r
            pieces = None
        else:
            if mode in ("adjacent",) and len(v) >= 1:
                k = rng.randrange(2, 5)
                cuts = sorted(rng.randrange(0, len(v) + 1) for _ in range(k - 1))
                segs = [v[a:b] for a, b in zip([0] + cuts, cuts + [len(v)])]
            else:
                segs = [v]
            texts = []
            for seg in segs:
                if mode == "altquote":
                    q = 34 if py_repr_quote("".join(map(chr, seg))) == "'" else 39
                else:
                    q = rng.choice([39, 34])
                if mode == "altquote":
                    sts = [lean_repr_style(c, q) for c in seg]
                else:
                    sts = [rng.choice(styles_for(c, q, rng, allow_extra=mode in ("mixed", "adjacent"))) for c in seg]
                body = spell_body(seg, q, sts, rng, continuations=mode in ("mixed", "adjacent") and rng.random() < 0.3)
                texts.append(chr(q) + body + chr(q))
                pieces.append((q, seg, sts, body))
                for st in sts:
                    stats["styles"][st] = stats["styles"].get(st, 0) + 1
            seps = [rng.choice([" ", "", "  ", "\n", "\t", " \n "]) for _ in texts[1:]]
            expr = texts[0] + "".join(sep + t for sep, t in zip(seps, texts[1:]))
        stats["cases"] += 1
        stats["modes"][mode] = stats["modes"].get(mode, 0) + 1
        stats["pieces"][str(len(pieces) if pieces else 1)] = stats["pieces"].get(str(len(pieces) if pieces else 1), 0) + 1
        ln = len(v)
        stats["lengths"]["0" if ln == 0 else "1-3" if ln <= 3 else "4-9" if ln <= 9 else "10+"] += 1
        for c in v:
            k = cp_class(c)
            stats["classes"][k] = stats["classes"].get(k, 0) + 1
        distinct.add(expr)
        if len(samples) < 5 and ln >= 3 and stats["cases"] % 211 == 0:
            samples.append({"mode": mode, "value": v, "expr": ascii(expr)})
        # real code --------------------------------------------------------------------------------------
        replay = {"kind": "string", "mode": mode, "value": v, "expr": cps(expr)}
        inner = raw_inner(env, expr)
        if isinstance(inner, tuple) or not inner or any(t[1] != "string" for t in inner):
            res.violate(f"C14:string:not-read-as-strings:{mode}",
                        f"{expr!r} (spelling of {s!r}) is not read as string tokens: {inner!r:.200}", replay)
            continue
        conv = convert(env, inner)
        tok_val = "".join(x[1] for x in conv) if not isinstance(conv, tuple) else conv
        pc = parse_const(env, jinja2, expr)
        rd = e2e_render(env, expr)
        routes = [("compile_expression" + suffix, desc, got) for suffix, desc, got in e2e_routes(env, expr, True)]
        stats["route_checks"] = stats.get("route_checks", 0) + len(routes)
        if not s:
            stats["empty_value_route_checks"] = stats.get("empty_value_route_checks", 0) + len(routes)
        for what, desc, got in [("tokens", "tokens", tok_val), ("parse", "Environment.parse", pc), ("render", "render", rd)] + routes:
            if got != s or type(got) is not str:
                res.violate(f"C14:string:value:{mode}:{what}",
                            f"{expr!r} written for {s!r} gives {got!r} via {desc}", dict(replay, route=desc))
        # Lean model of lexer + unescape + concatenation -----------------------------------------------
        reqs.append([Atom("lit-str"), cps(expr)])
        meta.append(("str", expr, v, tok_val, replay))
        if mode == "repr":
            q = ord(expr[0])
            reqs.append([Atom("lit-repr"), q, v, sorted({c for c in v if c >= 127 and chr(c).isprintable()})])
            meta.append(("repr", expr, v, cps(expr[1:-1]), replay))
        elif pieces:
            for q, seg, sts, body in pieces:
                if all(st in CORE_STYLES for st in sts) and "\\\n" not in body:
                    reqs.append([Atom("lit-spell"), q, [Atom(st) for st in sts], seg])
                    meta.append(("spell", body, seg, cps(body), replay))
    replies = core.driver_batch(reqs)
    for (kind, expr, v, real, replay), rep in zip(meta, replies):
        if kind == "str":
            if rep[0] == "oom":
                stats["model_oom"] += 1
                continue
            got = rep[1] if rep[0] == "ok" else ("error", str(rep[1]))
            want = cps(real) if isinstance(real, str) else ("error", "syntax" if real[1] == "TemplateSyntaxError" else real[1])
            if got != want:
                res.violate("C14:tie:string-model", f"{expr!r}: real lexer+wrap+parser give {real!r}, Lean model {rep!r:.200}",
                            dict(replay, correspondence="Model/Literal.stringsValue vs tokeniter+wrap+parse_primary"),
                            no_input=(real == "".join(map(chr, v))))
        elif kind == "repr":
            stats["repr_checked"] += 1
            if rep[0] != "ok" or rep[1] != real:
                raise core.HarnessError(f"Model/Literal.reprBody differs from CPython repr on {v!r}: {rep!r:.200} vs {real!r}")
        else:
            stats["spell_checked"] += 1
            if rep[0] != "ok" or rep[1] != real or rep[2] is not True:
                raise core.HarnessError(f"Model/Literal.spellBody differs from the harness spelling on {v!r}: {rep!r:.200} vs {real!r}")
    return stats, samples, len(distinct)


def lean_repr_style(c, q):
    """the style repr() would use inside quotes q (mirror of Model/Literal.reprStyle; cross-checked through lit-repr)"""
    if c == 92 or c == q or c in (9, 10, 13):
        return "simple"
    if c < 32 or c == 127:
        return "hex2"
    if c < 127:
        return "raw"
    if chr(c).isprintable():
        return "raw"
    return "hex2" if c < 256 else "u4" if c < 0x10000 else "u8"


def cp_class(c):
    if c in (39, 34):
        return "quote"
    if c == 92:
        return "backslash"
    if c in (10, 13):
        return "linebreak"
    if c < 32 or c == 127:
        return "ctrl"
    if c < 128:
        return "ascii"
    if c < 256:
        return "latin1"
    if 0xD800 <= c <= 0xDFFF:
        return "surrogate"
    if c < 0x10000:
        return "bmp"
    return "astral"


# escape soups: arbitrary bodies the string regex accepts, read by Jinja, by Python and by the Lean model/spec -------

def gen_soup(rng, maxlen):
    items = []
    for _ in range(rng.randrange(0, maxlen + 1)):
        r = rng.random()
        if r < 0.35:
            items.append(chr(gen_cp(rng, rng.choice(["ascii", "ascii", "latin1", "bmp", "astral-special", "linebreak", "jinja-delim"]))))
        elif r < 0.55:
            items.append("\\" + rng.choice("\\'\"abfnrtv01234567xuUN8 zce\n"))
        elif r < 0.65:
            items.append("\\" + chr(gen_cp(rng, rng.choice(["latin1", "bmp", "astral", "ascii", "ctrl"]))))
        elif r < 0.8:
            items.append(rng.choice("0123456789abcdefABCDEFg"))
        elif r < 0.9:
            k = rng.choice([("x", 2), ("u", 4), ("U", 8)])
            n = rng.choice([k[1], k[1], k[1] - 1, k[1] + 1])
            digs = "".join(rng.choice("0123456789abcdefABCDEF") for _ in range(n))
            if k[0] == "U" and rng.random() < 0.8:
                digs = ("000" + rng.choice("01") + digs)[:n]
            items.append("\\" + k[0] + digs)
        else:
            items.append("\\" + "".join(rng.choice("01234567") for _ in range(rng.randrange(1, 5))))
    return items


def python_body_value(body, q):
    """Python's own value for the text between quotes (triple-quoted so that raw line breaks are allowed)"""
    if "\x00" in body or not is_scalar_text(body):
        return ("unavailable",)
    src = q * 3 + body + q * 3
    try:
        v = eval(compile(src, "<c14>", "eval"), {})  # a string literal only: generated from quote + escaped items
    except SyntaxError:
        return ("error", "syntax")
    except ValueError:
        return ("unavailable",)
    return v


def run_soups(ctx, res, env):
    rng = ctx.rng("soups")
    ncases = pick(ctx, 2500, 40000)
    reqs, meta = [], []
    stats = {"cases": 0, "python_unavailable": 0, "errors_both": 0, "f13_hits": 0, "model_oom": 0, "named": 0,
             "values_equal": 0}
    distinct = set()
    fixed = [("'", "\\é"), ('"', "\\é"), ("'", "a\\\u4e2db"), ("'", "\\\\é"), ("'", "\\x4"), ("'", "\\U00110000"), ("'", "\\777"),
             ("'", "\\8"), ("'", "\\1234"), ("'", "\\\n"), ("'", "a\nb"), ("'", "\\N{BULLET}"), ('"', "\\ud83d\\ude00"), ("'", "\\u12"),
             ("'", "\\x"), ("'", "\\"+"\x80")]
    cases = list(fixed)
    for _ in range(ncases):
        q = rng.choice("'\"")
        items = [it for it in gen_soup(rng, pick(ctx, 8, 14)) if it != q and it != "\r"]
        cases.append((q, "".join(items)))
    for q, body in cases:
        body = body.replace("\r", "")
        expr = q + body + q
        stats["cases"] += 1
        distinct.add(expr)
        replay = {"kind": "body", "quote": q, "body": cps(body)}
        inner = raw_inner(env, expr)
        if isinstance(inner, tuple) or len(inner) != 1 or inner[0][1] != "string":
            res.violate("C14:string:soup-not-one-token", f"{expr!r} is not read as one string token: {inner!r:.200}", replay)
            continue
        conv = convert(env, inner)
        jv = conv[0][1] if not isinstance(conv, tuple) else ("error", "syntax" if conv[1] == "TemplateSyntaxError" else conv[1])
        pv = python_body_value(body, q)
        reqs.append([Atom("lit-str"), cps(expr)])
        meta.append(("str", expr, jv, pv, replay))
        reqs.append([Atom("lit-body"), cps(body)])
        meta.append(("body", expr, jv, pv, replay))
    replies = core.driver_batch(reqs)
    for (kind, expr, jv, pv, replay), rep in zip(meta, replies):
        jcan = cps(jv) if isinstance(jv, str) else jv
        pcan = cps(pv) if isinstance(pv, str) else pv
        if kind == "str":
            if rep[0] == "oom":
                stats["model_oom"] += 1
                continue
            got = rep[1] if rep[0] == "ok" else ("error", str(rep[1]))
            if got != jcan:
                res.violate("C14:tie:string-model", f"{expr!r}: real lexer+wrap give {jv!r}, Lean model {rep!r:.200}",
                            dict(replay, correspondence="Model/Literal.stringsValue vs tokeniter+wrap"),
                            no_input=(pcan == ("unavailable",) or jcan == pcan))
            continue
        model, spec, f13free = rep
        if spec[0] == "oom":
            stats["named"] += 1
        if pcan == ("unavailable",):
            stats["python_unavailable"] += 1
            continue
        scan = spec[1] if spec[0] == "ok" else ("error", "syntax") if spec[0] == "err" else None
        if scan is not None and scan != pcan:
            raise core.HarnessError(f"Spec/PyLiteral.strValue disagrees with CPython on {expr!r}: {spec!r:.200} vs {pv!r}")
        if jcan == pcan:
            stats["values_equal"] += 1
            if isinstance(jcan, tuple):
                stats["errors_both"] += 1
            continue
        mcan = model[1] if model[0] == "ok" else ("error", "syntax") if model[0] == "err" else None
        if f13free is False and mcan == jcan and scan == pcan:
            stats["f13_hits"] += 1
            res.violate("C14:string:unknown-escape-before-non-ascii",
                        f"{expr!r} gives {jv!r}; Python's literal is {pv!r} (a backslash that starts no recognised escape is "
                        "followed by a non-ASCII character, which backslashreplace turns into an escape of its own)", replay)
        else:
            res.violate("C14:string:escape-value", f"{expr!r} gives {jv!r}; Python's literal is {pv!r}", replay)
    return stats, len(distinct)


# integers and floats -----------------------------------------------------------------------------------------

def underscore(rng, digits, p):
    out = [digits[0]]
    for d in digits[1:]:
        if rng.random() < p:
            out.append("_")
        out.append(d)
    return "".join(out)


def int_spellings(rng, n):
    """(spelling, tag) for a non-negative int"""
    p = rng.choice([0.0, 0.2, 0.5, 1.0])
    out = [(str(n), "dec")]
    if n > 0:
        out.append((underscore(rng, str(n), p), "dec_"))
    else:
        out += [("0" * rng.randrange(1, 5), "zeros"), (underscore(rng, "0" * rng.randrange(2, 6), 0.5), "zeros_")]
    for fmt, pre, tag in (("b", "0b", "bin"), ("o", "0o", "oct"), ("x", "0x", "hex")):
        d = format(n, fmt)
        if tag == "hex" and rng.random() < 0.5:
            d = "".join(ch.upper() if rng.random() < 0.5 else ch for ch in d)
        pr = pre if rng.random() < 0.5 else pre.upper()
        body = underscore(rng, d, p)
        if rng.random() < 0.3:
            body = "_" + body
        if rng.random() < 0.3:
            body = "0" * rng.randrange(1, 3) + body
        out.append((pr + body, tag))
    return out


def float_spellings(rng, f):
    """(spelling, tag) each denoting exactly the non-negative finite float f"""
    out = []
    r = repr(f)
    out.append((r, "repr"))
    out.append((r.upper(), "repr-upper"))
    e17 = "%.17e" % f
    out.append((e17, "17e"))
    m, x = e17.split("e")
    out.append((underscore(rng, m.replace(".", "")[:1], 0) + "." + underscore(rng, m.split(".")[1], 0.4) + "E" + ("+" if int(x) >= 0 else "-") + underscore(rng, "%03d" % abs(int(x)), 0.5), "17e_"))
    exact = format(Decimal(f), "f")
    if "." not in exact:
        exact += ".0"
    out.append((exact, "exact"))
    ip, fp = exact.split(".")
    out.append((underscore(rng, "0" * rng.randrange(0, 3) + ip, 0.3) + "." + underscore(rng, fp, 0.3), "exact_"))
    if f == int(f) and f < 1e22:
        out.append(("%de0" % int(f), "int-e0"))
        out.append(("%d.0e+00" % int(f), "int-e+00"))
    keep = []
    for sp, tag in out:
        try:
            if float(sp.replace("_", "")).hex() == f.hex() and python_number(sp) is not None:
                keep.append((sp, tag))
        except ValueError:
            pass
    return keep


def run_values(ctx, res, env, jinja2):
    rng = ctx.rng("values")
    stats = {"ints": 0, "floats": 0, "int_spellings": {}, "float_spellings": {}, "negated": 0, "bits_max": 0, "e2e": 0, "routes": {}, "inf_nameerror": 0,
             "zero_spellings": 0}
    ints = [0, 1, 7, 8, 9, 10, 255, 256, 2**31 - 1, 2**31, 2**63 - 1, 2**63, 2**64, 10**18, 10**100, 2**1000 - 1, 10**300 + 7]
    for _ in range(ctx.pick(150, 1500)):
        bits = rng.choice([3, 8, 16, 31, 32, 63, 64, 65, 100, 200, 500, 1000, 2000])
        ints.append(rng.getrandbits(bits))
    floats = [0.0, 0.1, 0.5, 1.0, 1.5, 1e22, 1e23, 1e308, 1.7976931348623157e308, 5e-324, 2.2250738585072014e-308,
              2.225073858507201e-308, 9007199254740993.0, 9007199254740992.0, 0.30000000000000004, 1e-5, 1e16, 123456789.125,
              3.141592653589793, 2.718281828459045, 1e-320, 4.9e-324, 1e-7, 1e21]
    import struct
    for _ in range(ctx.pick(120, 1200)):
        r = rng.random()
        if r < 0.4:
            f = struct.unpack("<d", struct.pack("<Q", rng.getrandbits(63)))[0]
            if f != f or f == float("inf"):
                continue
        elif r < 0.7:
            f = rng.random() * 10 ** rng.randrange(-20, 20)
        else:
            f = float(rng.randrange(0, 10**6)) / rng.choice([1, 2, 4, 8, 10, 100, 1000])
        floats.append(f)
    reqs, meta = [], []
    distinct = set()
    samples = []

    def one(sp, pv, tag, table):
        table[tag] = table.get(tag, 0) + 1
        distinct.add(sp)
        replay = {"kind": "number", "spelling": sp}
        want = canon_num(pv)
        if canon_num(python_number(sp)) != want:
            raise core.HarnessError(f"generator: {sp!r} is not a Python spelling of {pv!r}")
        j = jinja_number(env, sp)
        if j is None or isinstance(j[1], tuple) or canon_num(j[1]) != want:
            res.violate(f"C14:value:{'int' if isinstance(pv, int) else 'float'}:{tag}:tokens",
                        f"{sp!r} written for {pv!r} is read as {j!r}", replay)
            return
        pc = parse_const(env, jinja2, sp)
        if canon_num(pc) != want:
            res.violate(f"C14:value:{'int' if isinstance(pv, int) else 'float'}:{tag}:parse",
                        f"{sp!r} written for {pv!r} parses to {pc!r}", replay)
        check_number_e2e(env, res, sp, pv, stats)
        for suffix, desc, neg in e2e_routes(env, "-" + sp, True):
            stats["negated"] += 1
            if canon_num(neg) != canon_num(-pv):
                res.violate("C14:value:negated" + suffix, f"{desc}: -{sp} evaluates to {neg!r}, Python gives {-pv!r}",
                            dict(replay, negated=True, route=desc))
        reqs.append([Atom("lit-num"), cps(sp)])
        meta.append((sp, want, replay))
        if len(samples) < 5 and len(sp) > 8 and len(distinct) % 97 == 0:
            samples.append({"spelling": sp[:120], "value": repr(pv)[:60], "tag": tag})

    for n in ints:
        stats["ints"] += 1
        stats["bits_max"] = max(stats["bits_max"], n.bit_length())
        for sp, tag in int_spellings(rng, n):
            one(sp, n, tag, stats["int_spellings"])
    for f in floats:
        stats["floats"] += 1
        for sp, tag in float_spellings(rng, f):
            one(sp, f, tag, stats["float_spellings"])
    # every way of writing zero: all bases, underscores, leading zeros, exponents, underflow (the values are falsy)
    for sp in ("0", "00", "0_0", "0000_0", "0x0", "0X0_0", "0x_0", "0b0", "0B_0", "0b0_0", "0o0", "0O00", "0o_0",
               "0.0", "0e0", "0E5", "0e-5", "00.0", "0_0.0_0", "0.0e+10", "0.00E-0_1", "00e00",
               "1e-400", "1E-999", "4.9e-325", "2e-324", "0.1e-3_23", "1_0e-4_00"):
        pv = python_number(sp)
        if pv is None or pv != 0:
            raise core.HarnessError(f"generator: {sp!r} is not a Python spelling of zero")
        stats["zero_spellings"] += 1
        one(sp, pv, "zero", stats["int_spellings"] if isinstance(pv, int) else stats["float_spellings"])
    # spellings that overflow to inf: Python's value is inf
    for sp in ("1e309", "1e999", "2E308", "1_0e4_00", "179769313486231590000000000000000000000000000000000000000000000000000000000000000000000000000000000000000000000000000000000000000000000000000000000000000000000000000000000000000000000000000000000000000000000000000000000000000000000000000000000000000000000000000000000000000000000000000000000000000.0"):
        pv = python_number(sp)
        if pv != float("inf"):
            continue
        j = jinja_number(env, sp)
        distinct.add(sp)
        if j is None or canon_num(j[1]) != canon_num(pv):
            res.violate("C14:value:float:overflow:tokens", f"{sp!r} is read as {j!r}; Python reads inf", {"kind": "number", "spelling": sp})
        else:
            check_number_e2e(env, res, sp, pv, stats)
        reqs.append([Atom("lit-num"), cps(sp)])
        meta.append((sp, canon_num(pv), {"kind": "number", "spelling": sp}))
    replies = core.driver_batch(reqs)
    for (sp, want, replay), rep in zip(meta, replies):
        if rep[0] != "ok":
            raise core.HarnessError(f"lit-num {sp!r}: {rep!r:.200}")
        m, s = lean_num(rep[1]), spec_num(rep[2])
        if s != want:
            raise core.HarnessError(f"Spec/PyLiteral disagrees with CPython on {sp!r}: {s!r} vs {want!r}")
        if m != want:
            res.violate("C14:tie:number-model", f"real lexer reads {sp!r} as {want!r}, the Lean model as {m!r}",
                        dict(replay, correspondence="Model/Lex tagRule + Model/Literal vs Lexer.tokeniter+wrap"), no_input=True)
    return stats, samples, len(distinct)


def run_undefined_mapping(ctx, res, env, jinja2):
    """the one conversion compile_expression is allowed to make: an Undefined result becomes None by default, and only that"""
    n = 0
    for is_async, e in ((False, env), (True, async_env())):
        for expr in ("missing", "ns.nothing", "ns['k']", "[][5]"):
            n += 2
            try:
                d = e.compile_expression(expr)(ns={})
                k = e.compile_expression(expr, undefined_to_none=False)(ns={})
            except Exception as ex:  # noqa
                d = k = ("error", type(ex).__name__)
            if d is not None or not isinstance(k, jinja2.Undefined):
                res.violate("C14:compile_expression:undefined-mapping",
                            f"{'async ' if is_async else ''}compile_expression({expr!r}): default gives {d!r} (None expected), "
                            f"undefined_to_none=False gives {k!r} (an Undefined expected)", {"kind": "undefined", "expr": expr})
    return n


# non-finite constants (inf from an overflowing literal, -inf, nan by constant folding) in every position --------------

NONFINITE_EXPRS = ["0 * y", "y - 1", "0.0 * y", "-0.0", "-(0.0)", "'' + ''", "1e999", "-1e999", "1e309", "1e999 - 1e999", "1e999 * 0", "-1e999 + 1e999", "1e999 + y", "y - 1e999",
                   "1e999 if t else 2", "(1e999 - 1e999) if t else 0", "-1e999 if t else 0", "[1e999, -1e999, 1e999 - 1e999]",
                   "1e999 > y", "1e999 == 1e999", "(1e999 - 1e999) == (1e999 - 1e999)", "{'a': 1e999}['a'] + y",
                   "1_0e4_00 * 2", "2E308 / 1e999"]
NONFINITE_TEMPLATES = ["{%% set x = %s %%}{{ x }}", "{{ %s }}", "{%% if t %%}{{ %s }}{%% endif %%}",
                       "{%% for v in [%s] %%}{{ v }}{%% endfor %%}", "{%% set x = [%s] %%}{{ x[0] }}",
                       "{%% macro m(a=%s) %%}{{ a }}{%% endmacro %%}{{ m() }}", "{{ (%s, 1)[0] }}"]


def run_nonfinite(ctx, res, env):
    """the value Python assigns to the expression (eval of the same text: literals, arithmetic, comparison only) must be what
    the compiled expression / the rendered template yields, whatever position the constant is compiled in"""
    stats = {"expressions": 0, "templates": 0}
    data = {"t": True, "y": 1}
    for e in NONFINITE_EXPRS:
        want = eval(compile(e, "<c14>", "eval"), {"__builtins__": {}}, dict(data))
        stats["expressions"] += 1
        for suffix, desc, got in e2e_routes(env, e, True, data):
            if repr(got) != repr(want):
                key = ("C14:float-literal-inf:NameError" if got == ("error", "NameError") else "C14:float-nonfinite:expression" + suffix)
                res.violate(key, f"{desc}: {e!r} evaluates to {got!r}; Python's value is {want!r}",
                            {"kind": "nonfinite", "expr": e, "route": desc})
        for tpl in NONFINITE_TEMPLATES:
            src = tpl % e
            stats["templates"] += 1
            try:
                out = env.from_string(src).render(**data)
            except Exception as ex:  # noqa
                out = ("error", type(ex).__name__)
            if out != str(want):
                key = ("C14:float-literal-inf:NameError" if out == ("error", "NameError") else "C14:float-nonfinite:template")
                res.violate(key, f"{src!r} renders {out!r}; str of Python's value is {str(want)!r}",
                            {"kind": "nonfinite", "template": src})
    return stats


# ---------------------------------------------------------------------------------------------------------

def run(ctx, res):
    jinja2 = core.import_jinja()
    env = jinja2.Environment()
    with warnings.catch_warnings():
        warnings.simplefilter("ignore")
        nstats, nsamples, ndist = run_numbers(ctx, res, env)
        sstats, ssamples, sdist = run_strings(ctx, res, env, jinja2)
        ustats, udist = run_soups(ctx, res, env)
        vstats, vsamples, vdist = run_values(ctx, res, env, jinja2)
        fstats = run_nonfinite(ctx, res, env)
        fstats["undefined_mapping_checks"] = run_undefined_mapping(ctx, res, env, jinja2)
    evaluations = (nstats["spellings"] + nstats["e2e"] + nstats["jinja_one_number"] + sstats["cases"] * 3
                   + sstats.get("route_checks", 0) + ustats["cases"] + vstats["e2e"] + vstats["ints"] + vstats["floats"]
                   + vstats["negated"] + fstats["expressions"] + fstats["templates"])
    res.coverage.update({
        "evaluations": evaluations,
        "distinct_nontrivial": ndist + sdist + udist + vdist,
        "exhaustive": False,
        "exhaustive_part": f"(a) is a complete enumeration of the {nstats['spellings']} spellings of length 1..{pick(ctx, 4, 5)}; (b)-(d) are random",
        "rule": (f"(a) every spelling of length 1..{pick(ctx, 4, 5)} over [{ALPHABET}] (exhaustive): real tokeniter+wrap, Python's "
                 "ast.parse, Lean model (tag lexer + int/float conversion) and Lean reference grammar; non-trivial = read as "
                 "one number by at least one of the four; each spelling the lexer reads as a number also goes through "
                 "compile_expression and render. (b) random code point strings over 12 classes in repr / other-quote / "
                 "core-style / mixed-style / adjacent-piece spellings, through tokens, Environment.parse, "
                 "compile_expression, render and the Lean model; non-trivial = distinct expression text. (c) random escape "
                 "soups (valid, unknown, truncated, oversized, octal, named escapes; raw non-ASCII) read by Jinja, by "
                 "Python's eval, by the Lean model and the Lean escape table. (d) fixed boundary and random ints (up to 2000 "
                 "bits, 4 bases, underscores, prefix case) and floats (bit-pattern random, subnormal, max, exact decimal "
                 "expansions, 17-digit, underscores, exponent forms), also negated"),
        "samples": nsamples[:3] + ssamples[:3] + vsamples[:2],
        "numbers_exhaustive": nstats,
        "strings": sstats,
        "escape_soups": ustats,
        "values": vstats,
        "nonfinite_constants": fstats,
        "intensified_search": intensified(ctx),
    })


def replay(ctx, case):
    jinja2 = core.import_jinja()
    env = jinja2.Environment()
    c = case["case"]
    with warnings.catch_warnings():
        warnings.simplefilter("ignore")
        if c["kind"] == "number":
            sp = ("-" if c.get("negated") else "") + c["spelling"]
            return {"spelling": sp, "tokens": repr(raw_inner(env, sp)), "jinja_number": repr(jinja_number(env, c["spelling"])),
                    "python": repr(python_number(c["spelling"])),
                    "compile_expression": {d: repr(v) for _, d, v in e2e_routes(env, sp, True)},
                    "render": repr(e2e_render(env, sp))}
        if c["kind"] == "string":
            expr = "".join(map(chr, c["expr"]))
            return {"expr": expr, "wanted": c["value"], "tokens": repr(raw_inner(env, expr)),
                    "parse": repr(parse_const(env, jinja2, expr)),
                    "compile_expression": {d: repr(v) for _, d, v in e2e_routes(env, expr, True)},
                    "render": repr(e2e_render(env, expr))}
        if c["kind"] == "nonfinite":
            data = {"t": True, "y": 1}
            if "expr" in c:
                return {"expr": c["expr"], "compile_expression": repr(e2e_value_data(env, c["expr"], data))}
            try:
                return {"template": c["template"], "render": env.from_string(c["template"]).render(**data)}
            except Exception as ex:  # noqa
                return {"template": c["template"], "render": "raised " + type(ex).__name__ + ": " + str(ex)}
        body = "".join(map(chr, c["body"]))
        expr = c["quote"] + body + c["quote"]
        return {"expr": expr, "jinja": repr(parse_const(env, jinja2, expr)), "python": repr(python_body_value(body, c["quote"]))}
