"""C31 — precompiled templates render exactly like templates compiled from source."""
from __future__ import annotations

import asyncio
import gc
import hashlib
import json
import re
import shutil
import tempfile
import zipfile
from pathlib import Path

from harness import core
from harness.core import Atom
from harness.gen.c30_templates import TGen
from harness.gen.c31_sets import SetGen

ID = "C31"
LEAN_MODULES = ["JinjaV.Props.C31"]
LEVEL = "proof"
TRUSTED = [
    "Model/Precompiled.lean: the module skeleton of visit_Template, Python's resolution of a read-only name through nested "
    "function scopes / default parameters / module globals, and the name -> 'tmpl_'+sha1 -> module lookup are hand models; "
    "tied by the L-code comparison of both compilation modes on every generated template, by the files compile_templates "
    "writes, and by lookups on the real ModuleLoader",
    "hashlib.sha1 collision freedom (hypothesis of module_key_injective and of the lookup theorems)",
    "the import machinery, zipimport, file IO, Template._from_namespace and the whole rendering runtime are NOT modelled: "
    "that equal name->code maps give equal renders is established end-to-end only",
]
ASSUMPTIONS = ["every template of a set compiles (compile_templates skips templates with syntax errors by default: the "
               "precompiled side then reports TemplateNotFound instead of TemplateSyntaxError — theorem skipped_template_not_found)",
               "both environments are constructed with identical options"]
CLAIM = dict(
    category="proof",
    technique="Lean 4 proofs about the generated-module skeleton, the `environment` name binding and the name->module lookup "
              "(partial: no render semantics) + textual comparison of both compilation modes on every generated template + "
              "end-to-end differential rendering of template sets through compile_templates / ModuleLoader (directory and zip)",
    text="Theorems (Props/C31.lean): defer_init_only_env_binding — compile(defer_init=True) and (False) emit the same module "
         "except that each indentation-0 render function (root, block_*) lacks the default parameter environment=environment; "
         "env_binding_equiv — inside such a function, at any nesting depth of inner functions, the name environment resolves to "
         "the same object whether it is that default parameter (bound when from_code executes the module) or the module global "
         "set by _from_namespace; module_key_injective — under SHA-1 collision freedom distinct names map to distinct module "
         "files; load_compiled_own_code / load_uncompiled_not_found — ModuleLoader.load of a compiled name yields that "
         "template's own code, of any other name TemplateNotFound; precompiled_lookup_eq — hence both loaders present the same "
         "name->meaning map for every name; shared_loader_keeps_own_environment — any number of loads of any templates for any "
         "environments through ONE module loader leave every template object with a namespace that holds its own code and its "
         "own environment (each load executes the module into a new namespace); skipped_template_not_found states the "
         "documented boundary (templates that do not compile are skipped). PARTIAL: that rendering over equal maps gives equal output (DESIGN's precompiled_render_eq) is "
         "not proved; import machinery, zipimport and file IO are correspondence-only. Tie: L-code on every generated "
         "template x 5 environment configurations (the deferred source must equal the eager one after dropping the parameter "
         "from exactly the lines the model names, and equal the file compile_templates writes under the name the model "
         "computes); L-e2e: generated template sets (inheritance chains with super, conditional/dynamic extends, includes "
         "with/without context, ignore missing, select lists, imports with/without context, odd template names, missing "
         "references) compiled to a directory and to stored/deflated zips, loaded by ModuleLoader in a fresh Environment with the "
         "same options (plain, autoescape, async, sandboxed, custom delimiters), every template rendered both ways with several "
         "data sets; outputs and exception classes must agree; per set additionally ONE ModuleLoader (control: one DictLoader) "
         "shared by an environment, its overlay and an independently constructed environment that differ in run-time "
         "configuration (undefined type, filter table), templates rendered through A, B, C, A and compared with the source "
         "path in the same configuration, module namespaces checked for their own environment.",
    note="Trusted: Lean kernel; hand model tied by correspondence; sha1 collision freedom. Partial by design: the assurance for "
         "the rendering part of this property is its correspondence run.",
    design_ref="§5 C31",
)

CONFIGS = ["plain", "auto", "async", "sandbox", "delims"]
ZIPS = [None, "stored", "deflated"]
DELIMS = dict(block_start_string="<%", block_end_string="%>", variable_start_string="${", variable_end_string="}$",
              comment_start_string="<#", comment_end_string="#>")
_HDR = re.compile(r"^(async )?def (root|block_[^(]+)\(context, missing=missing, environment=environment\):$")


def make_env(jinja2, cfg, loader):
    from jinja2.sandbox import SandboxedEnvironment

    if cfg == "plain":
        return jinja2.Environment(loader=loader)
    if cfg == "auto":
        return jinja2.Environment(loader=loader, autoescape=True)
    if cfg == "async":
        return jinja2.Environment(loader=loader, enable_async=True)
    if cfg == "sandbox":
        return SandboxedEnvironment(loader=loader)
    if cfg == "delims":
        return jinja2.Environment(loader=loader, **DELIMS)
    raise AssertionError(cfg)


def to_delims(src):
    return src.replace("{%", "<%").replace("%}", "%>").replace("{{", "${").replace("}}", "}$").replace("{#", "<#").replace("#}", "#>")


def sha1(name):
    return hashlib.sha1(name.encode("utf-8")).hexdigest()


def strip_env(src):
    """the model's stripEnv on text: drop `, environment=environment` from indentation-0 render function headers only"""
    out, changed = [], []
    for ln in src.split("\n"):
        if _HDR.match(ln):
            changed.append(ln)
            ln = ln.replace(", environment=environment", "")
        out.append(ln)
    return "\n".join(out), changed


def top_defs(src):
    return [ln for ln in src.split("\n") if ln.startswith("def ") or ln.startswith("async def ")]


# ----------------------------------------------------------------------------------------------------------------
# L-code
# ----------------------------------------------------------------------------------------------------------------

def lcode_case(res, jinja2, env, cfg, name, src, reqs, checks):
    from jinja2 import nodes

    try:
        deferred = env.compile(src, name, None, raw=True, defer_init=True)
        eager = env.compile(src, name, None, raw=True, defer_init=False)
    except jinja2.TemplateSyntaxError:
        return "syntax-error"
    case = {"config": cfg, "name": name, "template": src}
    stripped, changed = strip_env(eager)
    if stripped != deferred:
        a, b = stripped.split("\n"), deferred.split("\n")
        i = next((k for k, (x, y) in enumerate(zip(a, b)) if x != y), min(len(a), len(b)))
        res.violate("C31:L-code:defer-init-difference",
                    f"compile(defer_init=True) and compile(defer_init=False) differ beyond the environment=environment parameter "
                    f"(config {cfg}) at line {i + 1}: {a[i] if i < len(a) else None!r} vs {b[i] if i < len(b) else None!r}", case)
    blocks = []
    for b in env.parse(src).find_all(nodes.Block):
        if b.name not in blocks:
            blocks.append(b.name)
    for d, text in ((True, deferred), (False, eager)):
        reqs.append([Atom("c31-headers"), d, env.is_async, blocks])
        checks.append(("headers", top_defs(text), dict(case, defer_init=d)))
    if len(changed) != 1 + len(blocks):
        res.violate("C31:L-code:header-count", f"{len(changed)} render function headers carry environment=environment, the model "
                                               f"says {1 + len(blocks)} (root + blocks {blocks})", case)
    return "ok"


# ----------------------------------------------------------------------------------------------------------------
# L-e2e
# ----------------------------------------------------------------------------------------------------------------

def render(env, name, data):
    try:
        t = env.get_template(name)
        if env.is_async:
            out = asyncio.run(t.render_async(**data))
        else:
            out = t.render(**data)
        return ["ok", out]
    except Exception as e:  # noqa
        extra = ""
        if type(e).__name__ in ("TemplateNotFound", "TemplatesNotFound"):
            extra = ":" + str(getattr(e, "name", ""))
        return ["raised", type(e).__name__ + extra]


def _upper_b(s):
    return "<B:%s>" % (s,)


def _upper_c(s):
    return "<C:%s>" % (s,)


def _join_c(eval_ctx, value, d="", attribute=None):
    # the built-in join is a pass_eval_context filter and the compiler bakes that calling convention into the generated code,
    # so the replacement keeps it (env_family wraps this in jinja2.pass_eval_context): only run-time behaviour differs
    return "<Cjoin:%s>" % d.join(str(x) for x in value)


def env_family(jinja2, cfg, loader):
    """three environments over ONE loader object that differ in run-time configuration only (undefined type, contents of the
    filter table): A plain; B = A.overlay(...) (an overlay shares the loader); C constructed independently with the same loader"""
    a = make_env(jinja2, cfg, loader)
    b = a.overlay(undefined=jinja2.StrictUndefined)
    b.filters = dict(a.filters, upper=_upper_b)
    c = make_env(jinja2, cfg, loader)
    c.undefined = jinja2.DebugUndefined
    c.filters = dict(c.filters, upper=_upper_c, join=jinja2.pass_eval_context(_join_c))
    return [("A", a), ("B", b), ("C", c)]


def shared_loader(res, jinja2, cfg, zmode, target, templates, datas, stats):
    """one ModuleLoader instance shared by several environments (and, as control, one DictLoader): every template rendered
    through A, B, C and A again; each rendering must equal the source-loaded rendering under the same configuration, and each
    loaded template's module namespace must hold its own environment (theorem shared_loader_keeps_own_environment)"""
    pre = env_family(jinja2, cfg, jinja2.ModuleLoader(str(target)))
    src = env_family(jinja2, cfg, jinja2.DictLoader(dict(templates)))
    case0 = {"config": cfg, "zip": zmode, "templates": templates, "shared_loader": True}
    order = [0, 1, 2, 0]
    for name in templates:
        for data in datas:
            for rnd, k in enumerate(order):
                a = render(src[k][1], name, data)
                b = render(pre[k][1], name, data)
                stats["shared_renders"] += 1
                if a != b:
                    res.violate(f"C31:e2e:shared-loader:{cfg}:{'dir' if zmode is None else 'zip'}",
                                f"one ModuleLoader shared by three environments: template {name!r} rendered through environment "
                                f"{pre[k][0]} (step {rnd + 1} of A,B,C,A; config {cfg}, zip={zmode}) gives {b!r:.250}, loading from "
                                f"source in the same configuration gives {a!r:.250}",
                                dict(case0, name=name, data=data, environment=pre[k][0], step=rnd, source=a, precompiled=b))
    # every environment's cached template still sees its own environment
    for label, fam in (("precompiled", pre), ("source", src)):
        for tag, env in fam:
            for name in templates:
                try:
                    t = env.get_template(name)
                except Exception:  # noqa
                    continue
                stats["namespace_checks"] += 1
                if t.root_render_func.__globals__.get("environment") is not env:
                    res.violate(f"C31:shared-loader:namespace-binding:{label}",
                                f"after loading through environments A, B, C, the module namespace of template {name!r} held by "
                                f"environment {tag} ({label} path) has `environment` bound to a different environment object",
                                dict(case0, name=name, environment=tag))


def e2e_set(ctx, res, jinja2, rng, idx, cfg, zmode, tmp, reqs, checks, stats):
    g = SetGen(rng, depth=rng.choice([2, 3]))
    templates, _ = g.make_set()
    if cfg == "delims":
        templates = {k: to_delims(v) for k, v in templates.items()}
    datas = [g.data() for _ in range(ctx.pick(3, 5))]
    for k, v in g.hit.items():
        stats["features"][k] = stats["features"].get(k, 0) + v
    env_src = make_env(jinja2, cfg, jinja2.DictLoader(dict(templates)))
    target = Path(tmp) / (f"set{idx}" + ("" if zmode is None else ".zip"))
    logs = []
    env_src.compile_templates(str(target), zip=zmode, log_function=logs.append)
    skipped = [l for l in logs if l.startswith("Could not compile")]
    if skipped:
        stats["sets_out_of_domain"] += 1
        return
    case0 = {"config": cfg, "zip": zmode, "templates": templates}
    # the files written: name per the model, content = the deferred source
    if zmode is None:
        files = {p.name: p.read_text(encoding="utf-8") for p in target.iterdir()}
    else:
        with zipfile.ZipFile(target) as z:
            files = {n: z.read(n).decode("utf-8") for n in z.namelist()}
    for name, src in templates.items():
        reqs.append([Atom("c31-filename"), name, sha1(name)])
        checks.append(("file", (files, env_src.compile(src, name, None, raw=True, defer_init=True)), dict(case0, name=name)))
    if len(files) != len(templates):
        res.violate("C31:files:count", f"compile_templates wrote {len(files)} files for {len(templates)} templates", case0)
    # loader lookups against the model
    entries = [[n, sha1(n), True] for n in templates]
    loader = jinja2.ModuleLoader(str(target))
    env_pre = make_env(jinja2, cfg, loader)
    for q in list(templates) + ["nope", "does-not-exist", "MAIN", "main ", ""]:
        got = []
        for e in (env_pre, env_src):
            try:
                got.append(["template", e.get_template(q).name])
            except jinja2.TemplateNotFound:
                got.append(["notfound"])
        reqs.append([Atom("c31-load"), entries, q, sha1(q)])
        checks.append(("load", got, dict(case0, query=q)))
    # every template rendered both ways
    for name in templates:
        for data in datas:
            a = render(env_src, name, data)
            b = render(env_pre, name, data)
            stats["renders"] += 1
            stats["outcomes"][a[1] if a[0] == "raised" else "ok"] = stats["outcomes"].get(a[1] if a[0] == "raised" else "ok", 0) + 1
            stats["distinct"].add(hashlib.sha1(json.dumps([templates, name, data, cfg, zmode], sort_keys=True, default=str).encode()).hexdigest())
            if a != b:
                kind = "output" if a[0] == b[0] == "ok" else "exception"
                res.violate(f"C31:e2e:{kind}:{cfg}:{'dir' if zmode is None else 'zip'}",
                            f"template {name!r} (config {cfg}, zip={zmode}) renders differently: from source {a!r:.300}, "
                            f"precompiled {b!r:.300}", dict(case0, name=name, data=data, source=a, precompiled=b))
    stats["sets"] += 1
    stats["templates"] += len(templates)
    del env_pre, loader
    shared_loader(res, jinja2, cfg, zmode, target, templates, datas[:2], stats)
    gc.collect()


def run(ctx, res):
    jinja2 = core.import_jinja()
    tmp = tempfile.mkdtemp(prefix="jv-c31-")
    reqs, checks = [], []
    stats = {"sets": 0, "templates": 0, "renders": 0, "outcomes": {}, "features": {}, "sets_out_of_domain": 0, "distinct": set(),
             "shared_renders": 0, "namespace_checks": 0}
    lcode = {"ok": 0, "syntax-error": 0}
    try:
        # L-code over single templates: the C30 grammar (rich statements) + every template of the sets below
        rng = ctx.rng("lcode")
        n_single = ctx.pick(120, 3000)
        envs = {c: make_env(jinja2, c, None) for c in CONFIGS}
        for i in range(n_single):
            cfg = CONFIGS[i % len(CONFIGS)]
            src = TGen(rng, depth=rng.choice([2, 3])).template()
            if cfg == "delims":
                src = to_delims(src)
            lcode[lcode_case(res, jinja2, envs[cfg], cfg, f"t{i}.html", src, reqs, checks)] += 1
        # L-e2e over template sets
        rng = ctx.rng("sets")
        n_sets = ctx.pick(45, 1200)
        for i in range(n_sets):
            cfg = CONFIGS[i % len(CONFIGS)]
            zmode = ZIPS[(i // len(CONFIGS)) % len(ZIPS)]
            before = len(reqs)
            e2e_set(ctx, res, jinja2, rng, i, cfg, zmode, tmp, reqs, checks, stats)
            for kind, payload, case in checks[before:]:
                if kind == "file":
                    lcode[lcode_case(res, jinja2, envs[cfg], cfg, case["name"], case["templates"][case["name"]], reqs, checks)] += 1
    finally:
        shutil.rmtree(tmp, ignore_errors=True)
    # the model's answers
    replies = core.driver_batch(reqs)
    mism = 0
    for (kind, payload, case), req, rep in zip(checks, reqs, replies):
        if not (isinstance(rep, list) and rep and rep[0] == "ok"):
            raise core.HarnessError(f"driver reply {rep!r} for {core.sx(req)[:200]}")
        model = rep[1]
        if kind == "headers":
            if [str(x) for x in model] != payload:
                mism += 1
                res.violate("C31:model-drift:headers", f"render function headers of the generated module {payload!r} differ from the "
                                                       f"model's {model!r}; defer_init_only_env_binding is about the model only",
                            dict(case, layer="L-code"), no_input=True)
        elif kind == "file":
            files, deferred = payload
            fn = str(model)
            if fn not in files:
                res.violate("C31:files:name", f"compile_templates did not write {fn!r} for template {case['name']!r} "
                                              f"(files: {sorted(files)[:6]})", case)
            elif files[fn] != deferred:
                res.violate("C31:files:content", f"the file compile_templates wrote for {case['name']!r} is not "
                                                 "compile(source, name, filename, raw=True, defer_init=True)", case)
        elif kind == "load":
            m = [str(x) for x in model]
            pre, src_side = payload
            if pre != src_side:     # the property's own oracle: loading the same name from source
                res.violate("C31:loader:lookup", f"get_template({case['query']!r}): ModuleLoader gives {pre!r}, loading from source "
                                                 f"gives {src_side!r} (model: {m!r})", case)
            elif m != pre:
                mism += 1
                res.violate("C31:model-drift:load", f"ModuleLoader lookup of {case['query']!r}: real {pre!r}, model {m!r} (source "
                                                    "loading agrees with the real loader)", dict(case, layer="L-unit"), no_input=True)
    distinct = len(stats.pop("distinct"))
    res.coverage.update({
        "evaluations": len(reqs) + stats["renders"] + stats["shared_renders"] + stats["namespace_checks"],
        "distinct_nontrivial": distinct + lcode["ok"],
        "rule": "L-code: single templates from the C30 grammar (120/3000) and every template of every set, in 5 configurations "
                "(plain, autoescape, async, sandboxed, custom delimiters): both compilation modes compared textually, header "
                "lines against the model. L-e2e: sets from harness/gen/c31_sets.py (4-10 templates: libraries, includes incl. odd "
                "names, 1-3 level inheritance chain, optional orphan with missing references), config and zip mode cycled, "
                "every template x 3/5 data sets rendered through DictLoader and through compile_templates + ModuleLoader; "
                "non-trivial = distinct (set, template, data, config, zip mode). Shared loader: per set one ModuleLoader (and, as "
                "control, one DictLoader) shared by environment A, its overlay B (StrictUndefined, `upper` replaced) and an "
                "independently constructed C (DebugUndefined, `upper`/`join` replaced); every template x 2 data sets rendered "
                "through A, B, C, A and compared with the source path in the same configuration; module namespaces checked for "
                "their own `environment`",
        "samples": [c for k, p, c in checks if k == "load"][:2],
        "lcode": lcode, "model_mismatches": mism, "configs": CONFIGS, "zip_modes": [str(z) for z in ZIPS],
        "e2e": stats,
    })


def replay(ctx, case):
    jinja2 = core.import_jinja()
    c = case.get("case", case)
    if "templates" not in c or "name" not in c or "data" not in c:
        return c
    if c.get("shared_loader"):
        tmp = tempfile.mkdtemp(prefix="jv-c31-")
        try:
            target = Path(tmp) / ("set" + ("" if c["zip"] is None else ".zip"))
            make_env(jinja2, c["config"], jinja2.DictLoader(dict(c["templates"]))).compile_templates(str(target), zip=c["zip"])
            pre = env_family(jinja2, c["config"], jinja2.ModuleLoader(str(target)))
            src = env_family(jinja2, c["config"], jinja2.DictLoader(dict(c["templates"])))
            out = []
            for k in [0, 1, 2, 0]:
                out.append({"environment": pre[k][0], "from_source": render(src[k][1], c["name"], c["data"]),
                            "precompiled": render(pre[k][1], c["name"], c["data"])})
            return out
        finally:
            shutil.rmtree(tmp, ignore_errors=True)
    tmp = tempfile.mkdtemp(prefix="jv-c31-")
    try:
        env_src = make_env(jinja2, c["config"], jinja2.DictLoader(dict(c["templates"])))
        target = Path(tmp) / ("set" + ("" if c["zip"] is None else ".zip"))
        env_src.compile_templates(str(target), zip=c["zip"])
        env_pre = make_env(jinja2, c["config"], jinja2.ModuleLoader(str(target)))
        return {"from_source": render(env_src, c["name"], c["data"]), "precompiled": render(env_pre, c["name"], c["data"])}
    finally:
        shutil.rmtree(tmp, ignore_errors=True)
