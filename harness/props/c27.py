"""C27 — the bytecode cache never yields stale code and tolerates interrupted writes.

(a) L-unit: Bucket.load_bytecode on every truncation offset, single-byte corruptions, stale / other-source / foreign-magic
    entries, against the Lean transcription whose handlers are READ from bccache.py; the decoders' answers are measured by
    calling the real pickle/marshal on the same bytes and handed to the model as its parameter.
(b) crash injection into FileSystemBytecodeCache.dump_bytecode: a forked child dies (os._exit) after every prefix of the
    operation list; in-process, every step raises (OSError / KeyboardInterrupt); directory compared with the model, then a
    fresh Environment must render correctly.
(c) exhaustive histories of get / modify / clear / new environment / damage over the file-system cache and over a fake
    memcache client (failing, truncating; with and without ignore_memcache_errors).
(d) two environments with different compile-relevant options sharing one cache directory.
"""
from __future__ import annotations

import errno
import io
import itertools
import json
import marshal
import os
import pickle
import shutil
import tempfile

import translate.bccache_sites
from harness import core
from harness.core import Atom

ID = "C27"
LEAN_MODULES = ["JinjaV.Props.C27"]
GEN = [translate.bccache_sites.gen]
LEVEL = "proof"
TRUSTED = [
    "Model/BcCache.lean: hand transcription of Bucket.load_bytecode/write_bytecode, of BaseLoader.load's use of the bucket and "
    "of the directory effects of dump_bytecode's statements; the handler classes, statement order and step lists are read by "
    "translate/bccache_sites.py (Python ast) on every run, the rest is tied by this correspondence run",
    "pickle.load / marshal.load are parameters: total, raise only {EOFError, UnpicklingError, ValueError, TypeError} resp. "
    "{EOFError, ValueError, TypeError}, round-trip what dump wrote (validated on every truncation of real entries; on "
    "single-byte damage CPython's pickle also raises MemoryError and its marshal SystemError/MemoryError, segfaults or hangs: "
    "such cases are counted as outside the contract and not judged)",
    "SHA-1 of source / of name|filename injective; os.replace atomic; NamedTemporaryFile returns a fresh name",
    "file-system errors are injected by substituting tempfile / os / open inside the bccache module only; the model's answer for "
    "load-read (propagates) and remove_silent (OSError swallowed) is by hand, the translator only checks remove_silent's shape",
    "the exception-class table Model.mroOf (compared with the interpreter's __mro__ on every run)",
]
ASSUMPTIONS = [
    "os.replace is atomic on the cache directory's file system (POSIX rename)",
    "SHA-1 collision freedom for template sources and for template names",
    "decoders are total and raise only within their declared exception sets on truncated input",
]

CLAIM = dict(
    category="proof",
    technique="Lean 4 proofs over a model of Bucket/FileSystemBytecodeCache/MemcachedBytecodeCache whose handler classes, "
              "statement order and write-path step list are re-read from bccache.py on every run + differential runs on the "
              "real classes (every truncation offset, byte damage, crash after every write-path step in a forked child, "
              "injected exceptions, exhaustive operation histories, option pairs sharing a directory)",
    text="Theorems (Props/C27.lean): load_total - whatever the magic, for every byte string, bucket checksum and decoders within "
         "their contracts Bucket.load_bytecode with the handlers as they are in the source ends as miss or hit and raises nothing "
         "(from load_total_of_guarded; decoder_sites_guarded and no_unguarded_sites re-prove from the source on every run that each "
         "decoder call is under a handler covering its exception set, load_shape the statement order); "
         "load_sound - load(write(ck, code)) is a hit with exactly code iff ck is the current source's checksum, any "
         "other checksum a miss; foreign_magic_miss, short_entry_miss; magic_depends_on_interpreter - bc_magic is computed from sys.version_info[0], sys.version_info[1] and bc_version (expression read from the source); fs_fault_safe - an exception at any step of dump_bytecode leaves the old entry, no temporary and propagates unless it is an OSError from os.replace; fs_crash_safe - after every prefix of dump_bytecode's "
         "operations (read from the source: temporary beside the entry, writes, close, os.replace), from every prior directory, the "
         "entry's name holds its previous content or the complete new entry, nothing else but the temporary changes and the "
         "temporary's name differs from the entry's; memcache_errors - with ignore_memcache_errors a failing client is a miss, "
         "without it the error propagates, values go to load_bytecode unchanged; history_fresh / history_fresh_single_cfg - for every "
         "history of loads, source changes, clears and lost entries through configurations that compile alike, every load executes "
         "compile(current source) (checksum injective, decoders round-trip); leftover_tmp_never_loaded / leftover_tmp_not_matched_by_clear / "
         "entry_matched_by_clear - a temporary left by a crash is never opened as an entry (any pattern, keys of equal length) and "
         "with the default pattern is not matched by clear()'s glob, complete entries are. Sharing a cache between configurations that compile "
         "differently is NOT covered (key_ignores_configuration; F10a, known finding, negation witness in Findings/F10a.lean). Tie: "
         "Gen/BcCacheSites.lean regenerated each run; Bucket on every truncation offset of real entries, all byte values in the "
         "magic+checksum region of one entry (sampled values on the others), sampled damage in the marshal region (forked), stale/other-source/foreign-magic entries; crash "
         "after each of the write path's steps in a forked child and injected OSError/KeyboardInterrupt at each step, directory "
         "compared with the model and re-rendered through a fresh Environment; every history of length <=4 (quick) / <=5 "
         "(thorough) over get/modify/clear/new-environment/3 kinds of truncation on FileSystemBytecodeCache and over a fake "
         "memcache client (ok/get fails/set fails/truncates, ignore on/off), where source changes include edits of the line-terminator "
         "structure only (final newline, \\n<->\\r\\n/\\r/the 8 other str.splitlines() boundaries), trailing blanks, one character, "
         "case, line order, with keep_trailing_newline on and off, judged against a cache-less compile; the injectivity hypothesis on "
         "the checksum is validated on these edit classes: load_shape re-proves that get_source_checksum is SHA-1 of the whole "
         "unmodified source, and every pair of ~32 such variants of 6 sources must have distinct checksums (C27:checksum:collision); "
         "7 option pairs sharing a directory. Foreign interpreter: a child process reloads the real bccache module under a patched "
         "sys.version_info (3.x-1, 3.x+1, 3.9, 3.14, 2.7, 4.0), lets it compute its own bc_magic and write an entry with marker code "
         "under the right key and checksum; loading it here must be a miss (control: the same under the own version is a hit). "
         "File-system errors: replace_oserror_is_miss / no_replace_escapes - for EVERY exception with "
         "OSError among its bases a failing os.replace leaves dump_bytecode normally with the old entry and no temporary (handlers read "
         "from the source); open_obstacles_are_misses - a missing entry, a directory at the entry's path, an unreadable entry are misses "
         "in load_bytecode. Tie: 15 OSError classes/errnos (+KeyboardInterrupt) injected into get_template at every file operation of "
         "the cache (open, read, temporary creation, each write, close, replace, remove) with the entry absent/old, os.remove in clear(), "
         "and real obstacles through the public API (directory / dangling symlink / symlink loop at the entry's path, cache directory "
         "missing or a regular file; read-only directory and unreadable entry when not root), compared with the transcription (model over the handlers read from the source; a difference "
         "is reported as C27:fs-fault:model-drift, correspondence only), and judged by the property only in what follows the fault: the "
         "next fault-free load renders the current source and no temporary stays where the model removes it.",
    note="Trusted: Lean kernel; translator; hand model tied by correspondence; decoder contracts, SHA-1 injectivity, rename "
         "atomicity assumed. Outside the decoder contract (not judged): MemoryError / SystemError from pickle or marshal on damaged "
         "bytes, and CPython crashing or hanging in marshal.load. Freshness across different configurations is false (F10a, known "
         "finding). F10b (unguarded pickle.load) is fixed in b3991f5; every truncation offset and byte damage is still probed. Outside the property: what get_template does when the file system answers a cache operation with an OSError (open other "
         "than the three listed classes, read, creating/writing/closing the temporary propagate; dump_bytecode is documented to raise) - "
         "transcribed and pinned, not judged. Exceptions injected into the write path propagate by design (docstring of "
         "BytecodeCache.dump_bytecode) and are compared with the model, not judged.",
    design_ref="§5 C27",
)

NAME = "page.html"
SOURCES = [
    "V{v}:{{{{ x }}}}",
    "V{v}:{{% for i in items %}}<{{{{ i }}}}>{{% endfor %}}{{{{ x }}}}",
    "V{v}:{{% if x %}}{{{{ x|upper }}}}{{% else %}}none{{% endif %}}{{% macro m(a) %}}[{{{{ a }}}}]{{% endmacro %}}{{{{ m(1) }}}}",
]


def mro(e) -> list[str]:
    return [k.__name__ for k in type(e).__mro__ if k is not object]


def sx_exc(tag, names):
    return [Atom(tag)] + list(names)


def canon(o):
    if isinstance(o, list):
        return [canon(x) for x in o]
    return str(o) if isinstance(o, Atom) else o


# ------------------------------------------------------------------------------------------------------------------
# forked evaluation (CPython's marshal can crash or hang on damaged data)
# ------------------------------------------------------------------------------------------------------------------

def forked_map(fn, cases, alarm=2):
    out = []
    i = 0
    while i < len(cases):
        r, w = os.pipe()
        pid = os.fork()
        if pid == 0:
            try:
                os.close(r)
                import resource
                import signal
                resource.setrlimit(resource.RLIMIT_AS, (1 << 31, 1 << 31))
                with os.fdopen(w, "w") as wf:
                    for c in cases[i:]:
                        signal.alarm(alarm)
                        wf.write(json.dumps(fn(c)) + "\n")
                        wf.flush()
                    signal.alarm(0)
            finally:
                os._exit(0)
        os.close(w)
        with os.fdopen(r) as rf:
            got = [json.loads(l) for l in rf.read().split("\n") if l]
        _, st = os.waitpid(pid, 0)
        out += got
        i += len(got)
        if i < len(cases) and st != 0:
            out.append({"crash": st & 0x7F})
            i += 1
        elif i < len(cases) and not got:
            raise core.HarnessError("forked evaluation made no progress")
    return out


# ------------------------------------------------------------------------------------------------------------------
# (a) L-unit
# ------------------------------------------------------------------------------------------------------------------

class Unit:
    def __init__(self, jinja2):
        self.j = jinja2
        self.bc = jinja2.bccache
        self.magic = self.bc.bc_magic
        self.env = jinja2.Environment()

    def entry(self, src, name=NAME):
        code = self.env.compile(src, name, name)
        ck = self.bc.BytecodeCache().get_source_checksum(src)
        b = self.bc.Bucket(self.env, "k", ck)
        b.code = code
        return b.bytecode_to_string(), ck, code

    def evaluate(self, case):
        """case = dict(bytes=hex, ck=str, stored=(hex of marshal of stored code)) -> measured decoder outcomes + real outcome.
        ids: checksum 1 = the bucket's, 2 = any other value; code 1 = equal to the stored code, 2 = anything else"""
        b = bytes.fromhex(case["bytes"])
        ck = case["ck"]
        stored = marshal.loads(bytes.fromhex(case["stored"]))
        M = len(self.magic)
        po = mo = ["none"]
        f = io.BytesIO(b)
        head = f.read(M)
        if head == self.magic:
            try:
                v = pickle.load(f)
                po = ["ok", 1 if (type(v) is str and v == ck) else 2]
            except BaseException as e:  # noqa
                po = ["raise"] + mro(e)
            if po[0] == "ok":
                try:
                    c = marshal.load(f)
                    mo = ["ok", 1 if (type(c) is type(stored) and c == stored) else 2]
                except BaseException as e:  # noqa
                    mo = ["raise"] + mro(e)
        bk = self.bc.Bucket(self.env, "k", ck)
        try:
            bk.load_bytecode(io.BytesIO(b))
            if bk.code is None:
                real = ["miss"]
            else:
                real = ["hit", 1 if (type(bk.code) is type(stored) and bk.code == stored) else 2]
        except BaseException as e:  # noqa
            real = ["raises"] + mro(e)
        return {"head": list(head), "po": po, "mo": mo, "real": real}


def enc_outcome(o):
    if o[0] == "ok":
        return [Atom("ok"), o[1]]
    if o[0] == "raise":
        return [Atom("raise")] + o[1:]
    return [Atom("none")]


def run_unit(ctx, res, jinja2, stats):
    u = Unit(jinja2)
    rng = ctx.rng("unit")
    M = len(u.magic)
    nsrc = ctx.pick(2, 3)
    entries = []
    for i in range(nsrc):
        src = SOURCES[i].format(v=1)
        entries.append((src,) + u.entry(src))
    cases = []      # (kind, desc, dict, forked?)

    def add(kind, desc, b, ck, code, forked=False):
        cases.append((kind, desc, {"bytes": b.hex(), "ck": ck, "stored": marshal.dumps(code).hex()}, forked))

    for si, (src, data, ck, code) in enumerate(entries):
        pk_end = M + len(pickle.dumps(ck, 2))
        add("intact", f"src{si}", data, ck, code)
        for n in range(len(data)):
            add("truncated", f"src{si}@{n}", data[:n], ck, code)
        # stale: the same template's older version; other-source: another template's entry
        old_src = SOURCES[si].format(v=0)
        odata, ock, ocode = u.entry(old_src)
        add("stale", f"src{si}:old-version", odata, ck, code)
        other = entries[(si + 1) % len(entries)]
        add("other-source", f"src{si}:entry-of-src{(si + 1) % len(entries)}", other[1], ck, code)
        # foreign magic
        vi = pickle.dumps
        for label, mg in [("py3.11", b"j2" + vi(u.bc.bc_version, 2) + vi((3 << 24) | 11, 2)),
                          ("py3.13", b"j2" + vi(u.bc.bc_version, 2) + vi((3 << 24) | 13, 2)),
                          ("py2.7", b"j2" + vi(u.bc.bc_version, 2) + vi((2 << 24) | 7, 2)),
                          ("bc4", b"j2" + vi(u.bc.bc_version - 1, 2) + vi((3 << 24) | 12, 2)),
                          ("zeros", b"\0" * M), ("pyc", b"\xcb\r\r\n" + b"\0" * 12), ("short", b"j2")]:
            if mg != u.magic:
                add("foreign-magic", f"src{si}:{label}", mg + data[M:], ck, code)
        # single-byte damage: header and checksum region in process
        vals = range(256) if (not ctx.quick and si == 0) else None     # thorough: every value, on the first entry
        extra = 3 if ctx.quick else 16
        for off in range(pk_end):
            choices = vals if vals is not None else sorted({data[off] ^ m for m in (0x01, 0x20, 0x80, 0xFF)} |
                                                            {rng.randrange(256) for _ in range(extra)})
            for v in choices:
                if v != data[off]:
                    add("corrupted", f"src{si}@{off}={v}", data[:off] + bytes([v]) + data[off + 1:], ck, code)
        # marshal region: forked, sampled
        offs = list(range(pk_end, len(data)))
        picks = [(off, 0x01) for off in offs] if not ctx.quick else []
        for _ in range(ctx.pick(120, 600)):
            picks.append((rng.choice(offs), rng.choice([0x01, 0x02, 0x10, 0x20, 0x40, 0x80, 0xFF])))
        for off, m in picks:
            add("corrupted", f"src{si}@{off}^{m}", data[:off] + bytes([data[off] ^ m]) + data[off + 1:], ck, code, forked=True)

    direct = [c for c in cases if not c[3]]
    forked = [c for c in cases if c[3]]
    measured = {}
    for c in direct:
        measured[id(c)] = u.evaluate(c[2])
    fres = forked_map(u.evaluate, [c[2] for c in forked])
    for c, r in zip(forked, fres):
        measured[id(c)] = r
    live = [c for c in cases if "crash" not in measured[id(c)]]
    stats["unit_decoder_crash_or_hang"] = len(cases) - len(live)
    reqs = [[Atom("bc-load"), Atom(c[0]), list(u.magic), measured[id(c)]["head"], 1, enc_outcome(measured[id(c)]["po"]),
             enc_outcome(measured[id(c)]["mo"]), 1] for c in live]
    reps = core.driver_batch(reqs)
    vreqs = []
    for c, rep in zip(live, reps):
        real = measured[id(c)]["real"]
        outcome = {"miss": 0, "raises": 3}.get(real[0], None)
        if outcome is None:
            outcome = 1 if real[1] == 1 else 2
        vreqs.append([Atom("bc-verdict"), Atom(c[0]), outcome, bool(canon(rep[1])[2])])
    vreps = core.driver_batch(vreqs)
    dist = {}
    contract_breaks = {}
    for c, rep, vrep in zip(live, reps, vreps):
        kind, desc, d, _ = c
        m = measured[id(c)]
        model, _mverdict, in_contract = canon(rep[1])
        real = m["real"]
        verdict = str(vrep[1])
        site = "pickle" if m["po"][0] == "raise" else "marshal" if m["mo"][0] == "raise" else "none"
        dist[(kind, real[0], verdict)] = dist.get((kind, real[0], verdict), 0) + 1
        if not in_contract:
            cls = (m["po"] if m["po"][0] == "raise" else m["mo"])[1]
            contract_breaks[(kind, site, cls)] = contract_breaks.get((kind, site, cls), 0) + 1
        replay = {"layer": "unit", "kind": kind, "case": desc, "bytes": d["bytes"], "ck": d["ck"], "stored": d["stored"]}
        if model != real:
            res.violate(f"C27:unit:model-mismatch:{kind}",
                        f"Bucket.load_bytecode on a {kind} entry ({desc}): real outcome {real}, model (handlers read from source, "
                        f"decoders answering {m['po']}/{m['mo']}) says {model}", replay, no_input=(verdict != "violated"))
        if verdict == "violated":
            if real[0] == "raises":
                fam = {"truncated": "truncated-entry", "corrupted": "corrupt-entry"}.get(kind, kind + "-entry")
                key = f"C27:{fam}:{site}-unguarded"
                what = (f"Bucket.load_bytecode raises {real[1]} on a {kind} cache entry ({desc}, {len(d['bytes']) // 2} bytes): "
                        f"{site}.load at bccache.py is not under a handler catching it; expected a cache miss")
            else:
                key = f"C27:unit:{kind}:{real[0]}"
                what = f"Bucket.load_bytecode on a {kind} entry ({desc}) gives {real}; the property requires " + \
                       ("a hit with the stored code" if kind == "intact" else "a miss")
            res.violate(key, what, replay)
    stats["unit_cases"] = len(cases)
    stats["unit_distribution"] = {f"{k[0]}/{k[1]}/{k[2]}": v for k, v in sorted(dist.items())}
    stats["unit_decoder_outside_contract"] = {f"{k[0]}/{k[1]}/{k[2]}": v for k, v in sorted(contract_breaks.items())}
    for (kind, site, cls), n in contract_breaks.items():
        if kind != "corrupted":
            res.notes.append(f"decoder contract broken on a {kind} entry: {site}.load raised {cls} ({n}x)")
            res.violate(f"C27:decoder-contract:{kind}:{site}:{cls}",
                        f"{site}.load raised {cls} on a {kind} entry: outside the exception set the theorems assume", {"kind": kind},
                        no_input=True)
    return {(c[0], c[1]) for c in cases}


# ------------------------------------------------------------------------------------------------------------------
# (b) the write path
# ------------------------------------------------------------------------------------------------------------------

class Stop(BaseException):
    pass


class FileProxy:
    """stands between dump_bytecode and the temporary file: counts writes, flushes each, stops where told"""

    def __init__(self, real, plan):
        self._real, self._plan = real, plan
        self.name = real.name
        self.writes = []

    def write(self, data):
        k = len(self.writes)
        self._plan("write", k, self)
        n = self._real.write(data)
        self._real.flush()
        self.writes.append(bytes(data))
        self._plan("written", k + 1, self)
        return n

    def __enter__(self):
        self._real.__enter__()
        return self

    def __exit__(self, *a):
        self._plan("close", len(self.writes), self)
        return self._real.__exit__(*a)

    def close(self):
        return self._real.close()

    def flush(self):
        return self._real.flush()


class WritePath:
    """FileSystemBytecodeCache.dump_bytecode with instrumented tempfile / file / os.replace"""

    def __init__(self, jinja2, root):
        self.j, self.bc = jinja2, jinja2.bccache
        self.root = root
        self.env = jinja2.Environment()

    def fresh_dir(self, prior):
        d = tempfile.mkdtemp(dir=self.root)
        cache = self.bc.FileSystemBytecodeCache(d)
        with open(os.path.join(d, "other.txt"), "wb") as f:
            f.write(b"unrelated")
        old = None
        if prior == "old":
            b = self.bucket(cache, SOURCES[0].format(v=0))
            cache.dump_bytecode(b)
            old = open(cache._get_cache_filename(b), "rb").read()
        return d, cache, old

    def bucket(self, cache, src):
        b = self.bc.Bucket(self.env, cache.get_cache_key(NAME, None), cache.get_source_checksum(src))
        b.code = self.env.compile(src, NAME, None)
        return b

    def dump(self, cache, bucket, plan):
        """run dump_bytecode with `plan(event, k, proxy)` called at create / write k / written k / close / replace"""
        mod = self.bc
        real_ntf, real_replace = mod.tempfile.NamedTemporaryFile, mod.os.replace
        proxies = []

        class T:
            @staticmethod
            def NamedTemporaryFile(*a, **kw):
                plan("create", 0, None)
                p = FileProxy(real_ntf(*a, **kw), plan)
                proxies.append(p)
                plan("created", 0, p)
                return p

            def __getattr__(self, n):
                return getattr(tempfile, n)

        class O:
            @staticmethod
            def replace(a, b):
                plan("replace", 0, proxies[-1] if proxies else None)
                r = real_replace(a, b)
                plan("replaced", 0, proxies[-1] if proxies else None)
                return r

            def __getattr__(self, n):
                return getattr(os, n)

        def opener(file, mode="r", *a, **kw):
            # a write path that opens the entry (or anything else) directly: same instrumentation
            if "w" not in mode and "a" not in mode and "x" not in mode:
                return open(file, mode, *a, **kw)
            plan("create", 0, None)
            p = FileProxy(open(file, mode, *a, **kw), plan)
            proxies.append(p)
            plan("created", 0, p)
            return p

        mod.tempfile, mod.os, mod.open = T(), O(), opener
        try:
            exc = None
            try:
                cache.dump_bytecode(bucket)
            except BaseException as e:  # noqa
                exc = e
            return exc, proxies
        finally:
            mod.tempfile, mod.os = tempfile, os
            del mod.open

    def snapshot(self, d, cache, bucket):
        entry = os.path.basename(cache._get_cache_filename(bucket))
        snap = {}
        for fn in sorted(os.listdir(d)):
            with open(os.path.join(d, fn), "rb") as f:
                snap[fn] = f.read()
        return entry, snap


def abstract_dir(snap, entry, old, new, chunks):
    """real directory -> the model's: entry 'e', temporaries 'T', contents as chunk ids (old = [1], chunk j = [2+j])"""
    out = {}
    for fn, content in snap.items():
        if fn == "other.txt":
            out["other.txt"] = [9] if content == b"unrelated" else [0]
        elif fn == entry:
            out["e"] = [1] if (old is not None and content == old) else \
                [2 + j for j in range(len(chunks))] if content == new else ["partial", len(content)]
        elif fn.startswith(entry):
            acc, ids = b"", []
            for j, c in enumerate(chunks):
                if content.startswith(acc + c):
                    acc += c
                    ids.append(2 + j)
            out["T:" + fn] = ids if acc == content else ["partial", len(content)]
        else:
            out["?:" + fn] = ["unknown"]
    return out


def model_dir(rep, tmpname):
    return {("T" if n == tmpname else n): list(b) for n, b in canon(rep)}


def run_write_path(ctx, res, jinja2, root, stats):
    wp = WritePath(jinja2, root)
    src_new = SOURCES[0].format(v=1)
    # dry run: how many write calls reach the file, and the new entry's bytes
    d, cache, _ = wp.fresh_dir("absent")
    b = wp.bucket(cache, src_new)
    exc, proxies = wp.dump(cache, b, lambda *a: None)
    if exc is not None or len(proxies) != 1:
        res.violate("C27:write-path:plain-dump", f"dump_bytecode failed without any fault: {exc!r}", {}, no_input=True)
        return set()
    chunks = proxies[0].writes
    new = b"".join(chunks)
    entry, snap = wp.snapshot(d, cache, b)
    if snap.get(entry) != new:
        res.violate("C27:write-path:plain-dump", "the entry after dump_bytecode is not what write_bytecode wrote", {}, no_input=True)
        return set()
    n = len(chunks)
    achunks = [[2 + j] for j in range(n)]
    seen = set()
    # points at which the child dies: after k operations of [create, write*n, close, replace]
    points = [("create", 0)] + [("write", j) for j in range(n)] + [("close", n), ("replace", 0), ("end", 0)]

    def render_ok(d, what, replay):
        env = jinja2.Environment(loader=jinja2.DictLoader({NAME: src_new}), bytecode_cache=jinja2.FileSystemBytecodeCache(d),
                                 cache_size=0)
        try:
            out = env.get_template(NAME).render(x="<", items=[1])
        except BaseException as e:  # noqa
            res.violate("C27:write-path:render-after:" + type(e).__name__,
                        f"after {what} a fresh Environment's get_template raises {type(e).__name__}: {e}", replay)
            return
        want = jinja2.Environment().from_string(src_new).render(x="<", items=[1])
        if out != want:
            res.violate("C27:write-path:render-after:stale", f"after {what} a fresh Environment renders {out!r}, not {want!r}", replay)

    total = 0

    def prior_dir(prior):
        return [["other.txt", [9]]] + ([["e", [1]]] if prior == "old" else [])
    crash_reps = iter(core.driver_batch([[Atom("bc-crash"), k, "e", "R", prior_dir(prior), achunks]
                                         for prior in ("absent", "old") for k in range(len(points))]))
    for prior in ("absent", "old"):
        for k, (ev, arg) in enumerate(points):
            d, cache, old = wp.fresh_dir(prior)
            b = wp.bucket(cache, src_new)
            pid = os.fork()
            if pid == 0:
                try:
                    def plan(event, i, proxy, ev=ev, arg=arg):
                        if event == ev and (ev != "write" or i == arg):
                            os._exit(0)
                    wp.dump(cache, b, plan)
                finally:
                    os._exit(0)
            os.waitpid(pid, 0)
            entry, snap = wp.snapshot(d, cache, b)
            got = abstract_dir(snap, entry, old, new, chunks)
            tmps = [fn for fn in got if fn.startswith("T:")]
            rep = next(crash_reps)
            want = model_dir(rep[1][0], str(rep[1][1]))
            nops = rep[1][2]
            got_c = {("T" if fn.startswith("T:") else fn): v for fn, v in got.items()}
            total += 1
            seen.add(("crash", prior, k))
            replay = {"layer": "write-path", "mode": "crash", "prior": prior, "after_operations": k, "point": [ev, arg]}
            if nops + 1 != len(points):
                res.violate("C27:write-path:steps", f"the model's operation list has {nops} operations, the real write path "
                            f"{len(points) - 1} (create, {n} writes, close, replace)", replay, no_input=True)
            e_state = got_c.get("e")
            if isinstance(e_state, list) and e_state and e_state[0] == "partial":
                res.violate("C27:write-path:crash:partial-entry",
                            f"process death after {k} operations of dump_bytecode ({ev}) leaves {e_state[1]} bytes of a partial entry "
                            f"under the entry's name (prior state: {prior})", replay)
            elif got_c != want or len(tmps) > 1:
                bad = e_state not in (None, [1], [2 + j for j in range(n)])
                res.violate("C27:write-path:crash:model-mismatch",
                            f"process death after {k} operations of dump_bytecode ({ev}), prior {prior}: directory {got_c}, model {want}",
                            replay, no_input=not bad)
            import fnmatch
            for fn in tmps:
                if fnmatch.fnmatch(fn[2:], cache.pattern % ("*",)) or not fnmatch.fnmatch(entry, cache.pattern % ("*",)):
                    res.violate("C27:write-path:tmp-matches-clear-pattern",
                                f"leftover temporary {fn[2:]} matches clear()'s pattern {cache.pattern % ('*',)} (theorem "
                                "leftover_tmp_not_matched_by_clear says it does not)", replay, no_input=True)
                stats["leftover_temporaries_seen"] = stats.get("leftover_temporaries_seen", 0) + 1
            if any(fn[2:] == entry for fn in tmps):
                res.violate("C27:write-path:tmp-name", "the temporary file has the entry's own name", replay)
            render_ok(d, f"a crash after {k} write-path operations (prior entry: {prior})", replay)
            shutil.rmtree(d, ignore_errors=True)
    # injected exceptions
    faults = []
    for cls in (OSError, KeyboardInterrupt):
        faults += [("create", 0, cls)] + [("write", j, cls) for j in range(n)] + [("close", n, cls), ("replace", 0, cls)]
    def enc_fault(ev, arg, cls):
        m = [k.__name__ for k in cls.__mro__ if k is not object]
        return {"create": [Atom("create")] + m, "write": [Atom("write"), arg] + m, "close": [Atom("write"), n] + m,
                "replace": [Atom("replace")] + m}[ev]
    fault_reps = iter(core.driver_batch([[Atom("bc-fault"), enc_fault(*f), "e", "R", prior_dir(prior), achunks]
                                         for prior in ("absent", "old") for f in faults]))
    for prior in ("absent", "old"):
        for ev, arg, cls in faults:
            d, cache, old = wp.fresh_dir(prior)
            b = wp.bucket(cache, src_new)

            def plan(event, i, proxy, ev=ev, arg=arg, cls=cls):
                if event == ev and (ev != "write" or i == arg):
                    raise cls(errno.ENOSPC, "injected") if cls is OSError else cls()
            exc, _ = wp.dump(cache, b, plan)
            entry, snap = wp.snapshot(d, cache, b)
            got = abstract_dir(snap, entry, old, new, chunks)
            got_c = {("T" if fn.startswith("T:") else fn): v for fn, v in got.items()}
            rep = next(fault_reps)
            want = model_dir(rep[1][0], str(rep[1][1]))
            wexc = canon(rep[1][2])
            gexc = ["none"] if exc is None else ["raise"] + mro(exc)
            total += 1
            seen.add(("fault", prior, ev, arg, cls.__name__))
            replay = {"layer": "write-path", "mode": "exception", "prior": prior, "at": [ev, arg], "exception": cls.__name__}
            e_state = got_c.get("e")
            if isinstance(e_state, list) and e_state and e_state[0] == "partial":
                res.violate("C27:write-path:exception:partial-entry",
                            f"{cls.__name__} at {ev} {arg} leaves a partial entry under the entry's name", replay)
            elif got_c != want or gexc != wexc:
                res.violate("C27:write-path:exception:model-mismatch",
                            f"{cls.__name__} at {ev} {arg}, prior {prior}: directory {got_c} / leaves with {gexc}; model {want} / {wexc}",
                            replay, no_input=True)
            render_ok(d, f"{cls.__name__} injected at {ev} {arg} (prior entry: {prior})", replay)
            shutil.rmtree(d, ignore_errors=True)
    stats["write_path_cases"] = total
    stats["write_path_write_calls"] = n
    return seen


# ------------------------------------------------------------------------------------------------------------------
# (b2) failing file operations while a template is loaded (get_template end to end), and real obstacles
# ------------------------------------------------------------------------------------------------------------------

def fs_exceptions():
    """every OSError class / errno a file operation of the cache can meet, plus one exception that is not the cache's"""
    E = errno
    mk = [("FileNotFoundError", lambda: FileNotFoundError(E.ENOENT, "injected")),
          ("PermissionError", lambda: PermissionError(E.EACCES, "injected")),
          ("IsADirectoryError", lambda: IsADirectoryError(E.EISDIR, "injected")),
          ("NotADirectoryError", lambda: NotADirectoryError(E.ENOTDIR, "injected")),
          ("FileExistsError", lambda: FileExistsError(E.EEXIST, "injected")),
          ("BlockingIOError", lambda: BlockingIOError(E.EAGAIN, "injected")),
          ("TimeoutError", lambda: TimeoutError(E.ETIMEDOUT, "injected"))]
    for name in ("EXDEV", "EIO", "ENOSPC", "EROFS", "ENAMETOOLONG", "EINTR", "EBUSY", "ENOTEMPTY"):
        mk.append((f"OSError[{name}]", lambda n=name: OSError(getattr(E, n), "injected")))
    mk.append(("KeyboardInterrupt", lambda: KeyboardInterrupt()))
    return mk


class ReadProxy:
    def __init__(self, real, plan):
        self._r, self._plan = real, plan

    def read(self, *a):
        self._plan("load-read", 0)
        return self._r.read(*a)

    def readline(self, *a):
        self._plan("load-read", 0)
        return self._r.readline(*a)

    def __enter__(self):
        return self

    def __exit__(self, *a):
        return self._r.__exit__(*a)


class Instrumented:
    """substitutes, inside the bccache module only, tempfile / os / open by versions that call plan(event, k) first:
    load-open, load-read, create, write k, close, replace, remove, listdir"""

    def __init__(self, mod, plan):
        self.mod, self.plan = mod, plan

    def __enter__(self):
        plan = self.plan
        real_ntf = tempfile.NamedTemporaryFile

        def fplan(event, k, proxy):
            if event in ("write", "close"):
                plan(event, k)

        class T:
            @staticmethod
            def NamedTemporaryFile(*a, **kw):
                plan("create", 0)
                return FileProxy(real_ntf(*a, **kw), fplan)

            def __getattr__(self, n):
                return getattr(tempfile, n)

        class O:
            @staticmethod
            def replace(a, b):
                plan("replace", 0)
                return os.replace(a, b)

            @staticmethod
            def remove(a):
                plan("remove", 0)
                return os.remove(a)

            @staticmethod
            def listdir(a):
                plan("listdir", 0)
                return os.listdir(a)

            def __getattr__(self, n):
                return getattr(os, n)

        def opener(file, mode="r", *a, **kw):
            if "w" in mode or "a" in mode or "x" in mode:
                plan("create", 0)
                return FileProxy(open(file, mode, *a, **kw), fplan)
            plan("load-open", 0)
            return ReadProxy(open(file, mode, *a, **kw), plan)

        self.mod.tempfile, self.mod.os, self.mod.open = T(), O(), opener
        return self

    def __exit__(self, *a):
        self.mod.tempfile, self.mod.os = tempfile, os
        del self.mod.open


def site_of(exc, bc_file):
    """which cache file operation an exception that left get_template came from (from the traceback)"""
    import linecache
    import traceback
    site = "?"
    for fr, ln in traceback.walk_tb(exc.__traceback__):
        if fr.f_code.co_filename != bc_file:
            continue
        line = linecache.getline(bc_file, ln)
        fn = fr.f_code.co_name
        if fn == "load_bytecode":
            site = "load-open" if "open(" in line else "load-read"
        elif fn == "dump_bytecode":
            site = "tmp-create" if "NamedTemporaryFile" in line or site == "?" and "tempfile" in line else \
                "replace" if "replace" in line else "remove" if "remove" in line else "write"
        elif fn == "remove_silent":
            site = "remove"
    return site


OBSTACLE_FAULTS = {
    # obstacle -> the OSErrors the operating system answers with, in the order the cache meets them
    "directory-at-entry-path": [("load-open", "IsADirectoryError"), ("replace", "IsADirectoryError")],
    "dangling-symlink-at-entry-path": [("load-open", "FileNotFoundError")],
    "symlink-loop-at-entry-path": [("load-open", "OSError")],
    "cache-directory-missing": [("load-open", "FileNotFoundError"), ("create", "FileNotFoundError")],
    "cache-directory-is-a-file": [("load-open", "NotADirectoryError")],
    "read-only-cache-directory": [("load-open", "FileNotFoundError"), ("create", "PermissionError")],
    "unreadable-entry": [("load-open", "PermissionError")],
}


def run_fs_obstacles(ctx, res, jinja2, root, stats, ref, src_old, src_new, seen):
    import builtins
    bc = jinja2.bccache
    # real obstacles, public API only
    is_root = hasattr(os, "geteuid") and os.geteuid() == 0
    obstacles = ["directory-at-entry-path", "dangling-symlink-at-entry-path", "symlink-loop-at-entry-path",
                 "cache-directory-missing", "cache-directory-is-a-file", "read-only-cache-directory", "unreadable-entry"]
    ob_out = {}
    for ob in obstacles:
        d = tempfile.mkdtemp(dir=root)
        try:
            cdir = d
            probe = jinja2.FileSystemBytecodeCache(d)
            entry = os.path.join(d, probe.pattern % (probe.get_cache_key(NAME, None),))
            undo = None
            if ob == "directory-at-entry-path":
                os.mkdir(entry)
            elif ob == "dangling-symlink-at-entry-path":
                os.symlink(os.path.join(d, "nowhere"), entry)
            elif ob == "symlink-loop-at-entry-path":
                os.symlink(entry, entry)
            elif ob == "cache-directory-missing":
                cdir = os.path.join(d, "gone")
            elif ob == "cache-directory-is-a-file":
                cdir = os.path.join(d, "file")
                open(cdir, "w").close()
            elif ob in ("read-only-cache-directory", "unreadable-entry"):
                if is_root:
                    ob_out[ob] = "skipped: running as root, permissions are not enforced"
                    continue
                if ob == "unreadable-entry":
                    open(entry, "wb").close()
                    os.chmod(entry, 0)
                else:
                    os.chmod(d, 0o555)
                    undo = lambda d=d: os.chmod(d, 0o755)
            mapping = {NAME: src_old}

            def mkenv():
                return jinja2.Environment(loader=jinja2.DictLoader(mapping), bytecode_cache=jinja2.FileSystemBytecodeCache(cdir),
                                          cache_size=0)
            results = []
            try:
                for step, src in (("first load", src_old), ("load after the source changed", src_new), ("load in a fresh environment", src_new)):
                    mapping[NAME] = src
                    try:
                        out = mkenv().get_template(NAME).render(x="<", items=[1])
                        results.append((step, None, None, out == ref(src)))
                    except BaseException as e:  # noqa
                        results.append((step, type(e).__name__, site_of(e, bc.__file__), False))
            finally:
                if undo:
                    undo()
            seen.add(("obstacle", ob))
            # the transcription's answer: the first of the file-system errors this obstacle produces that the handlers read
            # from the source let through
            expect = None
            for site, cls in OBSTACLE_FAULTS[ob]:
                m = [k.__name__ for k in getattr(builtins, cls).__mro__ if k is not object]
                if site == "load-open":
                    prop = canon(core.driver_batch([[Atom("bc-open-fault")] + m])[0][1])[0] == "raises"
                else:
                    f = {"create": [Atom("create")] + m, "replace": [Atom("replace")] + m}[site]
                    prop = canon(core.driver_batch([[Atom("bc-fault"), f, "e", "R", [], [[2]]]])[0][1][2])[0] == "raise"
                if prop:
                    expect = (cls, {"create": "tmp-create"}.get(site, site))
                    break
            got = [(r[1], r[2]) if r[1] else ("renders" if r[3] else "renders something else") for r in results]
            want = [expect if expect else "renders"] * len(results)
            ob_out[ob] = {"real": [list(g) if isinstance(g, tuple) else g for g in got],
                          "model": list(expect) if expect else "miss, renders the current source"}
            if got != want:
                stats.setdefault("fs_fault_drift", []).append({"obstacle": ob, "real": ob_out[ob]["real"], "model": ob_out[ob]["model"]})
                res.violate(f"C27:fs-fault:model-drift:obstacle:{ob}",
                            f"with a {ob.replace('-', ' ')} (public API only) get_template gives {ob_out[ob]['real']}; the model over the "
                            f"handlers read from bccache.py says: {ob_out[ob]['model']}",
                            {"layer": "fs-obstacle", "obstacle": ob}, no_input=True)
            # the property: once the obstacle is gone, the next load renders the current source
            try:
                if ob in ("directory-at-entry-path",):
                    os.rmdir(entry)
                elif ob.endswith("symlink-at-entry-path") or ob == "symlink-loop-at-entry-path" or ob == "unreadable-entry":
                    os.unlink(entry)
                elif ob == "cache-directory-missing":
                    os.mkdir(cdir)
                elif ob == "cache-directory-is-a-file":
                    os.unlink(cdir)
                    os.mkdir(cdir)
                later = mkenv().get_template(NAME).render(x="<", items=[1])
                again = mkenv().get_template(NAME).render(x="<", items=[1])
                ok = later == ref(src_new) and again == ref(src_new)
                why = f"renders {later!r} / {again!r}"
            except BaseException as e:  # noqa
                ok, why = False, f"raises {type(e).__name__}"
            if not ok:
                res.violate(f"C27:fs-fault:later-load:obstacle:{ob}",
                            f"after the {ob.replace('-', ' ')} was removed, get_template {why}; expected {ref(src_new)!r}",
                            {"layer": "fs-obstacle", "obstacle": ob})
        finally:
            shutil.rmtree(d, ignore_errors=True)
    stats["fs_obstacles"] = ob_out


def run_fs_faults(ctx, res, jinja2, root, stats):
    bc = jinja2.bccache
    reference = {}

    def ref(src):
        if src not in reference:
            reference[src] = jinja2.Environment().from_string(src).render(x="<", items=[1])
        return reference[src]

    src_old, src_new = SOURCES[0].format(v=0), SOURCES[0].format(v=1)
    seen = set()
    run_fs_obstacles(ctx, res, jinja2, root, stats, ref, src_old, src_new, seen)     # first: a public-API replay is the better one
    excs = fs_exceptions()
    n_writes = stats.get("write_path_write_calls", 3)
    sites = [("load-open", 0), ("load-read", 0), ("create", 0)] + [("write", k) for k in range(n_writes)] + \
            [("close", 0), ("replace", 0), ("remove", 0)]
    site_name = {"create": "tmp-create"}
    cases = []
    for prior in ("absent", "old"):
        for site, arg in sites:
            for label, make in excs:
                cases.append((prior, site, arg, label, make))
    # what the model (handlers read from the source) says leaves get_template
    reqs = []
    for prior, site, arg, label, make in cases:
        m = mro(make())
        if site == "load-open":
            reqs.append([Atom("bc-open-fault")] + m)
        elif site in ("create", "write", "close", "replace"):
            f = {"create": [Atom("create")] + m, "write": [Atom("write"), arg] + m, "close": [Atom("write"), n_writes] + m,
                 "replace": [Atom("replace")] + m}[site]
            reqs.append([Atom("bc-fault"), f, "e", "R", [], [[2 + j] for j in range(n_writes)]])
        elif site == "remove":      # reached through a rename that fails with OSError(EXDEV)
            reqs.append([Atom("bc-fault"), [Atom("replace")] + mro(OSError(errno.EXDEV, "x")), "e", "R", [], [[2 + j] for j in range(n_writes)]])
        else:
            reqs.append([Atom("ping"), 1])
    reps = core.driver_batch(reqs)
    observed = []
    for (prior, site, arg, label, make), rep in zip(cases, reps):
        d = tempfile.mkdtemp(dir=root)
        try:
            cache = jinja2.FileSystemBytecodeCache(d)
            mapping = {NAME: src_old}

            def mkenv():
                return jinja2.Environment(loader=jinja2.DictLoader(mapping), bytecode_cache=jinja2.FileSystemBytecodeCache(d),
                                          cache_size=0)
            if prior == "old":
                mkenv().get_template(NAME)
            mapping[NAME] = src_new
            fired = []

            def plan(ev, k, site=site, arg=arg, make=make):
                if site == "remove":
                    if ev == "replace" and not fired:
                        fired.append("replace")
                        raise OSError(errno.EXDEV, "injected")
                    if ev == "remove" and fired == ["replace"]:
                        fired.append("remove")
                        raise make()
                elif ev == site and (site != "write" or k == arg) and not fired:
                    fired.append(ev)
                    raise make()
            raised, out = None, None
            with Instrumented(bc, plan):
                try:
                    out = mkenv().get_template(NAME).render(x="<", items=[1])
                except BaseException as e:  # noqa
                    raised = mro(e)
            reached = bool(fired) and (site != "remove" or fired == ["replace", "remove"])
            # afterwards, without faults: a fresh environment must serve the current source, no temporary may stay
            after_raised, after_out = None, None
            try:
                after_out = mkenv().get_template(NAME).render(x="<", items=[1])
            except BaseException as e:  # noqa
                after_raised = mro(e)
            leftovers = [fn for fn in os.listdir(d) if fn.endswith(".tmp")]
            observed.append((prior, site, arg, label, mro(make()), rep, reached, raised, out, after_raised, after_out, leftovers))
        finally:
            shutil.rmtree(d, ignore_errors=True)
    judged = [o for o in observed if o[6]]
    dist = {}
    drift = stats.setdefault("fs_fault_drift", [])
    for o in judged:
        prior, site, arg, label, m, rep, _, raised, out, after_raised, after_out, leftovers = o
        sname = site_name.get(site, site)
        seen.add((prior, site, arg, label))
        # what the transcription (Lean model over the handler table read from bccache.py) says happens today at this site
        model_tmp_left = False
        if site == "load-open":
            model_prop = canon(rep[1])[0] == "raises"
        elif site in ("create", "write", "close", "replace"):
            model_prop = canon(rep[1][2])[0] == "raise"
            model_tmp_left = any(n == str(rep[1][1]) for n, _b in canon(rep[1][0]))
        elif site == "load-read":
            model_prop = True                       # no handler around f.read / the decoders' reads catches an OSError
        else:
            # remove_silent: except OSError: pass (shape checked by the translator); the failed rename that led here
            # propagates or not as the model says
            model_prop = "OSError" not in m or canon(rep[1][2])[0] == "raise"
            model_tmp_left = True                   # the removal itself failed
        stats.setdefault("_fs_real", {})[(sname, m[0])] = raised[0] if raised else "miss"
        k = f"{sname}/{'propagates' if raised else 'miss'}"
        dist[k] = dist.get(k, 0) + 1
        replay = {"layer": "fs-fault", "prior": prior, "site": site, "arg": arg, "exception": label}
        # (i) transcription: real behaviour at the faulty load = the model's; a difference is drift, not a property violation
        if (raised is not None) != model_prop or (raised is None and out != ref(src_new)):
            drift.append({"site": sname, "exception": label, "prior": prior, "real": raised[0] if raised else f"renders {out!r}",
                          "model": "propagates" if model_prop else "miss, renders the current source"})
            res.violate(f"C27:fs-fault:model-drift:{sname}",
                        f"{label} at the cache's {sname} (entry {prior}): get_template {'raises ' + raised[0] if raised else 'returns, rendering ' + repr(out)}; "
                        f"the model over the handlers read from bccache.py says it {'propagates' if model_prop else 'is a miss'}", replay,
                        no_input=True)
        # (ii) the property: whatever the fault did, the NEXT fault-free load sees a miss or the current entry
        if after_raised is not None or after_out != ref(src_new):
            res.violate(f"C27:fs-fault:later-load:{sname}",
                        f"after {label} at the cache's {sname} (prior entry {prior}) a later, fault-free get_template "
                        f"{'raises ' + after_raised[0] if after_raised else 'renders ' + repr(after_out)}; expected {ref(src_new)!r}", replay)
        if bool(leftovers) and not model_tmp_left:
            res.violate(f"C27:fs-fault:leftover-tmp:{sname}",
                        f"{label} at the cache's {sname} leaves {leftovers} in the cache directory; the model removes the temporary", replay)
    stats["fs_fault_cases"] = len(cases)
    stats["fs_fault_reached"] = len(judged)
    stats["fs_fault_outcomes"] = dict(sorted(dist.items()))

    # clear(): removal errors are swallowed, a later load is correct
    clear_cases = 0
    for label, make in excs:
        d = tempfile.mkdtemp(dir=root)
        try:
            mapping = {NAME: src_new}
            env = jinja2.Environment(loader=jinja2.DictLoader(mapping), bytecode_cache=jinja2.FileSystemBytecodeCache(d), cache_size=0)
            env.get_template(NAME)
            real_remove = os.remove
            hit = []

            def bad_remove(path, make=make):
                hit.append(path)
                raise make()
            os.remove = bad_remove
            try:
                exc = None
                try:
                    env.bytecode_cache.clear()
                except BaseException as e:  # noqa
                    exc = e
            finally:
                os.remove = real_remove
            clear_cases += 1
            seen.add(("clear-remove", label))
            is_os = isinstance(make(), OSError)
            if hit and (exc is not None) == is_os:
                res.violate("C27:fs-fault:model-drift:clear-remove",
                            f"FileSystemBytecodeCache.clear() {'raises' if exc else 'swallows'} {label} from os.remove", {"layer": "fs-fault",
                            "site": "clear-remove", "exception": label}, no_input=True)
            try:
                ok = env.get_template(NAME).render(x="<", items=[1]) == ref(src_new)
            except BaseException:  # noqa
                ok = False
            if not ok:
                res.violate("C27:fs-fault:later-load:clear-remove", f"after clear() met {label} a load no longer renders the current source",
                            {"layer": "fs-fault", "site": "clear-remove", "exception": label})
        finally:
            shutil.rmtree(d, ignore_errors=True)
    stats["fs_fault_clear_cases"] = clear_cases

    return seen


# ------------------------------------------------------------------------------------------------------------------
# (b3) an entry written by another interpreter version, produced the way that interpreter would produce it
# ------------------------------------------------------------------------------------------------------------------

FOREIGN_CHILD = r"""
import importlib, json, sys
sys.dont_write_bytecode = True
src_path, cache_dir, name, current_src, marker_src, versions = json.loads(sys.argv[1])
sys.path.insert(0, src_path)
import jinja2, jinja2.bccache
real_vi = sys.version_info

class VI(tuple):
    major = property(lambda s: s[0]); minor = property(lambda s: s[1]); micro = property(lambda s: s[2])
    releaselevel = property(lambda s: s[3]); serial = property(lambda s: s[4])

out = {}
for label, ver in versions:
    import os
    d = os.path.join(cache_dir, label)
    os.mkdir(d)
    if ver is not None:
        sys.version_info = VI((ver[0], ver[1], 0, "final", 0))
    try:
        bc = importlib.reload(jinja2.bccache)      # the real module computes its own bc_magic as that interpreter would
    finally:
        sys.version_info = real_vi
    env = jinja2.Environment()
    cache = bc.FileSystemBytecodeCache(d)
    bucket = bc.Bucket(env, cache.get_cache_key(name, None), cache.get_source_checksum(current_src))
    bucket.code = env.compile(marker_src, name, None)        # other code under the right key and checksum
    cache.dump_bytecode(bucket)
    out[label] = bc.bc_magic.hex()
print(json.dumps(out))
"""


def run_foreign_interpreter(ctx, res, jinja2, root, stats):
    import subprocess
    import sys
    bc = jinja2.bccache
    cur = tuple(sys.version_info[:2])
    current_src, marker_src = "CURRENT {{ x }}", "MARKER-FROM-FOREIGN-ENTRY {{ x }}"
    versions = [["same-interpreter", None]] + [[f"py{a}.{b}", [a, b]] for a, b in
                                               [(3, cur[1] - 1), (3, cur[1] + 1), (3, 9), (3, 14), (2, 7), (4, 0)] if (a, b) != cur]
    base = tempfile.mkdtemp(dir=root)
    arg = json.dumps([str(core.REPO / "src"), base, NAME, current_src, marker_src, versions])
    p = subprocess.run([sys.executable, "-B", "-c", FOREIGN_CHILD, arg], capture_output=True, text=True, timeout=600)
    if p.returncode != 0:
        raise core.HarnessError("foreign-interpreter child failed: " + p.stderr[-1500:])
    magics = json.loads(p.stdout.strip().split("\n")[-1])
    want = jinja2.Environment().from_string(current_src).render(x="<")
    marker = jinja2.Environment().from_string(marker_src).render(x="<")
    seen, outcome = set(), {}
    cases = []
    for label, ver in versions:
        d = os.path.join(base, label)
        files = os.listdir(d)
        data = open(os.path.join(d, files[0]), "rb").read() if len(files) == 1 else b""
        ck = bc.BytecodeCache().get_source_checksum(current_src)
        bk = bc.Bucket(jinja2.Environment(), "k", ck)
        try:
            bk.load_bytecode(io.BytesIO(data))
            unit = 0 if bk.code is None else 2
        except BaseException:  # noqa
            unit = 3
        env = jinja2.Environment(loader=jinja2.DictLoader({NAME: current_src}), bytecode_cache=jinja2.FileSystemBytecodeCache(d),
                                 cache_size=0)
        try:
            out = env.get_template(NAME).render(x="<")
        except BaseException as e:  # noqa
            out = "raised " + type(e).__name__
        cases.append((label, ver, magics.get(label), unit, out))
    vreps = core.driver_batch([[Atom("bc-verdict"), Atom("foreign-magic"), c[3], True] for c in cases if c[1] is not None])
    vi = iter(vreps)
    for label, ver, magic, unit, out in cases:
        seen.add(("foreign-interpreter", label))
        outcome[label] = {"bc_magic": magic, "load_bytecode": ["miss", None, "hit", "raises"][unit], "get_template": out}
        replay = {"layer": "foreign-interpreter", "version": ver, "bc_magic_of_that_interpreter": magic, "own_bc_magic": bc.bc_magic.hex()}
        if ver is None:
            # control: the forged entry is a real, loadable entry (otherwise the probe below would be vacuous)
            if out != marker:
                res.violate("C27:foreign-interpreter:control",
                            f"an entry written by the child under the SAME interpreter version is not used (get_template renders {out!r}): "
                            "the probe cannot tell a foreign entry from a useless one", replay, no_input=True)
            continue
        verdict = str(next(vi)[1])
        if verdict == "violated" or out != want:
            res.violate(f"C27:foreign-interpreter:{label}",
                        f"a cache entry written by CPython {ver[0]}.{ver[1]} (its own bc_magic {magic}, this interpreter's {bc.bc_magic.hex()}) "
                        f"for the same template and checksum is not treated as a miss: Bucket.load_bytecode gives "
                        f"{outcome[label]['load_bytecode']}, get_template renders {out!r} instead of {want!r} (compiled from the current source)",
                        replay)
    stats["foreign_interpreter"] = outcome
    return seen


# ------------------------------------------------------------------------------------------------------------------
# (c) histories
# ------------------------------------------------------------------------------------------------------------------

class FakeMemcache:
    def __init__(self):
        self.store = {}
        self.mode = "ok"
        self.cut = None

    def get(self, key):
        if self.mode == "getfails":
            raise ConnectionError("injected")
        v = self.store.get(key)
        if v is not None and self.mode == "truncates":
            return v[:self.cut(len(v))]
        return v

    def set(self, key, value, timeout=None):
        if self.mode == "setfails":
            raise ConnectionError("injected")
        self.store[key] = value


def offset_for(cls, length, magic_len, rng):
    """truncation classes of the small model entry [m, m, ck, code]: 0 empty, 1 inside the magic, 2 inside the pickled
    checksum (from right after the magic), 3 inside the marshalled code"""
    pk_end = magic_len + 50
    if cls == 0:
        return 0
    if cls == 1:
        return rng.randrange(1, magic_len)
    if cls == 2:
        return rng.randrange(magic_len, pk_end)
    return rng.randrange(pk_end, max(pk_end + 1, length))


SEPS = ["\x0b", "\x0c", "\x1c", "\x1d", "\x1e", "\x85", "\u2028", "\u2029"]      # str.splitlines() boundaries the lexer treats as data
EDITS = ["final-nl", "crlf", "cr"] + [f"sep:{i}" for i in range(len(SEPS))] + ["trailing-ws", "one-char", "case", "reorder"]


class Doc:
    """a template source as lines + the separators between them, so that edits can change ONLY the line-terminator
    structure (final newline, \n <-> \r\n / \r / a Unicode line boundary), or one small detail elsewhere; every edit is a
    toggle or a cycle, i.e. always changes the text"""

    def __init__(self):
        self.v = 1
        self.breaks = ["\n", "\n", "\n"]
        self.final = True
        self.flags = set()

    def text(self):
        lines = [f"V{self.v} {{{{ x }}}}", "second {{ x }}|" + (" " if "trailing-ws" in self.flags else ""),
                 "third line".swapcase() if "case" in self.flags else "third line",
                 "tail " + "a" * 300 + ("b" if "one-char" in self.flags else "a") + "a" * 300]
        if "reorder" in self.flags:
            lines[1], lines[2] = lines[2], lines[1]
        return lines[0] + self.breaks[0] + lines[1] + self.breaks[1] + lines[2] + self.breaks[2] + lines[3] + ("\n" if self.final else "")

    def edit(self, kind):
        if kind == "modify":
            self.v += 1
        elif kind == "final-nl":
            self.final = not self.final
        elif kind == "crlf":
            self.breaks[0] = "\n" if self.breaks[0] == "\r\n" else "\r\n"
        elif kind == "cr":
            self.breaks[0] = "\n" if self.breaks[0] == "\r" else "\r"
        elif kind.startswith("sep:"):
            sp = SEPS[int(kind[4:])]
            self.breaks[1] = "\n" if self.breaks[1] == sp else sp
        elif kind == "sep-cycle":
            cyc = ["\n"] + SEPS
            self.breaks[1] = cyc[(cyc.index(self.breaks[1]) + 1) % len(cyc)]
        else:
            self.flags ^= {kind}


def plan_history(ops, ignore):
    """-> (requests for the Lean model, source text in force after each operation, id -> text); a source is identified by
    its text, so an edit that restores an earlier text names the earlier version again"""
    doc = Doc()
    ids = {doc.text(): 1}
    out, texts = [], []
    for op in ops:
        if op[0] == "get":
            out.append([Atom("load"), 1, 0])
        elif op[0] == "mcget":
            cl = Atom(op[1]) if op[1] != "truncates" else [Atom("truncates"), op[2]]
            out.append([Atom("mcload"), 1, 0, ignore, cl])
        elif op[0] in ("modify", "edit"):
            doc.edit("modify" if op[0] == "modify" else op[1])
            out.append([Atom("modify"), 0, ids.setdefault(doc.text(), len(ids) + 1)])
        elif op[0] == "clear":
            out.append([Atom("clear")])
        elif op[0] == "newenv":
            out.append([Atom("newenv")])
        elif op[0] == "trunc":
            out.append([Atom("truncate"), 0, op[1]])
        texts.append(doc.text())
    return out, texts, {v: k for k, v in ids.items()}


_FRESH = {}


def fresh_render(jinja2, text, ktn):
    """what compiling the source now, without any cache, renders (the stale-code oracle's reference)"""
    k = (text, ktn)
    if k not in _FRESH:
        _FRESH[k] = jinja2.Environment(keep_trailing_newline=ktn).from_string(text).render(x="<")
    return _FRESH[k]


class World:
    def __init__(self, jinja2, backend, ignore, root, rng, ktn=True):
        self.j, self.backend, self.rng, self.ktn = jinja2, backend, rng, ktn
        self.mapping = {NAME: Doc().text()}
        self.magic_len = len(jinja2.bccache.bc_magic)
        if backend == "fs":
            self.dir = tempfile.mkdtemp(dir=root)
            self.bcc = jinja2.FileSystemBytecodeCache(self.dir)
        else:
            self.client = FakeMemcache()
            self.bcc = jinja2.MemcachedBytecodeCache(self.client, ignore_memcache_errors=ignore)
        self.newenv()

    def newenv(self):
        self.env = self.j.Environment(loader=self.j.DictLoader(self.mapping), bytecode_cache=self.bcc, cache_size=0,
                                      keep_trailing_newline=self.ktn)

    def get(self, mode="ok", cut=None):
        if self.backend == "mc":
            self.client.mode = mode
            self.client.cut = (lambda n: offset_for(cut, n, self.magic_len, self.rng)) if cut is not None else None
        try:
            return ["served", self.env.get_template(NAME).render(x="<")]
        except BaseException as e:  # noqa
            return ["raised"] + mro(e)
        finally:
            if self.backend == "mc":
                self.client.mode = "ok"

    def apply(self, op, text_after=None):
        if op[0] == "get":
            return self.get()
        if op[0] == "mcget":
            return self.get(op[1], op[2])
        if op[0] in ("modify", "edit"):
            self.mapping[NAME] = text_after
        elif op[0] == "clear":
            self.bcc.clear()
        elif op[0] == "newenv":
            self.newenv()
        elif op[0] == "trunc":
            for fn in os.listdir(self.dir):
                p = os.path.join(self.dir, fn)
                data = open(p, "rb").read()
                with open(p, "wb") as f:
                    f.write(data[:min(len(data), offset_for(op[1], len(data), self.magic_len, self.rng))])
        return ["none"]

    def close(self):
        if self.backend == "fs":
            shutil.rmtree(self.dir, ignore_errors=True)


FS_OPS = [("get",), ("modify",), ("clear",), ("newenv",), ("trunc", 1), ("trunc", 2), ("trunc", 3), ("edit", "final-nl"),
          ("edit", "sep-cycle")]
MC_OPS = [("mcget", "ok", None), ("mcget", "getfails", None), ("mcget", "setfails", None), ("mcget", "truncates", 1),
          ("mcget", "truncates", 2), ("mcget", "truncates", 3), ("modify",), ("newenv",), ("edit", "final-nl"),
          ("edit", "sep-cycle")]


def edit_sweep(get, pairs=True):
    """histories that change only one or two details of the source between loads: every edit kind alone, and every ordered
    pair of edit kinds with and without a load between them"""
    out = [[get, ("edit", k), get] for k in EDITS]
    for a in (EDITS if pairs else []):
        for b in EDITS:
            out.append([get, ("edit", a), get, ("edit", b), get])
            out.append([get, ("edit", a), ("edit", b), get])
    return out


def diff_at(a, b, width=24):
    """the two strings around their first difference"""
    i = next((k for k, (x, y) in enumerate(zip(a, b)) if x != y), min(len(a), len(b)))
    return f"at offset {i}: {a[max(0, i - width):i + width]!r} vs {b[max(0, i - width):i + width]!r} (lengths {len(a)}/{len(b)})"


def same_out(real, model):
    """exceptions: both raised, and the real exception is an instance of the model's class or (for the decoders) another
    member of the same declared set (the small codec always says EOFError, pickle also says UnpicklingError)"""
    if real[0] == "raised" and model[0] == "raised":
        return model[1] in real[1:] or (model[1] == "EOFError" and real[1] in ("EOFError", "UnpicklingError"))
    return real == model


def run_histories(ctx, res, jinja2, root, stats):
    maxlen = ctx.pick(4, 5)
    total, steps = 0, 0
    seen = set()
    dist = {}
    sweeps = 0
    for backend, alphabet, ignores in (("fs", FS_OPS, [True]), ("mc", MC_OPS, [True, False])):
        hist = []
        if ctx.quick and backend == "mc":
            alphabet = [o for o in alphabet if o[0] != "edit"]      # quick: the memcache histories take the edits from the sweep only
        mlen = maxlen if backend == "fs" else maxlen - 1
        for n in range(1, mlen + 1):
            for seq in itertools.product(alphabet, repeat=n):
                if seq[-1][0] in ("get", "mcget") and seq[0][0] != "newenv":
                    hist.append(list(seq))
        rng = ctx.rng("hist", backend)
        edits = [("edit", k) for k in EDITS]
        for _ in range(ctx.pick(100, 1000)):
            hist.append([rng.choice(alphabet + edits) for _ in range(rng.randrange(mlen + 1, mlen + 6))] + [alphabet[0]])
        sweep = edit_sweep(alphabet[0], pairs=not (ctx.quick and backend == "mc"))
        # (history, keep_trailing_newline): the exhaustive ones with the option on (a final newline is then visible),
        # the edit sweep with the option on and off
        runs = [(h, True) for h in hist] + [(h, ktn) for ktn in (True, False) for h in sweep]
        sweeps += 2 * len(sweep)
        for ignore in ignores:
            if not ignore:
                runs = [(h, True) for h in hist]
            plans = [plan_history(h, ignore) for h, _ in runs]
            reps = core.driver_batch([[Atom("bc-history"), 1, pl[0]] for pl in plans])
            for hi, ((h, ktn), (_, texts, id2text), rep) in enumerate(zip(runs, plans, reps)):
                w = World(jinja2, backend, ignore, root, ctx.rng("hist-offsets", backend, ignore, hi), ktn)
                total += 1
                seen.add((backend, ignore, ktn, tuple(h)))

                def expected(o):
                    return ["served", fresh_render(jinja2, id2text[o[1] - 100], ktn)] if o[0] == "served" else o
                try:
                    for i, (op, pair) in enumerate(zip(h, canon(rep[1]))):
                        model, spec = expected(pair[0]), expected(pair[1])
                        real = w.apply(op, texts[i])
                        steps += 1
                        dist[real[0]] = dist.get(real[0], 0) + 1
                        shown = [o[0] if len(o) == 1 else list(o) for o in h[:i + 1]]
                        replay = {"layer": "history", "backend": backend, "ignore_memcache_errors": ignore,
                                  "keep_trailing_newline": ktn, "history": [list(o) for o in h[:i + 1]],
                                  "offsets_seed": [backend, ignore, hi], "source_now": texts[i]}
                        if real != spec and spec[0] == "served":
                            if real[0] == "raised" and real[1] in ("EOFError", "UnpicklingError") and same_out(real, model):
                                key = "C27:truncated-entry:pickle-unguarded"
                                what = (f"get_template raises {real[1]} after the cache entry was truncated inside the pickled checksum "
                                        f"({backend} cache, history {shown}); expected a miss and a recompile")
                            elif real[0] == "raised" and same_out(real, model):
                                key = None      # a client error that propagates by configuration: model and code agree
                                if not (backend == "mc" and not ignore and real[1] == "ConnectionError"):
                                    key = f"C27:history:{backend}:raises:{real[1]}"
                                    what = f"get_template raises {real[1]} in history {shown}"
                            elif real[0] == "served":
                                key = f"C27:history:{backend}:stale-code"
                                what = (f"{backend} cache, keep_trailing_newline={ktn}, history {shown}: get_template's output and that of "
                                        f"a cache-less compile of the current source differ {diff_at(real[1], spec[1])}: code of an "
                                        "earlier source was served")
                            else:
                                key = f"C27:history:{backend}:raises:{real[1]}"
                                what = f"get_template raises {real[1]} in history {shown}"
                            if key:
                                res.violate(key, what, replay)
                        if not same_out(real, model):
                            res.violate(f"C27:history:{backend}:model-mismatch",
                                        f"{backend} cache (ignore_memcache_errors={ignore}, keep_trailing_newline={ktn}), history {shown}: "
                                        f"real {str(real)[:120]}, model {str(model)[:120]}",
                                        replay, no_input=(real == spec or spec[0] != "served"))
                            break
                finally:
                    w.close()
    stats["histories"] = total
    stats["history_edit_sweep"] = sweeps
    stats["history_steps"] = steps
    stats["history_outcomes"] = dist
    stats["history_maxlen"] = maxlen
    return seen


# ------------------------------------------------------------------------------------------------------------------
# (e) the checksum itself: the injectivity hypothesis of history_fresh, probed on edits a normalising hash would merge
# ------------------------------------------------------------------------------------------------------------------

def checksum_pool():
    bases = [("foo", "bar"), ("{{ x }}", "{% if x %}y{% endif %}"), ("line one {{ x }}", "Line Two"),
             ("{% for i in items %}", "{{ i }}{% endfor %}"), ("a" * 400, "b" * 400), ("gr\u00fc\u00df {{ x }}", "\u4e2d {{ x }}")]
    pools = []
    for head, tail in bases:
        vs = []
        for sp in ["\n", "\r\n", "\r"] + SEPS:
            vs += [head + sp + tail, head + sp + tail + "\n"]
        vs += [head + "\n" + tail + "\n\n", head + " \n" + tail, head + "\t\n" + tail, head + "\n" + tail + " ",
               (head + "\n" + tail).swapcase(), tail + "\n" + head, head + tail, head + "\n\n" + tail,
               head[:-1] + ("X" if head[-1] != "X" else "Y") + "\n" + tail, head + "\n" + tail + "\r\n"]
        pools.append(sorted(set(vs)))
    return pools


def run_checksum(ctx, res, jinja2, root, stats):
    bcs = [jinja2.bccache.BytecodeCache(), jinja2.FileSystemBytecodeCache(root),
           jinja2.MemcachedBytecodeCache(FakeMemcache())]
    pairs, collisions = 0, []
    seen = set()
    for pool in checksum_pool():
        sums = [[bc.get_source_checksum(t) for bc in bcs] for t in pool]
        for a in range(len(pool)):
            for b in range(a + 1, len(pool)):
                pairs += 1
                seen.add((pool[a], pool[b]))
                if any(x == y for x, y in zip(sums[a], sums[b])):
                    collisions.append((pool[a], pool[b]))
    stats["checksum_pairs"] = pairs
    stats["checksum_collisions"] = len(collisions)
    concrete = None
    for a, b in collisions[:50]:
        # does the collision serve stale code?  load a, change the source to b, load again
        for ktn in (True, False):
            for first, second in ((a, b), (b, a)):
                d = tempfile.mkdtemp(dir=root)
                mapping = {NAME: first}
                env = jinja2.Environment(loader=jinja2.DictLoader(mapping), cache_size=0, keep_trailing_newline=ktn,
                                         bytecode_cache=jinja2.FileSystemBytecodeCache(d))
                try:
                    env.get_template(NAME).render(x="<", items=[1])
                    mapping[NAME] = second
                    got = env.get_template(NAME).render(x="<", items=[1])
                    want = jinja2.Environment(keep_trailing_newline=ktn).from_string(second).render(x="<", items=[1])
                except Exception:  # noqa
                    continue
                finally:
                    shutil.rmtree(d, ignore_errors=True)
                if got != want and concrete is None:
                    concrete = (first, second, ktn, got, want)
    if concrete:
        first, second, ktn, got, want = concrete
        res.violate("C27:checksum:collision",
                    f"get_source_checksum gives the same checksum to the different sources {first[:60]!r} and {second[:60]!r} "
                    f"({len(collisions)} colliding pairs of {pairs}); with keep_trailing_newline={ktn}, after loading the first and changing "
                    f"the source to the second get_template renders {got[:60]!r}, a fresh compile {want[:60]!r}",
                    {"layer": "checksum", "first": first, "second": second, "keep_trailing_newline": ktn})
    elif collisions:
        a, b = collisions[0]
        res.violate("C27:checksum:collision",
                    f"get_source_checksum gives the same checksum to the different sources {a[:60]!r} and {b[:60]!r} "
                    f"({len(collisions)} colliding pairs of {pairs}): the injectivity hypothesis of history_fresh does not hold",
                    {"layer": "checksum", "first": a, "second": b}, no_input=True)
    return seen


# ------------------------------------------------------------------------------------------------------------------
# (d) two configurations, one directory
# ------------------------------------------------------------------------------------------------------------------

def option_pairs(jinja2):
    from jinja2.sandbox import SandboxedEnvironment, unsafe

    @unsafe
    def danger():
        return "RAN"

    E = jinja2.Environment
    return [
        # (option, source, context, environment A, environment B)
        ("autoescape", "{{ x }}", {"x": "<b>"}, (E, {}), (E, {"autoescape": True})),
        ("sandboxed", "{{ f() }}", {"f": danger}, (E, {}), (SandboxedEnvironment, {})),
        ("async", "{{ x }}{% for i in [1, 2] %}{{ i }}{% endfor %}", {"x": 1}, (E, {}), (E, {"enable_async": True})),
        ("trim_blocks", "{% if x %}\na\n{% endif %}\nb", {"x": 1}, (E, {}), (E, {"trim_blocks": True})),
        ("lstrip_blocks", "  {% if x %}a{% endif %}\n", {"x": 1}, (E, {}), (E, {"lstrip_blocks": True})),
        ("delimiters", "{{ x }}<< x >>", {"x": 7}, (E, {}), (E, {"variable_start_string": "<<", "variable_end_string": ">>"})),
        ("optimized", "{{ 1 + 2 }}{{ x }}", {"x": 1}, (E, {}), (E, {"optimized": False})),
        ("control:equal-options", "{{ x }}", {"x": "<b>"}, (E, {"autoescape": True}), (E, {"autoescape": True})),
    ]


def run_shared(ctx, res, jinja2, root, stats):
    seen = set()
    outcome = {}
    reproduced = []
    for opt, src, data, A, B in option_pairs(jinja2):
        for order in ("A-then-B", "B-then-A"):
            first, second = (A, B) if order == "A-then-B" else (B, A)
            d = tempfile.mkdtemp(dir=root)
            try:
                def mk(spec, cached):
                    cls, kw = spec
                    return cls(loader=jinja2.DictLoader({NAME: src}), cache_size=0,
                               bytecode_cache=jinja2.FileSystemBytecodeCache(d) if cached else None, **kw)

                def rend(env):
                    try:
                        return ["ok", env.get_template(NAME).render(**data)]
                    except BaseException as e:  # noqa
                        return ["raised", type(e).__name__]
                r1 = rend(mk(first, True))
                r2 = rend(mk(second, True))
                want1, want2 = rend(mk(first, False)), rend(mk(second, False))
                seen.add((opt, order))
                outcome[f"{opt}/{order}"] = "same" if (r1, r2) == (want1, want2) else f"{r2} instead of {want2}"
                replay = {"layer": "shared-dir", "option": opt, "order": order, "source": src,
                          "first": [first[0].__name__, first[1]], "second": [second[0].__name__, second[1]]}
                if r1 != want1:
                    res.violate(f"C27:shared-dir:{opt}:first-load", f"first load through an empty cache gives {r1}, not {want1}", replay)
                if r2 != want2:
                    reproduced.append(opt)
                    res.violate(f"C27:shared-dir:{opt}",
                                f"two environments differing in {opt} share one FileSystemBytecodeCache directory: after "
                                f"{first[0].__name__}({first[1]}) loaded {src!r}, {second[0].__name__}({second[1]}) renders {r2}; "
                                f"compiling with its own configuration gives {want2} (cache key and checksum ignore the configuration)",
                                replay)
            finally:
                shutil.rmtree(d, ignore_errors=True)
    # the model's two-configuration history and the Spec (Lean): load with configuration 1, then 2
    rep = core.driver_batch([[Atom("bc-history"), 1, [[Atom("load"), 1, 0], [Atom("load"), 2, 0]]]])[0]
    (m1, s1), (m2, s2) = canon(rep[1])
    stats["shared_dir_model"] = {"model": [m1, m2], "spec": [s1, s2]}
    if m2 != s2 and reproduced:
        res.violate("C27:shared-dir:config-not-in-key",
                    f"the cache key is SHA-1(name|filename) and the checksum SHA-1(source): the loading configuration is in neither, so "
                    f"the model serves {m2} where the specification requires {s2}; reproduced on the real code for: "
                    f"{sorted(set(reproduced))}", {"layer": "shared-dir", "options": sorted(set(reproduced))})
    elif m2 == s2 and reproduced:
        res.violate("C27:shared-dir:model-mismatch", "the model keeps configurations apart, the code does not", {}, no_input=True)
    stats["shared_dir"] = outcome
    return seen


# ------------------------------------------------------------------------------------------------------------------

def check_tables(res, jinja2):
    """the class table of the model against the interpreter; the handler classes must be names the table knows"""
    import builtins
    rep = canon(core.driver_batch([[Atom("bc-sites")]])[0][1])
    sites, table = rep[0], rep[1]
    for cls, m in table:
        k = getattr(builtins, cls, None) or getattr(pickle, cls, None)
        real = [c.__name__ for c in k.__mro__ if c is not object] if k else None
        if real != m:
            res.violate("C27:class-table:" + cls, f"Model.mroOf {cls} = {m}, the interpreter says {real}", {}, no_input=True)
    esc = canon(core.driver_batch([[Atom("bc-escapes")]])[0][1])
    for cls, m in esc[2]:
        k = getattr(builtins, cls, None)
        real = [c.__name__ for c in k.__mro__ if c is not object] if k else None
        if real != m:
            res.violate("C27:class-table:" + cls, f"Model.mroOf {cls} = {m}, the interpreter says {real}", {}, no_input=True)
    return {"oserror_classes_escaping_the_rename": esc[0], "oserror_classes_escaping_open_in_load": esc[1], "decoder_sites": sites, "pickle_contract": rep[2], "marshal_contract": rep[3], "fs_open_caught": rep[4],
            "tmp_well_formed": rep[5], "key_inputs": rep[6], "checksum_inputs": rep[7]}


def attach_changed_behaviour(ctx, res, stats):
    """the proofs that pin today's handlers no longer check (or the translator refused): name, inside the tie violation's
    replay, the first site/class whose behaviour changed against those pinned facts, with what the real code does now -
    as 'behaviour that changed', not as a failing input of the property"""
    known_now = {k["key"] for k in core.load_known() if k.get("property") == ID and k.get("kind") == "known"}
    if not (ctx.proof_broken or ctx.tie_broken) or any(not v.no_input and v.key not in known_now for v in res.violations):
        return
    real = stats.get("_fs_real", {})
    changed = []
    try:
        esc = canon(core.driver_batch([[Atom("bc-escapes")]])[0][1])
        for cls in esc[0]:
            item = {"site": "os.replace in FileSystemBytecodeCache.dump_bytecode", "exception": cls,
                    "pinned by": "replace_oserror_is_miss / no_replace_escapes / fs_fault_safe",
                    "before": "swallowed: get_template returns, old entry kept, temporary removed",
                    "model now": "the temporary is removed and the exception leaves dump_bytecode",
                    "real now": f"get_template: {real.get(('replace', cls), 'not observed')}"}
            if cls == "IsADirectoryError":
                item["public API replay"] = ("os.mkdir(join(cache.directory, cache.pattern % cache.get_cache_key(name, filename))); "
                                             "env.get_template(name): " + str((stats.get("fs_obstacles") or {}).get("directory-at-entry-path")))
            changed.append(item)
        for cls in ("FileNotFoundError", "IsADirectoryError", "PermissionError"):
            if cls in esc[1]:
                changed.append({"site": "open in FileSystemBytecodeCache.load_bytecode", "exception": cls,
                                "pinned by": "open_obstacles_are_misses", "before": "a cache miss",
                                "model now": "leaves get_template", "real now": f"get_template: {real.get(('load-open', cls), 'not observed')}"})
    except Exception as e:  # noqa
        changed.append({"error": f"finder failed: {e}"})
    changed += [{"drift": d} for d in stats.get("fs_fault_drift", [])[:5]]
    what = "; ".join([f"theorems of {m} no longer check over the regenerated model" for m in ctx.proof_broken] + list(ctx.tie_broken))
    if changed:
        first = next((c for c in changed if "public API replay" in c), changed[0])
        what += (f"; behaviour that changed (not a failing input of the property): {first.get('site')} with {first.get('exception')} - "
                 f"before: {first.get('before')}; now: {first.get('real now')}"
                 + (f"; reachable with the public API: {first['public API replay']}" if "public API replay" in first else ""))
    res.violate("C27:tie", what, {"proof_broken": ctx.proof_broken, "tie_broken": ctx.tie_broken, "gen_changed": ctx.gen_changed,
                                  "behaviour_that_changed": changed, "notes": res.notes[-3:]}, no_input=True)


def run(ctx, res):
    jinja2 = core.import_jinja()
    import jinja2.bccache  # noqa
    import jinja2.sandbox  # noqa
    root = tempfile.mkdtemp(prefix="jv-c27-")
    stats = {}
    try:
        import time
        t = [time.monotonic()]
        stats["read_from_source"] = check_tables(res, jinja2)
        s2 = run_write_path(ctx, res, jinja2, root, stats)      # first: forks are cheap while the process is small
        t.append(time.monotonic())
        s6 = run_fs_faults(ctx, res, jinja2, root, stats)
        s6 |= run_foreign_interpreter(ctx, res, jinja2, root, stats)
        s1 = run_unit(ctx, res, jinja2, stats)
        t.append(time.monotonic())
        s3 = run_histories(ctx, res, jinja2, root, stats)
        t.append(time.monotonic())
        s4 = run_shared(ctx, res, jinja2, root, stats)
        s5 = run_checksum(ctx, res, jinja2, root, stats)
        t.append(time.monotonic())
        stats["section_seconds"] = [round(b - a, 1) for a, b in zip(t, t[1:])]
    finally:
        shutil.rmtree(root, ignore_errors=True)
    attach_changed_behaviour(ctx, res, stats)
    stats.pop("_fs_real", None)
    total = stats["unit_cases"] + stats.get("write_path_cases", 0) + stats["histories"] + len(s4) + stats["checksum_pairs"] + stats["fs_fault_reached"]
    res.coverage.update({
        "evaluations": total,
        "distinct_nontrivial": len(s1) + len(s2) + len(s3) + len(s4) + len(s5) + len(s6),
        "rule": ("(a) for 2-3 real cache entries: the intact entry, EVERY truncation offset, every byte value (thorough, first entry; otherwise 4 "
                 "masks + 3/16 random values) at every offset of magic and pickled checksum, sampled bit flips in the marshalled code "
                 "(forked: CPython may crash), the older version's entry, another template's entry, 7 foreign magics; non-trivial = "
                 "distinct (kind, entry, offset, value). (b) process death after every prefix of dump_bytecode's operations and "
                 "OSError/KeyboardInterrupt raised at every step, prior entry absent/old. (c) every history of length <= "
                 f"{stats['history_maxlen']} over get/modify/clear/new-environment/truncate-in-magic/-in-checksum/-in-code (file system) and "
                 "length one less over memcache get with client ok/get-fails/set-fails/truncating x3, modify, new-environment x "
                 "ignore_memcache_errors on/off, ending in a get, plus random longer ones; 'modify' comes in three kinds (new "
                 "version text, toggle the final newline, cycle a line break through \\n and the 8 other str.splitlines() "
                 "boundaries) and an edit sweep (17 edit kinds: final newline, \\n<->\\r\\n, \\n<->\\r, \\n<->each of 8 separators, "
                 "trailing blank, one character in a 600-character line, case, two lines swapped; alone and in every ordered pair, "
                 "with and without a load between) runs with keep_trailing_newline on and off; output is compared with a cache-less "
                 "compile of the current source. (d) 7 option pairs + a control, both orders. (e) get_source_checksum on every pair "
                 "of ~32 variants (separators, final newlines, blanks, case, order, one character) of 6 two-line sources: distinct "
                 "sources must have distinct checksums, a collision is replayed end-to-end"),
        "samples": [{"unit": sorted(s1)[len(s1) // 2]} if s1 else {}, {"write_path": sorted(s2, key=str)[len(s2) // 2]} if s2 else {},
                    {"history": [list(o) for o in sorted(s3, key=str)[len(s3) // 2][3]]} if s3 else {}],
        "exhaustive": True,
        **stats,
    })


def replay(ctx, case):
    jinja2 = core.import_jinja()
    c = case["case"]
    if c.get("layer") == "unit":
        u = Unit(jinja2)
        return forked_map(u.evaluate, [{"bytes": c["bytes"], "ck": c["ck"], "stored": c["stored"]}])[0]
    root = tempfile.mkdtemp(prefix="jv-c27-")
    try:
        if c.get("layer") == "history":
            w = World(jinja2, c["backend"], c["ignore_memcache_errors"], root, ctx.rng("hist-offsets", *c["offsets_seed"]),
                      c.get("keep_trailing_newline", True))
            h = [tuple(o) for o in c["history"]]
            _, texts, _ = plan_history(h, c["ignore_memcache_errors"])
            return {"impl": [w.apply(o, tx) for o, tx in zip(h, texts)],
                    "fresh_compile_of_current_source": fresh_render(jinja2, texts[-1], c.get("keep_trailing_newline", True))}
        if c.get("layer") == "checksum":
            bc = jinja2.bccache.BytecodeCache()
            return {"first": bc.get_source_checksum(c["first"]), "second": bc.get_source_checksum(c["second"])}
        if c.get("layer") == "shared-dir":
            res = core.Result()
            run_shared(ctx, res, jinja2, root, {})
            return {"violations": [[v.key, v.what] for v in res.violations]}
        if c.get("layer") == "foreign-interpreter":
            res = core.Result()
            st = {}
            run_foreign_interpreter(ctx, res, jinja2, root, st)
            return {"violations": [[v.key, v.what] for v in res.violations], "outcomes": st.get("foreign_interpreter")}
        if c.get("layer") in ("fs-fault", "fs-obstacle"):
            res = core.Result()
            st = {}
            run_fs_faults(ctx, res, jinja2, root, st)
            return {"violations": [[v.key, v.what] for v in res.violations], "obstacles": st.get("fs_obstacles"),
                    "outcomes": st.get("fs_fault_outcomes")}
        if c.get("layer") == "write-path":
            res = core.Result()
            st = {}
            run_write_path(ctx, res, jinja2, root, st)
            return {"violations": [[v.key, v.what] for v in res.violations], "stats": st}
    finally:
        shutil.rmtree(root, ignore_errors=True)
    return "unknown replay layer"
