"""C20 — sandbox operator interception sees every intercepted operator application."""
from __future__ import annotations

import itertools

import translate.expr_tables as tr_expr
from harness import core, exprcommon as X
from harness.props.c08 import WRAPPERS, render_wrapped

ID = "C20"
LEAN_MODULES = ["JinjaV.Props.C20", "JinjaV.Props.C02"]   # C02: guards_present, optimizer_traversal_as_modelled (tie of the folding pipeline)
GEN = [tr_expr.gen]
LEVEL = "proof"
TRUSTED = [
    "Model/Expr.lean: applyBin/applyUn model `_make_binop`/`_make_unop` (compiler.py:61-98): the hook is called iff the environment "
    "is sandboxed and the operator is in the intercepted set; asConst models the refusal to fold (nodes.py:499-536), whose presence "
    "is READ from the source on every run (Gen/ExprTables.guards)",
    "the hook log of the real SandboxedEnvironment subclass (call_binop/call_unop overridden to record and perturb) is compared "
    "with the model's event log; operator semantics on values are the C02 model (correspondence)",
    "`and`, `or`, `not` and comparisons are not interceptable (intercepted_binops/unops are documented for arithmetic operators)",
]
ASSUMPTIONS = ["operands are evaluated left to right by CPython for the generated call_binop(context, op, left, right) form"]
CLAIM = dict(
    category="proof",
    technique="Lean 4 proofs over the expression model (hook called for every intercepted application with the operand values, never "
              "for others, result is the hook's, folding never removes an event) over guards read from the source + differential "
              "hook logs on real sandboxed environments for every subset of interceptable operators",
    text="Theorems (Props/C20.lean): bin_routed / un_routed — an intercepted operator application evaluates both operands, then "
         "calls the hook with exactly those values, and its result is the hook's result; bin_not_routed — other operators are "
         "applied directly with no event; events_only_intercepted — every event in the log of any expression is an application of "
         "an operator in the intercepted sets of a sandboxed environment (induction over all expression forms); "
         "no_interception_no_events; intercepted_never_folded and folding_preserves_events — with the guards read from nodes.py on "
         "this run, optimisation and output folding leave the event sequence and the result of every expression unchanged, so "
         "applications on constants still reach the hook. Tie: arithmetic-heavy random expressions under every subset of the 7 "
         "binary and 2 unary interceptable operators (16 sampled subsets quick / all 512 thorough) with a hook that records "
         "operands and perturbs integer results: rendered text and hook log must equal the model's; the same expressions in "
         "filter arguments, set, if, for positions with optimizer on/off and constants lifted must give identical logs.",
    note="Trusted: Lean kernel; hand model (guards regenerated); value semantics by correspondence; the compile-side claim for "
         "statement positions (macro defaults, loop filters) is by the differential log comparison, not a theorem.",
    design_ref="§5 C20",
)


def run(ctx, res):
    jinja2 = core.import_jinja()
    rng = ctx.rng("c20")
    broken = bool(ctx.gen_changed or ctx.proof_broken or ctx.tie_broken)
    subsets = [(b, u) for nb in range(8) for b in itertools.combinations(X.BINOPS, nb) for u in ((), ("-",), ("+",), ("-", "+"))]
    if ctx.quick:
        chosen = rng.sample(subsets, 14) + [(tuple(X.BINOPS), ("-", "+")), (("+",), ())]
    else:
        chosen = subsets
    per = ctx.pick(60, 24) * (3 if broken else 1)
    maxd = ctx.pick(4, 5)
    g = X.Gen(rng, arith=0.7, consts=0.6, mismatch=0.05)
    evaluations, distinct, oom, events_seen, kinds = 0, set(), 0, 0, {}
    reqs, jobs = [], []
    for (b, u) in chosen:
        hook = rng.choice(["perturb", "perturb", "default"])
        vo = X.Variant(jinja2, sandboxed=True, ic_bin=b, ic_un=u, hook=hook, autoescape=rng.random() < 0.3)
        vn = X.Variant(jinja2, sandboxed=True, ic_bin=b, ic_un=u, hook=hook, autoescape=vo.autoescape, optimized=False)
        trees = [g.any(rng.randrange(1, maxd + 1)) for _ in range(per)]
        lifted, lenvs = [], []
        for t in trees:
            env = {}
            lifted.append(X.lift_consts(t, env))
            lenvs.append({k: X.wire_to_py(jinja2, v) for k, v in env.items()})
        srcs = X.pretty_batch(trees)
        lsrcs = X.pretty_batch(lifted)
        for tree, src, lsrc, lenv in zip(trees, srcs, lsrcs, lenvs):
            data = X.make_data(jinja2, rng)
            vars_, objs = X.ctx_sx(jinja2, data)
            wrapper = rng.choice(WRAPPERS) if rng.random() < 0.4 else WRAPPERS[0]
            runs = []
            with core.mem_cap(3 << 30):
                for name, v, s, dd in (("optimized", vo, src, data), ("unoptimized", vn, src, data), ("constants-lifted", vo, lsrc, dict(data, **lenv))):
                    out = render_wrapped(v, wrapper, s, dd)
                    runs.append((name, out, X.canon(v.log)))
            evaluations += 3
            if any(out == ("err", "other:MemoryError") or (out[0] == "ok" and len(out[1]) > 400000) for _, out, _ in runs):
                oom += 1            # a perturbed integer repeated a sequence beyond the model's domain (Model.repGuard)
                continue
            X.kinds(tree, kinds)
            distinct.add((src, wrapper[0], vo.label()))
            events_seen += len(runs[0][2])
            base = runs[0]
            for name, out, log in runs[1:]:
                if (out, log) != (base[1], base[2]):
                    text = wrapper[1] % ((src,) * wrapper[1].count("%s"))
                    what = "result" if out != base[1] else "hook-log"
                    res.violate(f"C20:three-way:{wrapper[0]}:{what}",
                                f"{text!r} under [{vo.label()}]: optimized gives {base[1]!r} with hook log {base[2]!r}; {name} gives {out!r} "
                                f"with hook log {log!r}", {"src": src, "lifted": lsrc, "wrapper": wrapper[0], "variant": vo.label(),
                                                            "data": {k: repr(x) for k, x in data.items()}})
                    break
            if wrapper[0] == "out":
                reqs.append(vo.request(tree, vars_, objs))
                jobs.append((tree, src, vo, base[1], base[2]))
    reps = core.driver_batch(reqs)
    compared = 0
    for (tree, src, v, got, glog), rep in zip(jobs, reps):
        want, wlog = X.model_result(rep, "ref")
        comp, clog = X.model_result(rep, "comp")
        if want == ("err", "oom") or comp == ("err", "oom"):
            oom += 1
            continue
        if (comp, clog) != (want, wlog) and not broken:
            raise core.HarnessError(f"model pipeline differs from its reference on {src!r} although proved equal")
        compared += 1
        if glog != wlog:
            missing = [e for e in wlog if e not in glog]
            res.violate("C20:hook-log:" + ("missed" if missing else "extra-or-order"),
                        f"{{{{ {src} }}}} under [{v.label()}]: the hook saw {glog!r}; every intercepted application in evaluation order is "
                        f"{wlog!r}", {"src": src, "variant": v.label()})
        elif got != want:
            res.violate("C20:result", f"{{{{ {src} }}}} under [{v.label()}] renders {got!r}; with the hook's results it is {want!r}",
                        {"src": src, "variant": v.label()})
    res.coverage.update({
        "evaluations": evaluations, "distinct_nontrivial": len(distinct),
        "rule": (f"{len(chosen)} subsets of the 7 binary x 4 unary interceptable operator sets ({'sampled' if ctx.quick else 'all 512'}), "
                 f"{per} arithmetic-heavy random expression trees each (depth 1-{maxd}), rendered on a sandboxed environment whose hook "
                 "records operands and (mostly) perturbs integer results, in 5 statement positions, optimizer on/off and constants "
                 "lifted; logs and results must agree with each other and, for `{{ e }}`, with the Lean model; distinct = distinct "
                 "(source, position, configuration)"),
        "samples": [{"request": core.sx(reqs[0])[:400]}] if reqs else [],
        "hook_events_observed": events_seen, "model_compared": compared, "out_of_model": oom, "node_kinds": kinds,
        "exhaustive": False,
    })


def replay(ctx, case):
    return case["case"]
