"""C09 — async mode renders exactly what sync mode renders."""
from __future__ import annotations

import asyncio
import hashlib
import inspect
import itertools
import json

import translate.async_pairs as tr_pairs
import translate.expr_tables as tr_expr
from harness import c09lib as L
from harness import core
from harness import exprcommon as X
from harness.core import Atom
from harness.gen import c09gen as G
from harness.gen.templates import TG
from harness.props import c07

ID = "C09"
LEAN_MODULES = ["JinjaV.Props.C09"]
GEN = [tr_expr.gen, tr_pairs.gen]
LEVEL = "proof"
TRUSTED = [
    "Model/Await.lean (auto_await, auto_aiter, _IteratorToAsyncIterator, auto_to_list, the async-variant shapes, AsyncLoopContext) "
    "is a hand transcription of async_utils.py / runtime.py:591-659 / filters.py, tied by the unit correspondence of this run; "
    "`await x` on an awaitable resolving to v is v (the event loop, tasks and cancellation are not modelled)",
    "the expression model (Model/Expr.lean) and its guards/tables are those of C02/C08 (guards re-read from the source each run)",
    "statement level (for, macro, call, include, import, extends, blocks): not a Lean model — established per generated program by "
    "translation validation (harness/c09lib.py: the async code with the async constructs erased must be the sync code, Python "
    "`ast`) and by the end-to-end oracle; the erasure rules themselves are trusted to be semantics-preserving exactly when "
    "await_transparent / async_for_visits_items / async_loop_is_loop apply",
    "translate/async_pairs.py: the shape classification of each @async_variant body (erases / syncOnList / fold) is a syntactic "
    "judgement by the translator",
]
ASSUMPTIONS = [
    "asyncio event-loop semantics (run_until_complete, asyncio.run, async generator finalisation) are Python's",
    "data callables are deterministic functions of their arguments and of their own call count; awaitables resolve without "
    "suspending on external events",
    "one-shot async iterables are compared with one-shot sync iterables (generators) of the same items; results of iterable-"
    "producing filters are consumed by for loops and async-variant filters (everything else is DESIGN F17, reported per consumer)",
]
CLAIM = dict(
    category="proof",
    technique="Lean 4 proof that the compiled expression pipeline does not observe is_async (over guards/tables read from the source) "
              "and that awaiting is transparent in a model of async_utils / async-variant shapes / AsyncLoopContext (refinement to the "
              "C07 loop machine), with the @async_variant inventory regenerated from filters.py + per-program translation validation "
              "of the generated code (async code with async constructs erased = sync code) + end-to-end oracle over all entry points, "
              "four environment classes and coroutine-function / async-generator data",
    text="Theorems (Props/C09.lean): async_flag_unobservable_expr — for every expression, context, configuration and optimizer "
         "setting the compiled pipeline for `{{ e }}` gives the same value, error and operator-hook events with is_async on and "
         "off (via C08.compile_render_sound over Gen.ExprTables.guards/tables; the two modes fold different things because of the "
         "async-variant guard, and folding is unobservable); await_transparent, await_once, async_for_visits_items, "
         "auto_to_list_items — auto_await returns plain values unchanged and an awaitable's result, `async for` over auto_aiter "
         "visits exactly the items a sync for sees for sync and async iterables, non-iterables fail in both; variant_syncOnList, "
         "variant_fold, variant_gen, variant_first — each shape of @async_variant body computes what its sync function computes on "
         "the same items; async_loop_is_loop / async_loop_attr_values — AsyncLoopContext answers every operation sequence exactly "
         "like LoopContext on the awaited items, hence like the documented loop specification (C07); pairs_known, "
         "no_inplace_accumulation, variants_are_pairs, producers_known, sync_only_consumers_known — by decide over the inventory "
         "read from filters.py/tests.py on this run: the twelve pairs with their shapes, no in-place accumulation, the five "
         "async-generator producers, the list of iterable consumers without async variant, and laziness_preserved_except_known "
         "(an async variant is an async generator exactly when its sync function is a generator, except unique and slice). Statement level is NOT a theorem: "
         "for every generated program the async-mode generated Python with await/auto_await/auto_aiter/async def/async for/"
         "AsyncLoopContext/aclose scaffolding erased must equal the sync-mode generated Python (ast-normalised), and every program "
         "is rendered through render/generate/stream (sync) and render/render_async/generate_async/generate (async) for "
         "Environment, SandboxedEnvironment, ImmutableSandboxedEnvironment, NativeEnvironment with plain data, callables as "
         "coroutine functions and iterables as generators / async generators; outputs or exception classes must be equal.",
    note="Trusted: Lean kernel; hand model Model/Await.lean (unit correspondence); translator for AsyncPairs/ExprTables; the erasure "
         "rules of the translation validation; event-loop semantics assumed. Known: consumers without an async variant cannot "
         "take the result of map/select/reject/selectattr/rejectattr in async mode (DESIGN F17); async unique/slice drain their input "
         "eagerly (Findings/F17.lean proves both full-strength statements false over the inventory).",
    design_ref="§5 C09",
)


# ------------------------------------------------------------------------------------------------------------------
# A. unit correspondence: async_utils, async variants by shape, AsyncLoopContext  vs  Model/Await.lean
# ------------------------------------------------------------------------------------------------------------------

class Box(int):
    """an int whose type is not one of async_utils._common_primitives (auto_await's slow path)"""


def _coro(v):
    async def c():
        return v
    return c()


def mk_value(desc):
    """wire form → a fresh Python value: (plain prim n) (awaitable v) (iter n…) (giter n…) (aiter n…)"""
    h = desc[0]
    if h == "plain":
        return desc[2] if desc[1] else Box(desc[2])
    if h == "awaitable":
        return _coro(mk_value(desc[1]))
    if h == "iter":
        return list(desc[1:])
    if h == "giter":
        return (x for x in list(desc[1:]))
    if h == "aiter":
        return L._agen(list(desc[1:]))
    raise AssertionError(desc)


def wire_value(desc):
    if desc[0] == "giter":
        return [Atom("iter")] + list(desc[1:])
    if desc[0] == "awaitable":
        return [Atom("awaitable"), wire_value(desc[1])]
    return [Atom(desc[0])] + list(desc[1:])


async def describe(v):
    """what a Python value is, in wire form (awaitables are awaited to see what they resolve to)"""
    if inspect.isawaitable(v):
        return ["awaitable", await describe(await v)]
    if hasattr(v, "__aiter__"):
        return ["aiter"] + [x async for x in v]
    if isinstance(v, (list, tuple)) or inspect.isgenerator(v):
        return ["iter"] + list(v)
    if type(v) is int:
        return ["plain", True, int(v)]
    if isinstance(v, Box):
        return ["plain", False, int(v)]
    raise AssertionError(type(v))


def canon(o):
    if isinstance(o, list):
        return [canon(x) for x in o]
    return str(o) if isinstance(o, Atom) else o


def unit_await(ctx, res, jinja2, runner, boost):
    from jinja2 import async_utils as AU

    rng = ctx.rng("unit")
    lists = [[]] + [list(range(1, n + 1)) for n in range(1, ctx.pick(4, 6))] + [[3, 3, 1], [2, 4], [5, 0, 5, 7]]
    for _ in range(ctx.pick(20, 200) * boost):
        lists.append([rng.randrange(0, 9) for _ in range(rng.randrange(0, 7))])
    values = [["plain", True, 5], ["plain", False, 6], ["awaitable", ["plain", True, 7]], ["awaitable", ["plain", False, 8]],
              ["awaitable", ["awaitable", ["plain", True, 9]]]]
    for xs in lists:
        for form in ("iter", "giter", "aiter"):
            values.append([form] + xs)
        values.append(["awaitable", ["iter"] + xs])
    reqs, jobs = [], []
    for d in values:
        reqs.append([Atom("await-auto"), wire_value(d)])
        jobs.append(("auto_await", d))
        reqs.append([Atom("await-tolist"), wire_value(d)])
        jobs.append(("auto_to_list", d))
    aenv = jinja2.Environment(enable_async=True)
    aenv.filters["dbl"] = lambda x: 2 * x
    shapes = {"sum": "{{ v|sum(start=100)|tojson }}", "odd": "{{ v|select('odd')|list|tojson }}", "double": "{{ v|map('dbl')|list|tojson }}",
              "first": "{% set f = v|first %}{{ ([f] if f is defined else [])|tojson }}", "items": "{{ v|join(',') }}"}
    stempl = {k: aenv.from_string(s) for k, s in shapes.items()}
    for d in values:
        if d[0] in ("iter", "giter", "aiter") or d[0] == "plain":
            for kind in shapes:
                reqs.append([Atom("await-shape"), Atom(kind), wire_value(d)])
                jobs.append(("shape:" + kind, d))
    replies = core.driver_batch(reqs)
    n, kinds = 0, {}
    for (what, d), rep in zip(jobs, replies):
        n += 1
        kinds[what] = kinds.get(what, 0) + 1
        want = canon(rep)
        try:
            if what == "auto_await":
                got = ["ok", runner.run(describe_auto(AU, mk_value(d)))]
            elif what == "auto_to_list":
                got = ["ok", runner.run(AU.auto_to_list(mk_value(d)))]
            else:
                kind = what.split(":")[1]
                out = runner.run(stempl[kind].render_async(v=mk_value(d)))
                if kind == "items":
                    got = ["ok", [int(x) for x in out.split(",")] if out else []]
                elif kind == "sum":
                    got = ["ok", [json.loads(out)]]
                else:
                    got = ["ok", json.loads(out)]
        except TypeError:
            got = ["err", "typeError"]
        except Exception as e:  # noqa
            got = ["raised", type(e).__name__]
        if got != want:
            res.violate(f"C09:unit:{what}", f"{what} on {d}: real code gives {got}, the await model gives {want}",
                        {"what": what, "value": d, "got": got, "model": want})
    # AsyncLoopContext vs the async loop machine -------------------------------------------------------------
    cases = []
    qlen = ctx.pick(1, 2)
    patterns = [()]
    for k in range(1, qlen + 1):
        patterns += list(itertools.product(c07.QUERIES, repeat=k))
    for xs in c07.item_lists(ctx.pick(3, 5)):
        for pat in patterns:
            for form in ("list", "gen", "agen"):
                cases.append((form, xs, c07.build_ops(xs, pat, None), 0))
    for i in range(ctx.pick(300, 6000) * boost):
        xs = [rng.randrange(4) for _ in range(rng.randrange(0, 7))]
        ops = []
        for _ in range(rng.randrange(1, 20)):
            if rng.random() < 0.35:
                ops.append("next")
            else:
                q = rng.choice(c07.QUERIES)
                ops.append(("cycle", *[rng.randrange(9) for _ in range(rng.randrange(0, 4))]) if q == "cycle" else
                           ("changed", *[rng.randrange(2) for _ in range(rng.randrange(0, 3))]) if q == "changed" else q)
        cases.append((rng.choice(["list", "gen", "agen", "iter"]), xs, ops, rng.randrange(3)))
    lreqs = [[Atom("await-loop"), form == "list", form == "agen", d, xs, [c07.enc_op(o) for o in ops]] for form, xs, ops, d in cases]
    lreps = core.driver_batch(lreqs)

    async def all_async():
        return [await c07.run_async(form, xs, ops, d) for form, xs, ops, d in cases]

    impl = runner.run(all_async())
    for (form, xs, ops, d), rep, got in zip(cases, lreps, impl):
        n += 1
        if rep[0] != "ok":
            raise core.HarnessError(f"driver rejected {ops}: {rep}")
        want = canon(rep[1])
        if got != want:
            k = next((i for i, (a, b) in enumerate(zip(got, want)) if a != b), 0)
            opn = ops[k][0] if isinstance(ops[k], tuple) else ops[k]
            res.violate(f"C09:unit:asyncloop:{opn}", f"AsyncLoopContext over {form} {xs}, ops {ops}: op {k} gives {got[k]}, model {want[k]}",
                        {"form": form, "xs": xs, "ops": [list(o) if isinstance(o, tuple) else o for o in ops], "got": got, "model": want})
    kinds["asyncloop"] = len(cases)
    return n, kinds


async def describe_auto(AU, v):
    return await describe(await AU.auto_await(v))


# ------------------------------------------------------------------------------------------------------------------
# B. the expression theorem is about this code: real sync / async renders of `{{ e }}` vs the Lean pipeline
# ------------------------------------------------------------------------------------------------------------------

def expr_tie(ctx, res, jinja2, boost):
    rng = ctx.rng("expr")
    V = X.Variant
    pairs = []
    for ae in (False, True):
        for opt in (True, False):
            pairs.append((V(jinja2, autoescape=ae, optimized=opt, is_async=False), V(jinja2, autoescape=ae, optimized=opt, is_async=True)))
    pairs.append((V(jinja2, autoescape=True, sandboxed=True, ic_bin=("+", "*"), ic_un=("-",), hook="perturb", is_async=False),
                  V(jinja2, autoescape=True, sandboxed=True, ic_bin=("+", "*"), ic_un=("-",), hook="perturb", is_async=True)))
    pairs.append((V(jinja2, autoescape=False, volatile=True, is_async=False), V(jinja2, autoescape=False, volatile=True, is_async=True)))
    g = X.Gen(rng, consts=0.6, mismatch=0.1)
    ntrees = ctx.pick(250, 2500) * boost
    trees = [g.any(rng.randrange(1, ctx.pick(4, 5) + 1)) for _ in range(ntrees)]
    srcs = X.pretty_batch(trees)
    reqs, jobs = [], []
    n_ce = 0
    for tree, src in zip(trees, srcs):
        data = X.make_data(jinja2, rng)
        vars_, objs = X.ctx_sx(jinja2, data)
        vs, va = rng.choice(pairs)
        rs, ls = vs.render(src, data)
        ra, la = va.render(src, data)
        if (rs, ls) != (ra, la):
            res.violate(f"C09:expr:e2e:{tree[0]}", f"{{{{ {src} }}}} [{vs.label()}] renders {rs!r} hooks {ls}; with async on {ra!r} hooks {la}",
                        {"src": src, "variant": va.label(), "data": {k: repr(x) for k, x in data.items()}})
        # Environment.compile_expression: the value of the expression itself (TemplateExpression runs its own loop in async mode)
        ce = []
        for v in (vs, va):
            v.log = []          # (the hook log of the render above must not grow)
            try:
                ce.append(("ok", L.canon_value(v.env.compile_expression(src, undefined_to_none=False)(**data))))
            except Exception as e:  # noqa
                ce.append(("err", type(e).__name__))
        n_ce += 2
        if ce[0] != ce[1]:
            res.violate(f"C09:expr:compile_expression:{tree[0]}", f"compile_expression({src!r}) [{vs.label()}] gives {ce[0]!r}; with async on {ce[1]!r}",
                        {"src": src, "variant": va.label(), "data": {k: repr(x) for k, x in data.items()}})
        reqs.append(va.request(tree, vars_, objs))
        jobs.append((tree, src, va, ra, la))
        reqs.append(vs.request(tree, vars_, objs))
        jobs.append((tree, src, vs, rs, ls))
    reps = core.driver_batch(reqs)
    oom = folded = 0
    for (tree, src, v, got, log), rep in zip(jobs, reps):
        comp, clog = X.model_result(rep, "comp")
        if comp == ("err", "oom"):
            oom += 1
            continue
        if X.model_folded(rep):
            folded += 1
        if got != comp or X.canon(log) != clog:
            res.violate(f"C09:expr:model:{'async' if v.is_async else 'sync'}:{tree[0]}",
                        f"{{{{ {src} }}}} [{v.label()}] renders {got!r} hooks {X.canon(log)}; the Lean pipeline gives {comp!r} hooks {clog}",
                        {"src": src, "variant": v.label()})
    return {"expressions": ntrees, "renders": 2 * ntrees + n_ce, "compile_expression_calls": n_ce, "model_compared": len(jobs) - oom, "out_of_model": oom,
            "folded_by_model": folded, "configurations": len(pairs)}


# ------------------------------------------------------------------------------------------------------------------
# C+D. programs: translation validation of the generated code, and the end-to-end oracle
# ------------------------------------------------------------------------------------------------------------------

def expr_pools(ctx, rng):
    g = X.Gen(rng, consts=0.3, mismatch=0.04)
    kinds = (("int", g.int), ("str", g.str), ("bool", g.bool), ("lst", g.lst), ("any", g.any))
    n = ctx.pick(60, 300)
    trees = [(k, [fn(rng.randrange(1, 4)) for _ in range(n)]) for k, fn in kinds]
    flat = [t for _, ts in trees for t in ts]
    srcs = X.pretty_batch(flat)
    pools, i = {}, 0
    for k, ts in trees:
        pools[k] = srcs[i:i + len(ts)]
        i += len(ts)
    return pools


UNDEFINED_CLASSES = ["Undefined", "Undefined", "Undefined", "StrictUndefined", "ChainableUndefined", "DebugUndefined"]


def lcode_program(jinja2, cls, templates, autoescape):
    """→ (status, detail, counts) with status in ok / syntax / not-erasable / differs"""
    total = {}
    for name, src in templates.items():
        try:
            s, a, lifted = L.code_pair(jinja2, cls, src, autoescape, name=name)
        except jinja2.TemplateSyntaxError:
            return "syntax", name, total
        try:
            ds, _, ts = L.normal_form(s, False)
            da, cnt, ta = L.normal_form(a, True)
        except L.NotErasable as e:
            return "not-erasable", f"{name}: {e}", total
        except SyntaxError as e:
            return "not-erasable", f"{name}: generated code is not Python: {e.msg}", total
        for k, v in cnt.items():
            total[k] = total.get(k, 0) + v
        if lifted:
            total["guarded folds lifted"] = total.get("guarded folds lifted", 0) + lifted
        if ds != da:
            return "differs", (name,) + L.first_difference(ts, ta), total
    return "ok", None, total


def phash(templates, cls, ae):
    return hashlib.sha1(json.dumps([templates, cls, ae], sort_keys=True).encode()).hexdigest()[:16]


def diff_key(cls, label):
    # label = async:<entry>:<data mode>  |  sync:<entry>:<shape>
    return f"C09:e2e:{cls}:{label}"


def run_programs(ctx, res, jinja2, runner, boost):
    rng = ctx.rng("programs")
    pools = expr_pools(ctx, rng)
    n_pg = ctx.pick(200, 1800) * boost
    n_tg = ctx.pick(40, 300) * boost
    n_ex = ctx.pick(60, 500) * boost
    stats = {"programs": 0, "renders": 0, "lcode_templates_ok": 0, "lcode_syntax_rejected": 0, "base_ok": 0, "base_err": {},
             "features": {}, "classes": {}, "undefined_classes": {}, "erased": {}, "e2e_differences": 0, "lcode_differences": 0}
    distinct = set()
    samples = []

    def one(templates, main, spec, feats, classes, ae, modes, undef=None):
        undef = undef or rng.choice(UNDEFINED_CLASSES)
        env_kw = {} if undef == "Undefined" else {"undefined": getattr(jinja2, undef)}
        stats["undefined_classes"][undef] = stats["undefined_classes"].get(undef, 0) + 1
        for ci, cls in enumerate(classes):
            stats["programs"] += 1
            stats["classes"][cls] = stats["classes"].get(cls, 0) + 1
            # --- translation validation of the generated code (quick tier: under one of the program's classes)
            if ctx.quick and ci > 0:
                st, detail, counts = "skipped", None, {"(validated under the first class)": 1}
            else:
                st, detail, counts = lcode_program(jinja2, cls, templates, ae)
                stats["lcode_programs"] = stats.get("lcode_programs", 0) + 1
            if st != "skipped":
                for k, v in counts.items():
                    stats["erased"][k] = stats["erased"].get(k, 0) + v
            nontrivial = sum(v for k, v in counts.items() if k != "async def") > 0
            case = {"templates": templates, "main": main, "spec": spec, "cls": cls, "autoescape": ae, "undefined": undef}
            if st == "ok":
                stats["lcode_templates_ok"] += len(templates)
            elif st == "syntax":
                stats["lcode_syntax_rejected"] += 1
            # --- end-to-end
            base, outs, diffs = L.oracle(jinja2, runner, cls, templates, main, spec, ae, modes, env_kw)
            stats["renders"] += len(outs)
            if base and base[0] == "ok":
                stats["base_ok"] += 1
            elif base:
                stats["base_err"][base[1]] = stats["base_err"].get(base[1], 0) + 1
            if nontrivial:
                distinct.add(phash(templates, cls, ae))
            d = dict(outs)
            mixed_chain_join = None
            for a, b in diffs:
                stats["e2e_differences"] += 1
                shape = a.split(":")[-1]
                if (cls == "NativeEnvironment" and a.startswith("sync:render:") and d[a][0] == "err" and d[b][0] == "err"
                        and d[b] == d.get(f"sync:generate:{shape}")):
                    # not async against sync: the sync environment's own render and generate disagree in the same way
                    res.violate("C09:e2e:NativeEnvironment:render-concat-order",
                                f"NativeEnvironment undefined={undef}: {a} raises {d[a][1]} but sync generate and every async entry point raise "
                                f"{d[b][1]} for {templates[main][:300]!r} — NativeTemplate.render feeds the running generator to native_concat, "
                                "so a piece whose str() raises is reported before a later error of the template; render_async collects the "
                                "pieces first", dict(case, first=a, second=b, outputs={k: list(v) for k, v in outs}))
                    continue
                if mixed_chain_join is None:
                    # one specific cause is recognised (genuine, recorded as a known finding): under a per-name autoescape decision a
                    # template of the chain that is compiled with ANOTHER decision than the rendered one folds `constants|join` at
                    # compile time in sync mode (its own decision), while async mode cannot fold the async-variant filter and runs
                    # it under the rendered template's decision.  Recognised by re-running the case with the rendered template's
                    # decision for every name: the difference must vanish.
                    mixed_chain_join = False
                    if ae in ("select", "lambda") and main.endswith(".html") and any("|join" in t for n, t in templates.items() if n != main):
                        _, outs_u, diffs_u = L.oracle(jinja2, runner, cls, templates, main, spec, True, modes, env_kw)
                        stats["renders"] += len(outs_u)
                        mixed_chain_join = not diffs_u
                if mixed_chain_join:
                    res.violate("C09:e2e:mixed-autoescape-chain:join-folded",
                                f"{cls} autoescape={ae} (decides per template name): {a} gives {d[a]!r} but {b} gives {d[b]!r} for "
                                f"{templates[main][:200]!r}; with one decision for every name all entry points agree — sync mode folds "
                                "`constants|join` of an inherited/imported template under that template's own decision, async mode runs "
                                "the filter under the rendered template's", dict(case, first=a, second=b, outputs={k: list(v) for k, v in outs}))
                    continue
                res.violate(diff_key(cls, b), f"{cls} autoescape={ae}: {a} gives {d[a]!r} but {b} gives {d[b]!r} for {templates[main][:300]!r}",
                            dict(case, first=a, second=b, outputs={k: list(v) for k, v in outs}))
            if st in ("not-erasable", "differs"):
                stats["lcode_differences"] += 1
                what = (f"async-mode code of template {detail!r} keeps async constructs the erasure does not know" if st == "not-erasable" else
                        f"template {detail[0]!r}: async code with async constructs erased is {detail[2]!r} where the sync code is {detail[1]!r}")
                if not diffs:
                    # the tie between the two code generators broke on this program: search its neighbourhood for a failing input
                    found = False
                    stats["intensified"] = stats.get("intensified", 0) + 1
                    for k in range(40 if stats["intensified"] <= 12 else 0):
                        spec2 = G.data_spec(ctx.rng("intensify", phash(templates, cls, ae), k))
                        base2, outs2, diffs2 = L.oracle(jinja2, runner, cls, templates, main, spec2, ae, L.MODES, env_kw)
                        stats["renders"] += len(outs2)
                        if diffs2:
                            d2 = dict(outs2)
                            a, b = diffs2[0]
                            res.violate(diff_key(cls, b), f"{cls}: {a} gives {d2[a]!r} but {b} gives {d2[b]!r} for {templates[main][:300]!r} ({what})",
                                        dict(case, spec=spec2, first=a, second=b))
                            found = True
                            break
                    if not found:
                        res.violate(f"C09:lcode:{st}:{(detail if st == 'not-erasable' else detail[0]).split(':')[-1].strip()[:40]}", what,
                                    dict(case, correspondence="L-code: erase(async code) = sync code", detail=detail), no_input=True)
            for f in feats:
                stats["features"][f] = stats["features"].get(f, 0) + 1
            if len(samples) < 3 and nontrivial and base and base[0] == "ok":
                samples.append({"templates": templates, "cls": cls, "autoescape": ae, "baseline": base[1][:200]})

    def classes_for(i):
        if not ctx.quick:
            return L.CLASSES
        return ["Environment", L.CLASSES[1 + i % 3]] if i % 2 == 0 else [L.CLASSES[1 + i % 3]]

    # corpus: minimised past findings, replayed first
    one({"main": "a{{ missing }}b{{ 1 // zero }}"}, "main", {"zero": 0}, {"corpus"}, ["NativeEnvironment", "Environment"], False, [L.MODES[0]],
        undef="StrictUndefined")
    for i in range(n_pg):
        pg = G.PG(rng, pools)
        templates, main, feats = pg.make(rng.randrange(1, 4))
        spec = G.data_spec(rng)
        ae = rng.choice([False, False, True, True, "select", "lambda"])
        if ae in ("select", "lambda"):
            # a callable autoescape decides per template name: the main template is loaded as x.html (on) or x.txt (off); base / lib / inc
            # have no extension (off)
            main = rng.choice(["x.html", "x.txt"])
            templates[main] = templates.pop("main")
            feats = feats | {"autoescape-callable"}
        one(templates, main, spec, feats, classes_for(i), ae, L.MODES)
    for i in range(n_tg):
        tg = TG(rng)
        templates, main = tg.make_set()
        one(templates, main, tg.data(), {"tg-set"}, classes_for(i), rng.random() < 0.3, [L.MODES[0]])
    wrappers = ["{{ %s }}", "{%% set q = %s %%}{{ q }}", "{%% if %s %%}T{%% else %%}F{%% endif %%}", "{%% for q in [%s] %%}{{ q }}{%% endfor %%}",
                "{{ 'x'|default(%s) ~ (none|default(%s, true)) }}", "{%% macro m(a=%s) %%}{{ a }}{%% endmacro %%}{{ m() }}",
                "{%% filter upper %%}{{ %s }}{%% endfilter %%}", "{%% with w = %s %%}{{ w }}{%% endwith %%}"]
    for i in range(n_ex):
        w = rng.choice(wrappers)
        e = rng.choice(pools[rng.choice(list(pools))])
        one({"main": w % ((e,) * w.count("%s"))}, "main", G.data_spec(rng), {"expr-wrapper"}, classes_for(i), rng.random() < 0.5, L.MODES[:2])
    stats["distinct"] = len(distinct)
    stats["samples"] = samples
    return stats


# ------------------------------------------------------------------------------------------------------------------
# E. every @async_variant pair, sync vs async directly (lists / generators / async generators; arguments not modified)
# ------------------------------------------------------------------------------------------------------------------

PAIR_TEMPLATES = {
    "unique": ["{{ v|unique|list }}", "{{ s|unique(case_sensitive=true)|list }}", "{{ d|unique(attribute='k')|map(attribute='v')|list }}"],
    "join": ["{{ v|join(',') }}", "{{ s|join }}", "{{ d|join('+', attribute='v') }}", "{{ m|join(mk) }}"],
    "first": ["{{ v|first }}", "{{ s|first|default('U') }}"],
    "slice": ["{{ v|slice(2)|list }}", "{{ v|slice(3, 'F')|map('list')|list }}"],
    "groupby": ["{{ d|groupby('k')|list }}", "{{ d|groupby('k', case_sensitive=true)|map(attribute='list')|list }}", "{{ d|groupby('v', default=0)|map('first')|list }}"],
    "sum": ["{{ v|sum }}", "{{ v|sum(start=5) }}", "{{ d|sum(attribute='v') }}", "{{ ll|sum(start=st) }}|{{ st }}"],
    "list": ["{{ v|list }}", "{{ s|list }}"],
    "map": ["{{ v|map('string')|list }}", "{{ d|map(attribute='v')|list }}", "{{ d|map(attribute='zz', default=9)|list }}", "{{ s|map('upper')|map('length')|list }}"],
    "select": ["{{ v|select('odd')|list }}", "{{ v|select|list }}", "{{ v|select('gt', 2)|list }}"],
    "reject": ["{{ v|reject('odd')|list }}", "{{ s|reject|list }}"],
    "selectattr": ["{{ d|selectattr('v')|map(attribute='k')|list }}", "{{ d|selectattr('v', 'gt', 1)|list|length }}"],
    "rejectattr": ["{{ d|rejectattr('v')|map(attribute='k')|list }}", "{{ d|rejectattr('k', 'eq', 'a')|list|length }}"],
}


# the ORIGINAL variables again, after the filter (list-shaped data only: generators are one-shot)
AGAIN = ("|{{ v|list }}{{ v|length }}{{ v[0] }}|{{ s|join(',') }}|{{ d|map(attribute='k')|join }},{{ d|map(attribute='v')|join }}"
         "|{% for q in d %}{{ q.k }}{{ q.v }};{% endfor %}|{{ ll|list }}{% for q in ll %}{{ q|join }}.{% endfor %}")
MUTATE = ("{% if ys.sort is defined %}{% do ys.sort() %}{% endif %}{% if ys.pop is defined and ys %}{% do ys.pop() %}{% endif %}"
          "{% if ys.append is defined %}{% do ys.append(1) %}{% endif %}")
# iterable consumers without an async variant: the same value must look the same afterwards in both modes
CONSUMER_TEMPLATES = {
    "sort": ["{{ v|sort }}", "{{ d|sort(attribute='k')|map(attribute='v')|list }}", "{{ s|sort(reverse=true) }}"], "reverse": ["{{ v|reverse|list }}"],
    "batch": ["{{ v|batch(2)|list }}"], "min": ["{{ v|min }}", "{{ d|min(attribute='v') }}"], "max": ["{{ s|max }}"], "last": ["{{ v|last }}"],
    "length": ["{{ d|length }}"], "dictsort": ["{{ {'b': 1, 'a': 2}|dictsort }}"], "tojson": ["{{ d|tojson }}"], "random": ["{{ (v|random) is defined }}"],
    "items": ["{{ d|first|default({})|items|list }}"], "urlencode": ["{{ ll|map('string')|map('list')|list|length }}"],
}


def deep_snapshot(v):
    if isinstance(v, list):
        return ["list", id(v)] + [deep_snapshot(x) for x in v]
    if isinstance(v, dict):
        return ["dict", id(v)] + [[k, deep_snapshot(x)] for k, x in v.items()]
    return v


def strip_ids(sn):
    if isinstance(sn, list):
        if sn and sn[0] in ("list", "dict") and len(sn) > 1 and isinstance(sn[1], int):
            return [sn[0]] + [strip_ids(x) for x in sn[2:]]
        return [strip_ids(x) for x in sn]
    return sn


def pair_sweep(ctx, res, jinja2, runner, boost):
    rng = ctx.rng("pairs")
    ext = ["jinja2.ext.do"]
    senv, aenv = jinja2.Environment(extensions=ext), jinja2.Environment(enable_async=True, extensions=ext)
    names = sorted(k for k, f in aenv.filters.items() if getattr(f, "jinja_async_variant", False))
    tests = sorted(k for k, f in aenv.tests.items() if getattr(f, "jinja_async_variant", False))
    n = 0
    work = [(name, PAIR_TEMPLATES.get(name) or (["{{ v|%s }}" % name, "{{ s|%s }}" % name, "{{ d|%s }}" % name] if not name.startswith("test:")
                                                else ["{{ v is %s }}" % name[5:]])) for name in names + ["test:" + t for t in tests]]
    work += [(name, srcs) for name, srcs in sorted(CONSUMER_TEMPLATES.items()) if name in aenv.filters]
    for name, srcs0 in work:
        srcs = []
        for src in srcs0:
            srcs.append(src)
            # the value again after the filter; and the filter's result mutated through a method call, then the value again
            srcs.append(src + AGAIN)
            if src.startswith("{{ ") and src.endswith(" }}") and "}}" not in src[3:-3]:
                srcs.append("{% set ys = " + src[3:-3] + " %}" + MUTATE + AGAIN)
        for src in srcs:
            reuse = AGAIN in src
            try:
                st, at = senv.from_string(src), aenv.from_string(src)
            except Exception as e:  # noqa
                raise core.HarnessError(f"pair template {src!r}: {e}")
            for _ in range(ctx.pick(12, 120) * boost):
                raw = {"v": [rng.randrange(0, 6) for _ in range(rng.randrange(0, 6))],
                       "s": [rng.choice(G.STRS) for _ in range(rng.randrange(0, 5))],
                       "d": [{"k": rng.choice(["a", "b", "A"]), "v": rng.randrange(0, 4)} for _ in range(rng.randrange(0, 5))],
                       "ll": [[rng.randrange(3)] for _ in range(rng.randrange(0, 4))]}
                outs = []
                forms = (("sync:list", st, "list"), ("async:list", at, "list")) if reuse else \
                    (("sync:list", st, "list"), ("sync:gen", st, "gen"), ("async:list", at, "list"), ("async:gen", at, "gen"), ("async:agen", at, "agen"))
                if name in CONSUMER_TEMPLATES:      # no async variant: an async generator is DESIGN F17, probed separately
                    forms = tuple(f for f in forms if f[2] != "agen")
                for label, tmpl, form in forms:
                    from markupsafe import Markup
                    import copy
                    fresh = copy.deepcopy(raw)
                    data = {k: (L._agen(list(x)) if form == "agen" else (y for y in list(x)) if form == "gen" else x) for k, x in fresh.items()}
                    data.update(st=[], m=[Markup("<u>"), "<b>"], mk=Markup("&"))
                    how = "render" if label.startswith("sync") else "render_async"
                    r = L.entry(runner, tmpl, how, data)
                    # what the arguments look like afterwards (a filter must leave them alone in both modes)
                    modified = sorted(k for k in raw if fresh[k] != raw[k]) if form == "list" else []
                    outs.append((label, r, list(data["st"]), modified, {k: fresh[k] for k in modified}))
                    n += 1
                for label, r, st_after, modified, now in outs[1:]:
                    ref = outs[0] if label.endswith("list") or reuse else outs[1]
                    if modified != ref[3] or (now != ref[4]):
                        res.violate(f"C09:pair:{name}:argument-modified",
                                    f"{src!r} on {raw}: after {label} the argument(s) {modified} are {now}; after {ref[0]} {ref[3] or 'nothing'} changed",
                                    {"src": src, "data": raw, "label": label, "after": now})
                    if (r, st_after) != (ref[1], ref[2]):
                        res.violate(f"C09:pair:{name}:{label}" + (":value-again" if reuse else ""),
                                    f"{src!r} on {raw}: {ref[0]} gives {ref[1]!r} (start argument afterwards {ref[2]}) but "
                                    f"{label} gives {r!r} (start argument afterwards {st_after})", {"src": src, "data": raw, "label": label})
    direct = pair_calls(ctx, res, jinja2, runner, names, boost)
    return {"evaluations": n + direct["calls"], "pairs": names, "test_pairs": tests, "consumers_with_value_again": sorted(CONSUMER_TEMPLATES),
            "direct_calls": direct}


CALL_ARGS = {"unique": ("v", ()), "join": ("s", (",",)), "first": ("v", ()), "slice": ("v", (2,)), "groupby": ("d", ("k",)), "sum": ("v", ()),
             "list": ("v", ()), "map": ("v", ("string",)), "select": ("v", ("odd",)), "reject": ("v", ("odd",)), "selectattr": ("d", ("v",)),
             "rejectattr": ("d", ("v",))}


def pair_calls(ctx, res, jinja2, runner, names, boost):
    """L-unit: every async variant called directly (Environment.call_filter) next to its sync variant on an equal argument:
    a deep snapshot of the argument (values and object identities) right after the call and again after the result has been
    consumed must be what the sync variant leaves — unchanged; and the result must not *be* the argument where the sync
    variant returns a fresh object"""
    import copy
    from jinja2.async_utils import auto_await, auto_to_list

    rng = ctx.rng("pair-calls")
    senv, aenv = jinja2.Environment(), jinja2.Environment(enable_async=True)
    sctx, actx = senv.from_string("").new_context({}), aenv.from_string("").new_context({})
    calls = 0
    for name in names:
        which, args = CALL_ARGS.get(name, ("v", ()))
        for _ in range(ctx.pick(25, 250) * boost):
            raw = {"v": [rng.randrange(0, 6) for _ in range(rng.randrange(0, 6))],
                   "s": [rng.choice(G.STRS) for _ in range(rng.randrange(0, 5))],
                   "d": [{"k": rng.choice(["b", "a", "A", "c"]), "v": rng.randrange(0, 4)} for _ in range(rng.randrange(0, 6))]}[which]
            obs = {}
            for mode, env, cx in (("sync", senv, sctx), ("async", aenv, actx)):
                arg = copy.deepcopy(raw)
                before = deep_snapshot(arg)
                try:
                    if mode == "sync":
                        result = env.call_filter(name, arg, list(args), context=cx)
                        after_call = deep_snapshot(arg)
                        same = result is arg
                        consumed = list(result) if hasattr(result, "__iter__") and not isinstance(result, (str, bytes)) else result
                    else:
                        async def go():
                            result = await auto_await(env.call_filter(name, arg, list(args), context=cx))
                            after_call = deep_snapshot(arg)
                            same = result is arg
                            if hasattr(result, "__aiter__") or (hasattr(result, "__iter__") and not isinstance(result, (str, bytes))):
                                consumed = await auto_to_list(result)
                            else:
                                consumed = result
                            return after_call, same, consumed
                        after_call, same, consumed = runner.run(go())
                    obs[mode] = (after_call == before, deep_snapshot(arg) == before, same, strip_ids(deep_snapshot(arg)), repr(consumed))
                except Exception as e:  # noqa
                    obs[mode] = ("raised", type(e).__name__)
                calls += 1
            s_, a_ = obs["sync"], obs["async"]
            if s_[0] == "raised" or a_[0] == "raised":
                if s_ != a_:
                    res.violate(f"C09:pair:{name}:call", f"{name}{args} on {raw}: sync variant {s_}, async variant {a_}", {"filter": name, "arg": raw})
                continue
            if (s_[0], s_[1]) != (a_[0], a_[1]):
                res.violate(f"C09:pair:{name}:argument-modified",
                            f"filter {name}{args} called directly on {raw}: the sync variant leaves its argument "
                            f"{'unchanged' if s_[1] else s_[3]}, the async variant leaves {'it unchanged' if a_[1] else a_[3]} "
                            f"(unchanged right after the call: sync {s_[0]}, async {a_[0]})", {"filter": name, "args": list(args), "arg": raw, "after_async": a_[3]})
            if a_[2] and not s_[2]:
                res.violate(f"C09:pair:{name}:result-is-argument",
                            f"filter {name}{args} called directly on {raw}: the async variant returns its argument object itself, the sync variant a fresh "
                            "object — mutating the result in a template modifies the caller's data in async mode only", {"filter": name, "args": list(args), "arg": raw})
            if s_[4] != a_[4]:
                res.violate(f"C09:pair:{name}:call", f"{name}{args} on {raw}: sync variant gives {s_[4]}, async variant {a_[4]}", {"filter": name, "arg": raw})
    return {"calls": calls}


# ------------------------------------------------------------------------------------------------------------------
# F. DESIGN F17: consumers without an async variant fed with the result of a producer
# ------------------------------------------------------------------------------------------------------------------

def consumer_probes(ctx, res, jinja2, runner):
    env = jinja2.Environment()
    probes = G.consumer_probes(env.filters, env.tests)
    n, found, stringified = 0, {}, 0
    for key, src in probes:
        base, outs, diffs = L.oracle(jinja2, runner, "Environment", {"main": src}, "main", G.PROBE_DATA, False, [L.MODES[0]])
        n += len(outs)
        if not diffs:
            continue
        d = dict(outs)
        a, b = diffs[0]
        ra, rb = d[a], d[b]
        if ra[0] == "ok" and rb[0] == "ok" and "generator" in ra[1].lower() and "generator" in rb[1].lower():
            stringified += 1          # the text of a generator object's repr — nothing consumed the iterable
            continue
        if a.startswith("sync") and b.startswith("sync") or a.startswith("async") and b.startswith("async"):
            res.violate(f"C09:e2e:Environment:{b}", f"{a} gives {ra!r} but {b} gives {rb!r} for {src!r}", {"templates": {"main": src}, "spec": G.PROBE_DATA})
            continue
        if key not in found:
            found[key] = (src, ra, rb)
    for key, (src, ra, rb) in sorted(found.items()):
        res.violate(f"C09:sync-only-consumer:{key}",
                    f"{src!r} with xs=[3, 1, 2]: sync mode gives {ra!r}, async mode {rb!r} — the producer returns an async generator in async "
                    f"mode and `{key}` has no async variant (DESIGN F17)",
                    {"templates": {"main": src}, "main": "main", "spec": G.PROBE_DATA, "cls": "Environment", "autoescape": False})
    # how much of a one-shot iterable each async variant consumes (laziness parity)
    names = [k for k, f in jinja2.Environment(enable_async=True).filters.items() if getattr(f, "jinja_async_variant", False)]
    lazy = {}
    for name, src in G.consumption_probes(names):
        base, outs, diffs = L.oracle(jinja2, runner, "Environment", {"main": src}, "main", G.CONSUMPTION_DATA, False, [L.MODES[2], L.MODES[3]])
        n += len(outs)
        if diffs and name not in lazy:
            d = dict(outs)
            a, b = diffs[0]
            lazy[name] = (src, a, d[a], b, d[b])
    for name, (src, a, ra, b, rb) in sorted(lazy.items()):
        res.violate(f"C09:consumption:{name}",
                    f"{src!r} with g a generator over [3, 1, 3, 2, 5, 4]: {a} gives {ra!r} but {b} gives {rb!r} — the async variant of `{name}` "
                    "consumes a different amount of its (one-shot) input than the sync filter",
                    {"templates": {"main": src}, "main": "main", "spec": G.CONSUMPTION_DATA, "cls": "Environment", "autoescape": False})
    return {"evaluations": n, "probes": len(probes), "consumers_differing": sorted(found), "generator_repr_only": stringified,
            "consumption_differing": sorted(lazy)}


# ------------------------------------------------------------------------------------------------------------------

def run(ctx, res):
    jinja2 = core.import_jinja()
    broken = bool(ctx.gen_changed or ctx.proof_broken or ctx.tie_broken)
    boost = 4 if broken else 1          # a broken proof / tie: search harder for a failing input
    runner = L.Runner()
    try:
        n_unit, unit_kinds = unit_await(ctx, res, jinja2, runner, boost)
        ex = expr_tie(ctx, res, jinja2, boost)
        pr = run_programs(ctx, res, jinja2, runner, boost)
        ps = pair_sweep(ctx, res, jinja2, runner, boost)
        cp = consumer_probes(ctx, res, jinja2, runner)
    finally:
        runner.close()
    if broken:
        # main.py adds the `C09:tie` violation only when the run found no concrete violation at all — but the known findings of this
        # property are concrete violations on every run; report the broken tie unless an *unknown* concrete violation explains it
        known = {k["key"] for k in core.load_known() if k.get("property") == ID and k.get("kind") == "known"}
        if not any(v.key not in known and not v.no_input for v in res.violations):
            res.violate("C09:tie", "; ".join([f"theorems of {m} no longer check over the regenerated inventory/guards" for m in ctx.proof_broken]
                                               + list(ctx.tie_broken) + [f"{g} differs from its baseline" for g in ctx.gen_changed]),
                        {"proof_broken": ctx.proof_broken, "tie_broken": ctx.tie_broken, "gen_changed": ctx.gen_changed,
                         "searched": "4x programs, pair sweep, consumer and consumption probes: no input on which async and sync differ"},
                        no_input=True)
    # Findings/F17.lean proves, over the present inventory, that the full-strength statements ConsumersHaveVariants and
    # LazinessPreserved are false (the model exhibits the defects the probes exhibit on the code)
    f_ok, _log = core.lake_build(["JinjaV.Findings.F17"]) if not ctx.proof_broken else (False, "")
    findings_note = ("F17 and the unique/slice laziness finding reproduce in the model (Findings/F17.lean builds)" if f_ok else
                     "Findings/F17.lean does not build: a known finding no longer reproduces in the model (or the proofs are broken)")
    res.coverage.update({
        "findings_in_model": findings_note,
        "evaluations": n_unit + ex["renders"] + pr["renders"] + ps["evaluations"] + cp["evaluations"],
        "distinct_nontrivial": pr["distinct"] + ex["expressions"],
        "rule": ("programs: generated template sets (expressions from the C02/C08 generator; calls, attribute/item access, filters and tests, "
                 "for loops with filter/else/recursive/loop.* attributes/break/continue, macros and call blocks, set/with/namespace, filter "
                 "blocks, filter chains over lists/generators/async-variant filters, include/import/extends, autoescape on/off/blocks), the "
                 "C10 template sets, and expressions in 8 statement positions; each program: (1) generated Python of every template in "
                 "both modes, async constructs erased, compared by ast; (2) rendered through render/generate/stream on a sync environment "
                 "and render/render_async/generate_async/generate on an async environment of the same class with plain data, callables as "
                 "coroutine functions, iterables as generators / async generators — all results must be equal. Non-trivial = the async "
                 "code of the program contains at least one erased construct besides `async def` (distinct by program+class+autoescape). "
                 "Plus: `{{ e }}` in both modes against the Lean pipeline; async_utils / async-variant shapes / AsyncLoopContext against "
                 "Model/Await.lean; every registered @async_variant filter sync vs async over lists/generators/async generators; every "
                 "registered filter/test and the syntactic consumers applied to the result of every producer (DESIGN F17)"),
        "samples": pr.pop("samples"),
        "programs": int(pr.get("programs", 0)), "program_stats": pr, "expressions": ex, "unit": {"evaluations": n_unit, "kinds": unit_kinds}, "pairs": ps, "consumer_probes": cp,
        "boost": boost,
    })


def replay(ctx, case):
    jinja2 = core.import_jinja()
    c = case["case"]
    runner = L.Runner()
    try:
        if "templates" in c and "spec" in c:
            undef = c.get("undefined", "Undefined")
            base, outs, diffs = L.oracle(jinja2, runner, c.get("cls", "Environment"), c["templates"], c.get("main", "main"), c["spec"],
                                         c.get("autoescape", False), L.MODES, {} if undef == "Undefined" else {"undefined": getattr(jinja2, undef)})
            return {"outputs": {k: list(v) for k, v in outs}, "differences": diffs}
        return c
    finally:
        runner.close()
