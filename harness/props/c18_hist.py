"""C18 — call HISTORIES inside one sandboxed environment.

The matrix in c18.py reaches every recording callable on its own (one long-lived callable per render).  This family
generates sequences of calls in the same environment: short-lived SAFE callables first (bound methods made by
attribute access, fresh closures / functools.partial objects / callable instances handed out per access, callables
passed to one render and dropped afterwards), then a short-lived UNSAFE one of the same kind, so that the second object
is very likely allocated where the first one lived (same id()).  Any state the sandbox keeps between calls that is keyed
by something weaker than the callable itself (id, repr, name, position) lets the unsafe one through.

Oracle = the property's own: the recording unsafe callable never ran, and the render that reaches it unconditionally
ends in SecurityError.  Nothing of jinja is re-implemented here.
"""
from __future__ import annotations

import asyncio
import functools

# ---------------------------------------------------------------------------------------------------------------------
# routes: how one call of attribute M of object expression O is written.  {n} is a per-step unique number.
ROUTES = [
    ("direct", "{{{{ {O}.{M}() }}}}"),
    ("direct-args", "{{{{ {O}.{M}(1, k=2) }}}}"),
    ("set-alias", "{{% set a{n} = {O} %}}{{{{ a{n}.{M}() }}}}"),
    ("set-result", "{{% set r{n} = {O}.{M}() %}}{{{{ r{n} }}}}"),
    ("set-callable", "{{% set g{n} = {O}.{M} %}}{{{{ g{n}() }}}}"),
    ("with-alias", "{{% with a{n} = {O} %}}{{{{ a{n}.{M}() }}}}{{% endwith %}}"),
    ("with-callable", "{{% with g{n} = {O}.{M} %}}{{{{ g{n}() }}}}{{% endwith %}}"),
    ("macro-obj", "{{% macro m{n}(x) %}}{{{{ x.{M}() }}}}{{% endmacro %}}{{{{ m{n}({O}) }}}}"),
    ("macro-callable", "{{% macro m{n}(c) %}}{{{{ c() }}}}{{% endmacro %}}{{{{ m{n}({O}.{M}) }}}}"),
    ("macro-default", "{{% macro m{n}(c={O}.{M}) %}}{{{{ c() }}}}{{% endmacro %}}{{{{ m{n}() }}}}"),
    ("call-block-body", "{{% macro w{n}() %}}[{{{{ caller() }}}}]{{% endmacro %}}{{% call w{n}() %}}{{{{ {O}.{M}() }}}}{{% endcall %}}"),
    ("call-block-target", "{{% call {O}.{M}() %}}x{{% endcall %}}"),
    ("caller-arg", "{{% macro w{n}() %}}{{{{ caller({O}.{M}) }}}}{{% endmacro %}}{{% call(c) w{n}() %}}{{{{ c() }}}}{{% endcall %}}"),
    ("filter-arg", "{{{{ none|default({O}.{M}()) }}}}"),
    ("filter-arg-kw", "{{{{ none|default(default_value={O}.{M}()) }}}}"),
    ("filter-after-safe", "{{{{ {O}.{S}()|default({O}.{M}()) }}}}"),
    ("attr-filter", "{{{{ ({O}|attr('{M}'))() }}}}"),
    ("map-attr", "{{% for c in [{O}]|map(attribute='{M}') %}}{{{{ c() }}}}{{% endfor %}}"),
    ("item", "{{{{ {O}['{M}']() }}}}"),
    ("test-arg", "{{{{ 1 is eq({O}.{M}()) }}}}"),
    ("if-test", "{{% if {O}.{M}() %}}y{{% endif %}}"),
    ("cond-expr", "{{{{ {O}.{M}() if true else 0 }}}}"),
    ("loop-body", "{{% for i in range({K}) %}}{{{{ {O}.{M}() }}}}{{% endfor %}}"),
    ("loop-var", "{{% for x in [{O}] %}}{{{{ x.{M}() }}}}{{% endfor %}}"),
    ("loop-callables", "{{% for c in [{O}.{S}, {O}.{M}] %}}{{{{ c() }}}}{{% endfor %}}"),
    ("loop-iter-arg", "{{% for i in range({O}.{M}() and 1) %}}i{{% endfor %}}"),
    ("nested-call", "{{{{ ok({O}.{M}()) }}}}"),
    ("star-args", "{{{{ {O}.{M}(*[1, 2]) }}}}"),
    ("dstar-args", "{{{{ {O}.{M}(**{{'a': 1}}) }}}}"),
    ("set-block", "{{% set v{n} %}}{{{{ {O}.{M}() }}}}{{% endset %}}{{{{ v{n} }}}}"),
    ("filter-block", "{{% filter upper %}}{{{{ {O}.{M}() }}}}{{% endfilter %}}"),
    ("block", "{{% block b{n} %}}{{{{ {O}.{M}() }}}}{{% endblock %}}"),
    ("import-macro", "{{% import 'lib' as lib{n} %}}{{{{ lib{n}.run({O}.{M}) }}}}"),
    ("getattr-chain", "{{{{ ok2().{M}() }}}}"),
]
ROUTE_NAMES = [r for r, _ in ROUTES]
ROUTE_SRC = dict(ROUTES)

OBJ_EXPRS = ["acc", "d.acc", "d['acc']", "l[0]", "holder.acc"]

# kinds of short-lived callable; attribute names are <kind>_<marker>
KINDS = ["meth", "fn", "partial", "obj"]
SAFE = ["safe", "safe2"]
UNSAFE_DEFAULT = ["unsafe", "alters", "altersnu"]      # refused by the default is_safe_callable
UNSAFE_CUSTOM = ["deny", "named"]                      # refused only by the overridden checks


def mk_account(log, safe_runs):
    """an object every callable attribute of which is created anew on each access and recorded when it runs"""

    def body(name, safe):
        def run(*a, **k):
            (safe_runs if safe else log).append(name)
            return "23" if safe else "ran"
        return run

    def mark(f, marker):
        if marker == "unsafe":
            f.unsafe_callable = True
        elif marker == "alters":
            f.alters_data = True
        elif marker == "altersnu":
            f.alters_data = True
            f.unsafe_callable = False
        elif marker == "deny":
            f.deny = True
        return f

    class Inst:
        def __init__(self, name, marker):
            self._run = body(name, marker in SAFE)
            mark(self, marker)
            if marker == "named":
                self.__name__ = "drop_everything"

        def __call__(self, *a, **k):
            return self._run(*a, **k)

    class Account:
        # bound methods: a new method object per attribute access, freed right after the call
        def meth_safe(self, *a, **k):
            safe_runs.append("meth_safe")
            return "23"

        def meth_safe2(self, *a, **k):
            safe_runs.append("meth_safe2")
            return "7"

        def meth_unsafe(self, *a, **k):
            log.append("meth_unsafe")
            return "ran"
        meth_unsafe.unsafe_callable = True

        def meth_alters(self, *a, **k):
            log.append("meth_alters")
            return "ran"
        meth_alters.alters_data = True

        def meth_altersnu(self, *a, **k):
            log.append("meth_altersnu")
            return "ran"
        meth_altersnu.alters_data = True
        meth_altersnu.unsafe_callable = False

        def meth_deny(self, *a, **k):
            log.append("meth_deny")
            return "ran"
        meth_deny.deny = True

        def drop_everything(self, *a, **k):
            log.append("meth_named")
            return "ran"
        meth_named = property(lambda self: self.drop_everything)

        def __getattr__(self, name):
            kind, _, marker = name.partition("_")
            if kind not in ("fn", "partial", "obj") or marker not in SAFE + UNSAFE_DEFAULT + UNSAFE_CUSTOM:
                raise AttributeError(name)
            if kind == "fn":
                f = body(name, marker in SAFE)
                if marker == "named":
                    f.__name__ = "drop_everything"
                return mark(f, marker)
            if kind == "partial":
                f = functools.partial(body(name, marker in SAFE))
                if marker == "named":
                    f.__name__ = "drop_everything"
                return mark(f, marker)
            return Inst(name, marker)

    return Account()


def custom_env_class(sandbox):
    class Custom(sandbox.SandboxedEnvironment):
        """overridden safety check: additionally rejects anything carrying `deny` or called drop_*"""

        def is_safe_callable(self, obj):
            if getattr(obj, "deny", False) or str(getattr(obj, "__name__", "")).startswith("drop_"):
                return False
            return super().is_safe_callable(obj)
    return Custom


def env_factories(jinja2, sandbox):
    loader = jinja2.DictLoader({"lib": "{% macro run(c) %}{{ c() }}{% endmacro %}"})
    Custom = custom_env_class(sandbox)
    return [
        ("sandboxed", lambda: sandbox.SandboxedEnvironment(loader=loader)),
        ("sandboxed-async", lambda: sandbox.SandboxedEnvironment(loader=loader, enable_async=True)),
        ("immutable", lambda: sandbox.ImmutableSandboxedEnvironment(loader=loader)),
        ("custom-check", lambda: Custom(loader=loader)),
        ("custom-check-async", lambda: Custom(loader=loader, enable_async=True)),
    ]


def step_src(route, obj, attr, safe_attr, k, n):
    return ROUTE_SRC[route].format(O=obj, M=attr, S=safe_attr, K=k, n=n)


def gen_history(rng, custom):
    """one history: a list of renders, each a list of steps (route, obj, attr, safe_attr, k); the last step of the
    last render is the unsafe call, everything before it is safe"""
    kind = rng.choice(KINDS)
    marker = rng.choice(UNSAFE_DEFAULT + (UNSAFE_CUSTOM if custom else []))
    mixed = rng.random() < 0.2
    n = [0]

    def step(attr_marker):
        k = kind if (attr_marker == marker or not mixed) else rng.choice(KINDS)
        n[0] += 1
        return {"route": rng.choice(ROUTE_NAMES), "obj": rng.choice(OBJ_EXPRS), "attr": f"{k}_{attr_marker}",
                "safe_attr": f"{kind}_{rng.choice(SAFE)}", "k": rng.choice([1, 2, 3, 5]), "n": n[0]}

    shape = rng.choice(["one-render", "one-render", "two-renders", "three-renders"])
    renders = []
    if shape != "one-render":
        for _ in range(1 if shape == "two-renders" else 2):
            renders.append([step(rng.choice(SAFE)) for _ in range(rng.choice([1, 2, 3]))])
    last = [step(rng.choice(SAFE)) for _ in range(rng.choice([0, 1, 2]) if renders else rng.choice([1, 1, 2, 3]))]
    last.append(step(marker))
    renders.append(last)
    return {"kind": kind, "marker": marker, "shape": shape, "renders": renders,
            "sources": [rng.choice(["", "a ", "\n"]).join(step_src(s["route"], s["obj"], s["attr"], s["safe_attr"], s["k"], s["n"])
                                                          for s in r) for r in renders]}


def run_history(env, sources, keep_templates=False):
    """render the sources one after the other in `env`, each with a fresh Account; returns
    (outcomes per render, unsafe log, number of safe calls that ran)"""
    from jinja2.exceptions import SecurityError
    log, safe_runs, outcomes = [], [], []
    for src in sources:
        acc = mk_account(log, safe_runs)

        class H:
            pass

        h = H()
        h.acc = acc
        data = {"acc": acc, "d": {"acc": acc}, "l": [acc], "holder": h, "ok": lambda x=None: "ok", "ok2": lambda: acc}
        try:
            t = env.from_string(src)
            out = asyncio.run(t.render_async(**data)) if env.is_async else t.render(**data)
            outcomes.append("rendered")
        except SecurityError:
            outcomes.append("SecurityError")
        except Exception as e:  # noqa
            outcomes.append(type(e).__name__)
        del data, h, acc
    return outcomes, log, len(safe_runs)


def run(ctx, res, jinja2, sandbox, structural=None):
    """generates and runs the histories; returns a coverage dict"""
    per_env = ctx.pick(160, 1200)
    evaluations, distinct, reported = 0, set(), 0
    outcomes, routes_hit, kinds_hit, shapes_hit, markers_hit = {}, {}, {}, {}, {}
    safe_calls = unexpected = hits = 0
    samples = []
    for envname, mk in env_factories(jinja2, sandbox):
        rng = ctx.rng("history", envname)
        reported = 0          # at most 3 reported keys per environment kind; the rest is counted
        shared = mk()
        for i in range(per_env):
            h = gen_history(rng, envname.startswith("custom"))
            # mostly a fresh environment per history (self-contained replay), sometimes the long-lived shared one
            use_shared = rng.random() < 0.25
            env = shared if use_shared else mk()
            if structural is not None and i % 4 == 0:
                for src in h["sources"]:
                    sv = structural(env.compile(src, raw=True), sandboxed=True)
                    if sv:
                        res.violate(f"C18:structural:{sv[0][0]}:history", f"generated code of {src!r} calls outside the sandbox: "
                                    f"{sv[0][1]}", {"src": src, "env": envname, "snippets": sv[:3]})
            outs, log, nsafe = run_history(env, h["sources"])
            evaluations += 1
            last = h["renders"][-1][-1]
            distinct.add((envname, tuple(h["sources"])))
            safe_calls += nsafe
            for k, dct in ((last["route"], routes_hit), (h["kind"], kinds_hit), (h["shape"], shapes_hit), (h["marker"], markers_hit)):
                dct[k] = dct.get(k, 0) + 1
            final = outs[-1]
            outcomes[final] = outcomes.get(final, 0) + 1
            if len(samples) < 3 and i % 50 == 7:
                samples.append({"env": envname, "sources": h["sources"], "outcomes": outs})
            case = {"family": "history", "env": envname, "shared_env": use_shared, "sources": h["sources"],
                    "kind": h["kind"], "marker": h["marker"], "route": last["route"], "outcomes": outs, "log": log[:3]}
            key = f"C18:history:{last['route']}:{h['kind']}-{h['marker']}"
            if log:
                hits += 1
                if reported < 3:
                    before = len(res.violations)
                    res.violate(key, f"{envname}: after {nsafe} safe short-lived call(s) in the same environment, rendering "
                                f"{h['sources'][-1]!r} invoked the {h['kind']}_{h['marker']} callable (log {log[:2]}, outcomes {outs})", case)
                    reported += len(res.violations) - before
            elif final == "rendered":
                hits += 1
                if reported < 3:
                    before = len(res.violations)
                    res.violate(key + ":no-error", f"{envname}: rendering {h['sources'][-1]!r} reached the call of "
                                f"{h['kind']}_{h['marker']} and finished without SecurityError", case)
                    reported += len(res.violations) - before
            elif final != "SecurityError" or any(o != "rendered" for o in outs[:-1]):
                unexpected += 1
    return {
        "history_evaluations": evaluations, "history_distinct": len(distinct), "history_safe_calls_run": safe_calls,
        "history_final_outcomes": outcomes, "history_unexpected_outcomes": unexpected, "history_unsafe_ran_or_unrefused": hits,
        "history_routes": routes_hit, "history_kinds": kinds_hit, "history_shapes": shapes_hit, "history_markers": markers_hit,
        "history_samples": samples,
    }


def replay(ctx, case, jinja2, sandbox):
    mk = dict(env_factories(jinja2, sandbox))[case["env"]]
    # the original may have run in an environment with a longer history; replay a few times in one environment
    env = mk()
    runs = []
    for _ in range(3):
        outs, log, nsafe = run_history(env, case["sources"])
        runs.append({"outcomes": outs, "unsafe_ran": log, "safe_calls": nsafe})
    return {"case": case, "replayed": runs, "violates": any(r["unsafe_ran"] or r["outcomes"][-1] == "rendered" for r in runs)}
