"""C37 — concurrent async renders do not interfere.

  L-unit  the `_module` protocol: n coroutines call Template._get_default_module_async() / make_module_async() on one
          template whose module body suspends `cost` times, resumed one at a time in an enumerated / random order by a
          hand-written scheduler (`coro.send(None)`: one send = one step of the model); the number of `_module`
          assignments (counted by a Template subclass overriding __setattr__), which tasks finished, what each received
          and the final slot are compared with the Lean model's `runSched` under the same schedule.
  L-e2e   2-3 concurrent render_async calls of generated templates (shared imports with and without context, macros,
          call blocks, namespaces, loop state, includes, inheritance), data functions suspend at gates; gate-release orders
          are enumerated depth first (stateless replay) and sampled at random; each task's text is compared with the text
          of the same render alone on a fresh environment; a sample is repeated under a real asyncio loop.
  L-e2e (autoescape)  a library imported without context (one cached module, shared Macro objects) whose macro bodies await a
          gate, called from 2-3 renders with different effective autoescape (.html/.txt under select_autoescape, autoescape
          true/false blocks, volatile `{% autoescape flag %}`, call blocks); every release order enumerated (capped), each
          task compared with its solo render.
  shared  before/after every e2e schedule the attributes of the Environment, its loader and every cached Template are
          snapshotted: the only writes allowed are Template._module and entries of the template cache.
"""
from __future__ import annotations

import asyncio
import itertools

import translate.module_protocol
from harness import core
from harness.core import Atom

ID = "C37"
LEAN_MODULES = ["JinjaV.Props.C37"]
GEN = [translate.module_protocol.gen]
LEVEL = "proof"
TRUSTED = [
    "Model/AsyncTasks.lean: tasks = private state + one shared `_module` slot per template, switching at suspension points "
    "only; a hand-written abstraction of a render (emit / await / import), tied by the L-unit protocol correspondence and "
    "by the end-to-end runs; `make_module_async()` is taken to be a deterministic function of the template and its globals",
    "translate/module_protocol.py reads _get_default_module_async and the self-assignments of Template / Environment "
    "render-path methods; the list of Environment methods on the render path is hand-chosen",
    "the scheduler of the checks resumes one suspended coroutine at a time (coroutine.send); asyncio is assumed to do the "
    "same (a sample of schedules is repeated under a real asyncio loop)",
]
ASSUMPTIONS = [
    "data passed to concurrent renders and environment globals are not mutated by user code; imported modules have no "
    "top-level mutable state (a namespace mutated by a macro of a cached module is shared by design)",
    "single-threaded: tasks interleave at await points only",
]
CLAIM = dict(
    category="proof",
    technique="Lean 4 invariant proof over a task model (private task state + shared `_module` slots, every interleaving at "
              "suspension points) + the caching protocol and the shared writes read from environment.py and re-proved + "
              "protocol-level correspondence under enumerated schedules + end-to-end concurrent render_async under "
              "enumerated and random gate-release orders vs. solo renders + __dict__ snapshots of shared objects",
    text="Theorems (Props/C37.lean): task_state_private, step_reads_own_state_only — a step of task i changes no other "
         "task's state and is a function of task i's state and the shared slots; module_race_benign — under every "
         "interleaving of any tasks a set `_module` slot holds exactly make_module_async()'s value (module_race_is_real: "
         "two tasks do both build and assign); output_schedule_independent, concurrent_eq_alone, any_two_schedules_agree, "
         "alone_finishes, concurrent_eq_rendered_alone — under every interleaving a finished task's output equals the "
         "output of the same program rendered alone (which terminates); protocol_as_modelled, shared_writes_as_modelled — "
         "over Gen/ModuleProtocol.lean (regenerated every run) _get_default_module_async is `if _module is None: _module = "
         "await make(); return _module` with no await between assignment and return, `_module` is the only Template "
         "attribute assigned after construction, the template cache the only Environment attribute assigned on the render "
         "path, every render builds its own Context; shared_objects_immutable_after_construction - Macro, TemplateModule, "
         "the module's Context and TemplateExpression (objects hanging off a cached module, shared by all renders) assign "
         "to / mutate no attribute of self after __init__. Tie: protocol runs of 2-3 tasks x cost 0-3 x all schedules vs the "
         "Lean model (writes, finished, received value, slot); 2-3 concurrent renders of generated template sets under "
         "~200 (quick) / ~5000 (thorough) gate-release orders, each task's text compared with its solo text; a family of "
         "renders with different effective autoescape (select_autoescape by extension, autoescape true/false/volatile "
         "blocks) calling the awaiting macros of one cached library, all release orders enumerated for small cases; "
         "copy-then-mutate productions: every filter/constructor that promises a new container (|list, |sort, |unique, "
         "|reverse, |batch, |slice, |map, |select, |dictsort, |items, dict(), x[:], namespace(), .copy()) over a shared list/dict "
         "(module export, environment global, template global, shared data), the result mutated in place between await "
         "points, copy and original printed, shared inputs compared afterwards; pass_context / pass_eval_context / "
         "pass_environment callables reading names after plain/block/filter sets, with, loop targets in blocks, scoped blocks, "
         "loops, child blocks and macros, several renders of the same template; generated modules checked for module-level "
         "state and per-call _block_vars/_loop_vars (theorem local_vars_are_per_call over compiler.py); attribute "
         "snapshots of Environment/Template/loader before and after.",
    note="Partial: the model's shared-state list (= `_module` + template cache; lexer cache and spontaneous environments "
         "are compile-time) is checked by the source inventory and by snapshots on the explored runs, not proved complete; "
         "asyncio's scheduling discipline (one task runs between suspension points) is assumed; determinism of "
         "make_module_async is a hypothesis of the model (Env.make) validated by the runs; user data mutated by templates "
         "or modules with top-level mutable state are outside the property.",
    design_ref="§5 C37",
)


# --------------------------------------------------------------------------------------------------
# hand-driven scheduler: one send = resume one task up to its next gate
# --------------------------------------------------------------------------------------------------

class Gate:
    __slots__ = ()

    def __await__(self):
        yield self


GATE = Gate()


async def aw(x=1):
    await GATE
    return x


def drive(coros, choose):
    """resume one unfinished coroutine at a time; choose(step_no, active_list) -> position in active_list.
    returns (results, trace of task indices, list of option counts)"""
    n = len(coros)
    results = [None] * n
    active = list(range(n))
    trace, options = [], []
    step = 0
    while active:
        pos = choose(step, active)
        options.append(len(active))
        i = active[pos]
        trace.append(i)
        try:
            got = coros[i].send(None)
            if got is not GATE:
                raise core.HarnessError(f"task {i} suspended on something that is not a harness gate: {got!r}")
        except StopIteration as e:
            results[i] = ("ok", e.value)
            active.remove(i)
        except core.HarnessError:
            raise
        except BaseException as e:  # noqa
            results[i] = ("err", type(e).__name__ + ": " + str(e)[:80])
            active.remove(i)
        step += 1
        if step > 5000:
            raise core.HarnessError("schedule does not terminate")
    return results, trace, options


def dfs_schedules(run, cap):
    """stateless depth-first enumeration of all schedules; run(prefix_positions) -> (payload, positions, options)"""
    prefix = []
    count = 0
    while count < cap:
        payload, positions, options = run(prefix)
        count += 1
        yield payload
        # next prefix: deepest step with an untried option
        k = len(positions) - 1
        while k >= 0 and positions[k] + 1 >= options[k]:
            k -= 1
        if k < 0:
            return
        prefix = positions[:k] + [positions[k] + 1]


def chooser_from_prefix(prefix, positions_out):
    def choose(step, active):
        pos = prefix[step] if step < len(prefix) and prefix[step] < len(active) else 0
        positions_out.append(pos)
        return pos
    return choose


def chooser_random(rng, positions_out):
    def choose(step, active):
        pos = rng.randrange(len(active))
        positions_out.append(pos)
        return pos
    return choose


# --------------------------------------------------------------------------------------------------
# L-unit: the _module protocol against the Lean model
# --------------------------------------------------------------------------------------------------

def canon_module(m):
    return (str(m), tuple(sorted(k for k in m.__dict__ if not k.startswith("_"))))


def l_unit(ctx, res, cov, jinja2):
    rng = ctx.rng("unit")
    writes_log = []

    class CountingTemplate(jinja2.Template):
        def __setattr__(self, k, v):
            if k == "_module" and v is not None:
                writes_log.append(k)
            object.__setattr__(self, k, v)

    def scenario(cost, kinds, pre):
        """kinds[i] in 'd' (default module) / 'f' (fresh module); pre[i] = private gates before the import"""
        body = "".join("{{ aw(%d) }}" % (j + 1) for j in range(cost)) + "{% macro m() %}M{% endmacro %}{% set v = 7 %}B"

        def build():
            env = jinja2.Environment(enable_async=True, loader=jinja2.DictLoader({"lib": body}))
            env.template_class = CountingTemplate
            env.globals["aw"] = aw
            del writes_log[:]
            return env, env.get_template("lib")

        async def task(t, kind, k):
            for _ in range(k):
                await GATE
            m = await (t._get_default_module_async() if kind == "d" else t.make_module_async())
            return canon_module(m)
        progs = [[[Atom("a")]] * pre[i] + [[Atom(kinds[i]), 0], [Atom("e"), i]] for i in range(len(kinds))]
        return build, task, progs

    reqs, meta = [], []
    configs = []
    for n in (2, 3):
        for cost in range(0, ctx.pick(3, 4)):
            for kinds in itertools.product("df", repeat=n):
                if "d" not in kinds:
                    continue
                for pre in itertools.product(range(0, 2), repeat=n):
                    configs.append((cost, kinds, pre))
    rng.shuffle(configs)
    configs = configs[:ctx.pick(40, 400)]
    schedules = 0
    max_writes = 0
    for cost, kinds, pre in configs:
        build, task, progs = scenario(cost, kinds, pre)
        env0, t0 = build()
        solo, _, _ = drive([task(t0, "f", 0)], lambda s, a: 0)
        want_mod = solo[0][1]

        def run(prefix, build=build, task=task, kinds=kinds, pre=pre):
            env, t = build()
            positions = []
            results, trace, options = drive([task(t, kinds[i], pre[i]) for i in range(len(kinds))],
                                            chooser_from_prefix(prefix, positions))
            slot = None if t._module is None else canon_module(t._module)
            return (results, trace, len(writes_log), slot), positions, options
        for results, trace, writes, slot in dfs_schedules(run, ctx.pick(30, 120)):
            schedules += 1
            max_writes = max(max_writes, writes)
            reqs.append([Atom("tasks-run"), [cost], progs, trace])
            meta.append((cost, kinds, pre, trace, results, writes, slot, want_mod))
    replies = core.driver_batch(reqs)
    mism = 0
    for (cost, kinds, pre, trace, results, writes, slot, want_mod), rep in zip(meta, replies):
        if rep[0] != "ok":
            raise core.HarnessError(f"driver: {rep}")
        mwrites, mslots, mtasks = rep[1]
        case = {"layer": "L-unit", "cost": cost, "kinds": "".join(kinds), "pre": list(pre), "schedule": trace}
        # the property's oracle (module_race_benign): every task receives make()'s value, the slot holds it
        bad = [i for i, r in enumerate(results) if r[0] != "ok" or r[1] != want_mod]
        if bad or (slot is not None and slot != want_mod):
            res.violate("C37:module-race:value", f"under schedule {trace} ({len(kinds)} tasks, make_module_async suspends "
                        f"{cost}x, kinds {''.join(kinds)}) task(s) {bad} received {[results[i] for i in bad]} / the slot holds "
                        f"{slot}; make_module_async alone gives {want_mod}", case)
            continue
        py = [writes, slot is not None, [r[0] == "ok" for r in results]]
        model = [mwrites, len(mslots) > 0, [bool(t[0]) for t in mtasks]]
        model_vals_ok = all(list(t[1:]) == [100, i] for i, t in enumerate(mtasks))
        if py != model or not model_vals_ok:
            mism += 1
            res.violate("C37:protocol:model-vs-implementation",
                        f"_get_default_module_async and the model differ under schedule {trace} (cost {cost}, kinds "
                        f"{''.join(kinds)}, pre {list(pre)}): implementation (assignments, slot set, finished)={py}, model={model}",
                        dict(case, python=py, model=model), no_input=True)
    cov["unit"] = {"configurations": len(configs), "schedules": schedules, "mismatches": mism,
                   "max_module_assignments_in_one_schedule": max_writes}
    return schedules, schedules


# --------------------------------------------------------------------------------------------------
# L-e2e: concurrent renders vs solo renders
# --------------------------------------------------------------------------------------------------

class TGen:
    def __init__(self, rng):
        self.rng = rng
        self.features = {}
        self.n = 0

    def hit(self, f):
        self.features[f] = self.features.get(f, 0) + 1

    def fresh(self, p):
        self.n += 1
        return f"{p}{self.n}"

    def body(self, d, cx):
        return "".join(self.item(d, cx) for _ in range(self.rng.randrange(1, 4)))

    def item(self, d, cx):
        r = self.rng
        choices = ["who", "await", "awaitwho", "text"]
        if d > 0:
            choices += ["loop", "loopstate", "namespace", "macro", "callblock", "set", "if"]
            if cx.get("lib"):
                choices += ["import", "fromimport", "fromimportctx"]
            if cx.get("includes"):
                choices += ["include", "includenoctx"]
        if cx.get("inloop"):
            choices += ["x"]
        k = r.choice(choices)
        if k == "text":
            return r.choice(["a", "-", "t "])
        if k == "who":
            return "{{ who }}"
        if k == "await":
            self.hit("gate")
            return "{{ aw(%d) }}" % r.randrange(1, 5)
        if k == "awaitwho":
            self.hit("gate")
            return "{{ aw(who) }}"
        if k == "x":
            return "{{ x }}"
        if k == "loop":
            self.hit("loop")
            return "{%% for x in items %%}%s{%% endfor %%}" % self.body(d - 1, dict(cx, inloop=True))
        if k == "loopstate":
            self.hit("loop-state")
            a = r.choice(["{{ loop.index }}", "{{ loop.revindex }}", "{{ loop.cycle('p', 'q') }}", "{{ loop.changed(x % 2) }}",
                          "{{ loop.previtem }}", "{{ loop.last }}"])
            return "{%% for x in items %%}%s{{ aw(x) }}%s{%% endfor %%}" % (a, a)
        if k == "namespace":
            self.hit("namespace")
            v = self.fresh("ns")
            return ("{%% set %s = namespace(n=0, w=who) %%}{%% for x in items %%}{%% set %s.n = %s.n + x %%}{{ aw(x) }}"
                    "{%% endfor %%}{{ %s.n }}{{ %s.w }}" % (v, v, v, v, v))
        if k == "macro":
            self.hit("macro")
            m = self.fresh("m")
            return "{%% macro %s(a) %%}<{{ a }}{{ who }}%s>{%% endmacro %%}{{ %s(%d) }}{{ %s(who) }}" % (
                m, self.body(d - 1, dict(cx, inloop=False)), m, r.randrange(5), m)
        if k == "callblock":
            self.hit("call-block")
            m = self.fresh("c")
            return "{%% macro %s() %%}[{{ caller() }}{{ aw(2) }}{{ caller() }}]{%% endmacro %%}{%% call %s() %%}%s{%% endcall %%}" % (
                m, m, self.body(d - 1, cx))
        if k == "set":
            self.hit("set")
            v = self.fresh("v")
            return "{%% set %s = who ~ '%d' %%}{{ aw(1) }}{{ %s }}" % (v, r.randrange(9), v)
        if k == "if":
            return "{%% if aw(who) == who %%}%s{%% endif %%}" % self.body(d - 1, cx)
        if k == "import":
            self.hit("import")
            a = self.fresh("l")
            return '{%% import "lib" as %s %%}{{ %s.lm(who) }}{{ %s.const }}' % (a, a, a)
        if k == "fromimport":
            self.hit("from-import")
            return '{% from "lib" import lm, const %}{{ lm(2) }}{{ const }}'
        if k == "fromimportctx":
            self.hit("from-import-with-context")
            return '{% from "lib" import lw with context %}{{ lw() }}'
        if k == "include":
            self.hit("include")
            return '{% include "inc" %}'
        if k == "includenoctx":
            self.hit("include-without-context")
            return '{% include "incn" without context %}'
        raise AssertionError(k)

    def template_set(self):
        d = self.rng.randrange(1, 4)
        t = {
            "lib": "{% macro lm(a) %}({{ a }}{{ aw(3) }}){% endmacro %}{% macro lw() %}[{{ who }}{{ aw(1) }}]{% endmacro %}"
                   "{% set const = 'K' %}" + "".join("{{ aw(%d) }}" % i for i in range(self.rng.randrange(0, 3))) + "L",
            "inc": "i{{ who }}" + self.body(d - 1, {}),
            "incn": "n{{ aw(5) }}" + ("{{ aw(6) }}" if self.rng.random() < 0.5 else ""),
            "base": "<{% block b %}B{{ who }}{{ aw(1) }}{% endblock %}|{% block c %}C{% endblock %}>",
        }
        full = {"lib": True, "includes": True}
        for i in range(3):
            if self.rng.random() < 0.3:
                self.hit("extends")
                t[f"main{i}"] = ('{% extends "base" %}{% block b %}' + self.body(d, full) + "{{ super() }}{% endblock %}"
                                 + ("{% block c %}" + self.body(d, full) + "{% endblock %}" if self.rng.random() < 0.5 else ""))
            else:
                t[f"main{i}"] = self.body(d, full) + self.body(d, full)
        return t


FIXED_SETS = [
    {"lib": "{% macro lm(a) %}({{ a }}{{ aw(3) }}){% endmacro %}{{ aw(1) }}{{ aw(2) }}L",
     "main0": '{% import "lib" as l %}{{ l.lm(who) }}', "main1": '{{ aw(who) }}{% import "lib" as l %}{{ l.lm(who) }}',
     "main2": '{% from "lib" import lm %}{{ lm(who) }}{{ aw(1) }}'},
    {"lib": "{% macro lw() %}[{{ who }}{{ aw(1) }}]{% endmacro %}L{{ aw(2) }}",
     "main0": '{% from "lib" import lw with context %}{{ lw() }}', "main1": '{% from "lib" import lw with context %}{{ aw(1) }}{{ lw() }}',
     "main2": '{% import "lib" as l %}{{ who }}'},
    {"main0": "{% set ns = namespace(n=0) %}{% for x in items %}{% set ns.n = ns.n + x %}{{ aw(x) }}{{ loop.index }}{% endfor %}{{ ns.n }}",
     "main1": "{% for x in items %}{{ loop.cycle('a','b') }}{{ aw(x) }}{{ loop.changed(who) }}{% endfor %}",
     "main2": "{% macro m(a) %}<{{ a }}{{ aw(a) }}{{ who }}>{% endmacro %}{{ m(1) }}{{ m(who) }}"},
    {"inc": "i{{ who }}{{ aw(1) }}", "incn": "n{{ aw(2) }}",
     "main0": '{% include "inc" %}{% include "incn" without context %}', "main1": '{% for x in items %}{% include "inc" %}{% endfor %}',
     "main2": '{% include "incn" without context %}{{ who }}'},
]


MODULE_WRITES = []
_COUNTING = {}


def counting_template_class(jinja2):
    """a Template subclass that logs every assignment of a non-None `_module` (no source hook needed)"""
    if "cls" not in _COUNTING:
        class CountingTemplate(jinja2.Template):
            def __setattr__(self, k, v):
                if k == "_module" and v is not None:
                    MODULE_WRITES.append(self.name)
                object.__setattr__(self, k, v)
        _COUNTING["cls"] = CountingTemplate
    return _COUNTING["cls"]


def make_env(jinja2, templates, autoescape=None):
    kw = {}
    if autoescape == "select-html":
        kw["autoescape"] = jinja2.select_autoescape(["html"])
    elif autoescape is not None:
        kw["autoescape"] = bool(autoescape)
    env = jinja2.Environment(enable_async=True, loader=jinja2.DictLoader(dict(templates)), **kw)
    env.template_class = counting_template_class(jinja2)
    env.globals["aw"] = aw
    return env


def task_data(i):
    return {"who": ["A", "B", "C"][i], "items": [[1, 2, 3], [4, 5], [7]][i]}


def snapshot(env):
    """shallow identity snapshot of the shared objects"""
    snap = {}
    for k, v in env.__dict__.items():
        snap[("Environment", k)] = id(v)
    snap[("Environment", "cache-keys")] = tuple(sorted(map(repr, env.cache.keys()))) if env.cache is not None else ()
    for k, v in env.loader.__dict__.items():
        snap[("Loader", k)] = id(v)
    snap[("Environment.globals", "keys")] = tuple(sorted(env.globals))
    for key, t in list(env.cache.items()) if env.cache is not None else []:
        for k, v in t.__dict__.items():
            snap[("Template:" + str(t.name), k)] = id(v)
    return snap


def diff_snapshots(a, b):
    changed = set()
    for k in set(a) | set(b):
        if a.get(k) != b.get(k):
            kind, attr = k
            if kind.startswith("Template:") and k not in a:
                continue            # a template that was loaded during the run: covered by the cache-keys entry
            changed.add((kind.split(":")[0], attr))
    return changed


ALLOWED_WRITES = {("Template", "_module"), ("Environment", "cache-keys")}


def l_e2e(ctx, res, cov, jinja2):
    rng = ctx.rng("e2e")
    g = TGen(rng)
    sets = list(FIXED_SETS)
    for _ in range(ctx.pick(10, 42)):
        sets.append(g.template_set())
    schedules = 0
    distinct = set()
    writes_seen = {}
    solo_cache = {}
    diffs = 0
    gates_hist = {}
    races = [0]
    skipped = []
    asyncio_checked = 0
    per_scenario = ctx.pick(6, 14)
    for si, templates in enumerate(sets):
        mains = sorted(k for k in templates if k.startswith("main"))
        scenarios = [[m, m] for m in mains] + [list(mains), [mains[si % len(mains)]] * 3, [mains[0], mains[-1]]]
        for names in scenarios:
            ntasks = len(names)
            solo = []
            for i, name in enumerate(names):
                key = (si, name, i)
                if key not in solo_cache:
                    env = make_env(jinja2, templates)
                    r, tr, _ = drive([env.get_template(name).render_async(**task_data(i))], lambda s, a: 0)
                    solo_cache[key] = (r[0], len(tr) - 1)
                solo.append(solo_cache[key])
            if any(s[0][0] != "ok" for s in solo):
                skipped.append([s[0] for s in solo])
                continue
            gates = sum(s[1] for s in solo)
            gates_hist[min(gates, 40) // 5 * 5] = gates_hist.get(min(gates, 40) // 5 * 5, 0) + 1

            def run_one(chooser_factory, warm=False, preload=True, templates=templates, names=names):
                env = make_env(jinja2, templates)
                if warm:     # modules already cached by an earlier, complete render
                    drive([env.get_template(nm).render_async(**task_data(0)) for nm in names[:1]], lambda s, a: 0)
                for nm in (sorted(templates) if preload else sorted(set(names))):
                    env.get_template(nm)      # preload: every Template object exists before the snapshot
                before = snapshot(env)
                del MODULE_WRITES[:]
                positions = []
                results, trace, options = drive([env.get_template(nm).render_async(**task_data(i)) for i, nm in enumerate(names)],
                                                chooser_factory(positions))
                after = snapshot(env)
                dup = len(MODULE_WRITES) - len(set(MODULE_WRITES))
                return (results, trace, diff_snapshots(before, after), dup), positions, options

            def check(payload, how):
                nonlocal schedules, diffs
                results, trace, changed, dup = payload
                schedules += 1
                if dup:
                    races[0] += 1
                distinct.add((si, tuple(names), tuple(trace)))
                for c in changed:
                    writes_seen[f"{c[0]}.{c[1]}"] = writes_seen.get(f"{c[0]}.{c[1]}", 0) + 1
                    if c not in ALLOWED_WRITES:
                        res.violate(f"C37:shared-write:{c[0]}.{c[1]}", f"a render wrote attribute {c[1]} of a shared {c[0]} "
                                    f"object (the model's shared state is Template._module and the template cache only)",
                                    {"templates": templates, "tasks": names, "schedule": trace}, no_input=True)
                for i, (r, s) in enumerate(zip(results, solo)):
                    if r != s[0]:
                        diffs += 1
                        res.violate("C37:concurrent-differs-from-alone",
                                    f"task {i} ({names[i]}, who={task_data(i)['who']}) rendered {r!r} concurrently ({how} "
                                    f"schedule {trace}) but {s[0]!r} alone; templates {templates}",
                                    {"templates": templates, "tasks": names, "schedule": trace, "task": i, "concurrent": r,
                                     "alone": s[0]})
            n_dfs = per_scenario // 2
            for payload in dfs_schedules(lambda prefix: run_one(lambda pos: chooser_from_prefix(prefix, pos)), n_dfs):
                check(payload, "dfs")
            for k in range(per_scenario - n_dfs):
                payload, _, _ = run_one(lambda pos: chooser_random(rng, pos), warm=(k % 4 == 3), preload=(k % 2 == 0))
                check(payload, "random")
            # round-robin: every task advances one gate at a time — the schedule most likely to make all tasks build the module
            payload, _, _ = run_one(lambda pos: (lambda step, active: (pos.append(step % len(active)) or step % len(active))))
            check(payload, "round-robin")
            # the same under a real asyncio loop for the last schedule
            if asyncio_checked < ctx.pick(20, 200):
                asyncio_checked += 1
                got = run_asyncio(jinja2, templates, names, payload[1])
                for i, (r, s) in enumerate(zip(got, solo)):
                    if r != s[0]:
                        res.violate("C37:concurrent-differs-from-alone",
                                    f"under asyncio task {i} ({names[i]}) rendered {r!r} but {s[0]!r} alone; templates {templates}",
                                    {"templates": templates, "tasks": names, "schedule": payload[1], "task": i, "asyncio": True})
    if len(skipped) > max(2, len(sets) // 4):
        raise core.HarnessError(f"too many generated scenarios do not render alone: {skipped[:2]}")
    cov["e2e"] = {"scenarios_skipped_because_a_template_does_not_render_alone": len(skipped),
                  "template_sets": len(sets), "schedules": schedules, "distinct_schedules": len(distinct),
                  "differences": diffs, "shared_attribute_writes_observed": writes_seen, "gates_per_scenario_histogram": gates_hist,
                  "features": g.features, "schedules_repeated_under_asyncio": asyncio_checked,
                  "schedules_in_which_a_module_was_built_and_assigned_more_than_once": races[0]}
    return schedules, len(distinct)


def run_asyncio(jinja2, templates, names, trace):
    """replay a schedule with real tasks: gates are futures released in trace order"""
    env = jinja2.Environment(enable_async=True, loader=jinja2.DictLoader(dict(templates)))
    waiting = {}

    async def aw_real(x=1):
        t = asyncio.current_task()
        fut = asyncio.get_running_loop().create_future()
        waiting[t.get_name()] = fut
        await fut
        return x
    env.globals["aw"] = aw_real

    async def main():
        tasks = [asyncio.ensure_future(env.get_template(nm).render_async(**task_data(i))) for i, nm in enumerate(names)]
        for i, t in enumerate(tasks):
            t.set_name(f"t{i}")

        async def settle(i):
            for _ in range(200):
                if tasks[i].done() or f"t{i}" in waiting:
                    return
                await asyncio.sleep(0)
        order = list(trace)
        # first resumption of each task = start; asyncio starts all of them at once, so only the gate releases are replayed
        started = set()
        for i in order:
            if i not in started:
                started.add(i)
                await settle(i)
                continue
            await settle(i)
            fut = waiting.pop(f"t{i}", None)
            if fut is not None:
                fut.set_result(None)
                await settle(i)
        for i in range(len(tasks)):       # release whatever is left
            for _ in range(500):
                await settle(i)
                if tasks[i].done():
                    break
                fut = waiting.pop(f"t{i}", None)
                if fut is not None:
                    fut.set_result(None)
        await asyncio.wait(tasks)
        return [("ok", t.result()) if t.exception() is None else
                ("err", type(t.exception()).__name__ + ": " + str(t.exception())[:80]) for t in tasks]
    return asyncio.run(main())


# --------------------------------------------------------------------------------------------------
# L-e2e (autoescape): macros of a cached module called from renders whose effective autoescape differs
# --------------------------------------------------------------------------------------------------

ESC_DATA = [{"who": "<a&1>", "items": ["<i>", "j&"], "flag": True},
            {"who": "b<2>&", "items": ["k>"], "flag": False},
            {"who": "'c'<3", "items": ["<l", "m&", "n"], "flag": True}]

ESC_LIB_MACROS = [
    "{% macro tag(x) %}<b>{{ aw(x) }}</b>{% endmacro %}",
    "{% macro tag(x) %}<b>{{ x }}{{ aw(1) }}</b>{% endmacro %}",
    "{% macro tag(x) %}{{ aw(x) }}<b>{{ aw(x) ~ '&' }}</b>{% endmacro %}",
    "{% macro tag(x) %}<b>{% for y in [x, x] %}{{ aw(y) }}{% endfor %}</b>{% endmacro %}",
]
ESC_LIB_EXTRA = ("{% macro box() %}<div>{{ aw(2) }}{{ caller() }}</div>{% endmacro %}"
                 "{% macro rows(xs) %}{% for i in xs %}{{ loop.index }}={{ tag(i) }}{% if not loop.last %},{% endif %}{% endfor %}{% endmacro %}")

# (template name, source): the extension decides autoescape under select_autoescape(["html"])
ESC_CALLERS = [
    ("p.html", "{% from 'lib.html' import tag %}<p>{{ tag(who) }}</p>{{ who }}"),
    ("m.txt", "{% import 'lib.html' as lib %}{{ lib.tag(who) ~ ' & <' ~ who ~ '>' }};{{ who }}"),
    ("rows.html", "{% from 'lib.html' import rows %}<ul>{{ rows(items) }}</ul>"),
    ("rows.txt", "{% import 'lib.html' as lib %}{{ lib.rows(items) }}|{{ who }}"),
    ("on.txt", "{% import 'lib.html' as lib %}{% autoescape true %}{{ lib.tag(who) }}{{ who }}{% endautoescape %}{{ lib.tag(who) }}{{ who }}"),
    ("off.html", "{% from 'lib.html' import tag %}{% autoescape false %}{{ tag(who) }}{{ who }}{% endautoescape %}{{ tag(who) }}"),
    ("vol.txt", "{% import 'lib.html' as lib %}{% autoescape flag %}{{ lib.tag(who) }}{{ who }}{{ lib.tag(who) ~ who }}{% endautoescape %}"),
    ("vol.html", "{% from 'lib.html' import tag %}{% autoescape not flag %}{{ tag(who) }}{{ who }}{% endautoescape %}{{ tag(who) }}"),
    ("call.html", "{% from 'lib.html' import box %}{% call box() %}{{ who }}{{ aw(who) }}{% endcall %}"),
    ("call.txt", "{% import 'lib.html' as lib %}{% call lib.box() %}{{ who }}{% endcall %}{{ who }}"),
    ("set.txt", "{% import 'lib.html' as lib %}{% set v = lib.tag(who) %}{{ aw(1) }}{{ v ~ who }}"),
]


def l_autoescape(ctx, res, cov, jinja2):
    rng = ctx.rng("autoescape")
    scenarios = []
    # fixed: every pair of one .html-like and one .txt-like caller with the first macro body, plus the seed's shape
    fixed_pairs = [("p.html", "m.txt"), ("m.txt", "p.html"), ("on.txt", "m.txt"), ("off.html", "p.html"), ("vol.txt", "vol.txt"),
                   ("vol.html", "p.html"), ("rows.html", "rows.txt"), ("call.html", "call.txt"), ("p.html", "p.html"),
                   ("set.txt", "p.html"), ("p.html", "m.txt", "rows.html")]
    for names in fixed_pairs:
        scenarios.append((0, list(names), "select-html"))
    callers = [n for n, _ in ESC_CALLERS]
    for _ in range(ctx.pick(10, 120)):
        n = rng.choice([2, 2, 3])
        scenarios.append((rng.randrange(len(ESC_LIB_MACROS)), [rng.choice(callers) for _ in range(n)],
                          rng.choice(["select-html", "select-html", True, False])))
    schedules = 0
    distinct = set()
    diffs = 0
    exhaustive = 0
    cap = ctx.pick(70, 500)
    kinds = {}
    for macro_i, names, mode in scenarios:
        templates = {"lib.html": ESC_LIB_MACROS[macro_i] + ESC_LIB_EXTRA, **dict(ESC_CALLERS)}
        solo = []
        for i, nm in enumerate(names):
            env = make_env(jinja2, templates, mode)
            r, _, _ = drive([env.get_template(nm).render_async(**ESC_DATA[i])], lambda s, a: 0)
            solo.append(r[0])
        if any(r[0] != "ok" for r in solo):
            raise core.HarnessError(f"autoescape scenario does not render alone: {solo} {names}")
        for nm in names:
            kinds[nm] = kinds.get(nm, 0) + 1

        def run_one(chooser_factory, templates=templates, names=names, mode=mode):
            env = make_env(jinja2, templates, mode)
            positions = []
            results, trace, options = drive([env.get_template(nm).render_async(**ESC_DATA[i]) for i, nm in enumerate(names)],
                                            chooser_factory(positions))
            return (results, trace), positions, options

        def check(payload, how, templates=templates, names=names, mode=mode, solo=solo):
            nonlocal schedules, diffs
            results, trace = payload
            schedules += 1
            distinct.add((macro_i, tuple(names), str(mode), tuple(trace)))
            for i, (r, s) in enumerate(zip(results, solo)):
                if r != s:
                    diffs += 1
                    res.violate("C37:concurrent-differs-from-alone",
                                f"task {i} ({names[i]}, autoescape={mode}) rendered {r!r} concurrently ({how} schedule {trace}) but "
                                f"{s!r} alone; the macros of lib.html (imported without context: one cached module) are called "
                                f"from renders with different effective autoescape; lib {templates['lib.html'][:60]!r}, "
                                f"callers {[templates[n] for n in names]}",
                                {"templates": templates, "tasks": names, "schedule": trace, "task": i, "concurrent": r,
                                 "alone": s, "autoescape": mode, "data": "ESC_DATA"})
        n = 0
        for payload in dfs_schedules(lambda prefix: run_one(lambda pos: chooser_from_prefix(prefix, pos)), cap):
            check(payload, "dfs")
            n += 1
        if n < cap:
            exhaustive += 1
        else:
            for _ in range(ctx.pick(10, 40)):
                payload, _, _ = run_one(lambda pos: chooser_random(rng, pos))
                check(payload, "random")
        payload, _, _ = run_one(lambda pos: (lambda step, active: (pos.append(step % len(active)) or step % len(active))))
        check(payload, "round-robin")
    cov["autoescape"] = {"scenarios": len(scenarios), "schedules": schedules, "distinct_schedules": len(distinct),
                         "scenarios_with_all_release_orders_enumerated": exhaustive, "differences": diffs,
                         "caller_shapes": kinds}
    return schedules, len(distinct)


# --------------------------------------------------------------------------------------------------
# L-e2e (copy then mutate): a NEW container made from a shared one is changed in place between await points
# --------------------------------------------------------------------------------------------------

CM_LIB = "{% set palette = ['r', 'g', 'b', 'g'] %}{% set conf = {'a': 'x', 'b': 'y'} %}{% macro m() %}{{ aw(1) }}{% endmacro %}L"

# source expression -> kind; `lib.*` = export of a module imported without context (cached, shared), gl/gd = environment
# globals, tg/td = template-level globals handed to get_template, sl/sd = the same objects passed to every render as data
CM_SOURCES = {"lib.palette": "list", "gl": "list", "tg": "list", "sl": "list", "lib.conf": "dict", "gd": "dict", "td": "dict",
              "sd": "dict"}

# every filter / constructor whose contract is a new container: (expression over S, kind of the result)
CM_COPIES = {
    "list": [("S|list", "strs"), ("S|sort", "strs"), ("S|unique|list", "strs"), ("S|reverse|list", "strs"),
             ("S|batch(2)|list", "lists"), ("S|slice(2)|list", "lists"), ("S|map('upper')|list", "strs"),
             ("S|select|list", "strs"), ("S|reject('none')|list", "strs"), ("S[:]", "strs"), ("S|list|list", "strs"),
             ("(S|batch(2)|list)[0]", "strs"), ("(S|slice(2)|list)[0]", "strs")],
    "dict": [("S|dictsort", "pairs"), ("S|items|list", "pairs"), ("dict(S)", "dict"), ("namespace(S)", "ns"),
             ("S|list", "strs"), ("S.keys()|list", "strs"), ("S.values()|sort", "strs"), ("S.copy()", "dict")],
}

# in-place changes a plain Environment allows, per kind of result (W = the task's own value)
CM_MUTS = {
    "strs": ["mine.append(W)", "mine.extend([W, W])", "mine.insert(0, W)", "mine.pop()", "mine.sort()", "mine.reverse()",
             "mine.clear()", "mine.remove(mine[0])"],
    "lists": ["mine.append([W])", "mine[0].append(W)", "mine.pop()", "mine.reverse()", "mine.clear()", "mine[0].clear()"],
    "pairs": ["mine.append((W, W))", "mine.pop()", "mine.reverse()", "mine.clear()", "mine.sort(reverse=true)"],
    "dict": ["mine.update({W: W})", "mine.setdefault(W, W)", "mine.pop('a')", "mine.clear()", "mine.popitem()"],
}


def cm_template(src, copy, rkind, mut):
    imp = "{% import 'lib' as lib %}"
    copy_e = copy.replace("S", src)
    if rkind == "ns":
        change = "{% set mine.a = who %}{{ aw(2) }}{% set mine.z = who %}"
        show = "{{ mine.a }}{{ mine.z }}{{ mine.b }}"
    else:
        change = "{% set _ = " + mut.replace("W", "who") + " %}{{ aw(2) }}{% set _ = " + mut.replace("W", "who ~ '2'") + " %}"
        show = "{{ mine }}"
    return (imp + "{{ lib.m() }}{% set mine = " + copy_e + " %}{{ aw(1) }}" + change + "{{ aw(3) }}" + show + "|{{ " + src + " }}|"
            + "{{ (" + copy_e + ")|string }}")


def cm_shared():
    """fresh shared inputs (one set per environment)"""
    return {"gl": ["r", "g", "b", "g"], "gd": {"a": "x", "b": "y"}, "tg": ["r", "g", "b", "g"], "td": {"a": "x", "b": "y"},
            "sl": ["r", "g", "b", "g"], "sd": {"a": "x", "b": "y"}}


def l_copy_mutate(ctx, res, cov, jinja2):
    import copy as _copy
    rng = ctx.rng("copy-mutate")
    combos = []
    for src, skind in CM_SOURCES.items():
        for cp, rkind in CM_COPIES[skind]:
            for mut in ([None] if rkind == "ns" else CM_MUTS[rkind]):
                combos.append((src, cp, rkind, mut))
    # always: every (source, copy form) once with the first mutation; then a seeded sample / everything
    first = {}
    for c in combos:
        first.setdefault((c[0], c[1]), c)
    chosen = list(first.values())
    rest = [c for c in combos if c not in chosen]
    rng.shuffle(rest)
    chosen += rest[:ctx.pick(30, len(rest))]
    schedules = 0
    distinct = set()
    diffs = 0
    skipped = []
    forms = {}
    who = ["A", "B", "C"]
    for src, cp, rkind, mut in chosen:
        tsrc = cm_template(src, cp, rkind, mut)
        templates = {"lib": CM_LIB, "main": tsrc}
        ntasks = 3 if rng.random() < 0.25 else 2

        def build():
            env = make_env(jinja2, templates)
            sh = cm_shared()
            env.globals.update(gl=sh["gl"], gd=sh["gd"])
            t = env.get_template("main", globals={"tg": sh["tg"], "td": sh["td"]})
            return env, t, sh

        def data(i, sh):
            return {"who": who[i], "sl": sh["sl"], "sd": sh["sd"]}
        solo = []
        for i in range(ntasks):
            env, t, sh = build()
            r, _, _ = drive([t.render_async(**data(i, sh))], lambda s, a: 0)
            solo.append(r[0])
        if any(r[0] != "ok" for r in solo):
            skipped.append((tsrc, solo[0]))
            continue
        forms[cp] = forms.get(cp, 0) + 1

        def run_one(chooser_factory, build=build, data=data, ntasks=ntasks):
            env, t, sh = build()
            before = _copy.deepcopy(sh)
            positions = []
            results, trace, options = drive([t.render_async(**data(i, sh)) for i in range(ntasks)], chooser_factory(positions))
            mod = env.get_template("lib")._module
            exports = None if mod is None else {"palette": list(mod.palette), "conf": dict(mod.conf)}
            changed = [k for k in before if before[k] != sh[k]]
            if exports is not None and exports != {"palette": ["r", "g", "b", "g"], "conf": {"a": "x", "b": "y"}}:
                changed.append("lib exports")
            return (results, trace, changed), positions, options

        def check(payload, how, tsrc=tsrc, templates=templates, solo=solo, src=src, cp=cp, mut=mut, ntasks=ntasks):
            nonlocal schedules, diffs
            results, trace, changed = payload
            schedules += 1
            distinct.add((tsrc, ntasks, tuple(trace)))
            case = {"layer": "copy-mutate", "templates": templates, "tasks": ["main"] * ntasks, "schedule": trace,
                    "source": src, "copy": cp, "mutation": mut}
            if changed:
                res.violate(f"C37:shared-input-modified:{src}", f"after {ntasks} renders of {tsrc!r} (schedule {trace}) the shared "
                            f"{changed} differ from before although the template only changes `mine`, a {cp.replace('S', src)} "
                            f"(documented to be a new container)", dict(case, changed=changed))
            for i, (r, s0) in enumerate(zip(results, solo)):
                if r != s0:
                    diffs += 1
                    res.violate("C37:concurrent-differs-from-alone",
                                f"task {i} (who={who[i]}) rendered {r!r} with {ntasks - 1} other render(s) ({how} schedule {trace}) but "
                                f"{s0!r} alone: {tsrc!r} changes a {cp.replace('S', src)} in place between await points; lib = {CM_LIB!r}",
                                dict(case, task=i, concurrent=r, alone=s0))
        for payload in dfs_schedules(lambda prefix: run_one(lambda pos: chooser_from_prefix(prefix, pos)), ctx.pick(12, 60)):
            check(payload, "dfs")
        for _ in range(ctx.pick(3, 12)):
            payload, _, _ = run_one(lambda pos: chooser_random(rng, pos))
            check(payload, "random")
        payload, _, _ = run_one(lambda pos: (lambda step, active: (pos.append(step % len(active)) or step % len(active))))
        check(payload, "round-robin")
    if len(skipped) > len(chosen) // 5:
        raise core.HarnessError(f"too many copy-then-mutate templates do not render alone: {skipped[:3]}")
    cov["copy_then_mutate"] = {"productions": len(chosen), "of_all_combinations": len(combos), "schedules": schedules,
                               "distinct_schedules": len(distinct), "differences": diffs, "copy_forms": forms,
                               "skipped_because_not_renderable_alone": [s[0][:80] + " -> " + str(s[1])[:80] for s in skipped[:5]],
                               "skipped": len(skipped)}
    return schedules, len(distinct)


# --------------------------------------------------------------------------------------------------
# L-e2e (context-aware callables): what a pass_context function sees is the calling render's own names
# --------------------------------------------------------------------------------------------------

def ctx_callables(jinja2):
    @jinja2.pass_context
    def cget(c, name):
        return c.get(name, "-")

    @jinja2.pass_context
    def cres(c, name):
        v = c.resolve(name)
        return "-" if isinstance(v, jinja2.Undefined) else v

    @jinja2.pass_context
    def chas(c, name):
        return name in c

    @jinja2.pass_context
    async def acget(c, name):
        await GATE
        return c.get(name, "-")

    @jinja2.pass_eval_context
    def eauto(e, x="_"):
        return f"{int(bool(e.autoescape))}{x}"

    @jinja2.pass_environment
    def envname(env, x="_"):
        return f"{type(env).__name__[:3]}{x}"
    return dict(cget=cget, cres=cres, chas=chas, acget=acget, eauto=eauto, envname=envname)


READS = ["{{ cget('N') }}", "{{ cres('N') }}", "{{ chas('N') }}", "{{ acget('N') }}", "{{ cget('N') }}{{ eauto(who) }}{{ envname(who) }}"]

# (name, how the name gets its value, does it sit in a block/loop) — W is the task's own value
ASSIGNS = [
    ("blockset", "{% set N %}v{{ who }}{% endset %}"),
    ("plainset", "{% set N = 'v' ~ who %}"),
    ("both", "{% set N %}v{{ who }}{% endset %}{% set M = who %}"),
    ("filterset", "{% set N | upper %}v{{ who }}{% endset %}"),
]


def pc_templates(rng):
    """one template set: every assignment form x every place, reads by context-aware callables after an await"""
    out = {}
    n = 0
    for aname, assign in ASSIGNS:
        for place in ("top", "block", "scopedblock", "loop", "blockinloop", "with", "childblock", "macro"):
            read = rng.choice(READS).replace("N", "x")
            a = assign.replace("N", "x").replace("M", "y")
            core_ = a + "{{ aw(1) }}" + read + "{{ aw(2) }}" + rng.choice(READS).replace("N", "x")
            if place == "top":
                src = core_
            elif place == "block":
                src = "<{% block b %}" + core_ + "{% endblock %}>"
            elif place == "scopedblock":
                src = "{% for i in items %}{% block b scoped %}" + core_ + "{{ cget('i') }}{% endblock %}{% endfor %}"
            elif place == "loop":
                src = "{% for i in items %}" + core_ + "{{ cget('i') }}{% endfor %}"
            elif place == "blockinloop":
                src = "{% block b %}{% for i in items %}" + core_ + "{{ cget('i') }}{% endfor %}{{ cget('x') }}{% endblock %}"
            elif place == "with":
                src = "{% block b %}{% with w = who %}" + core_ + "{{ cget('w') }}{% endwith %}{% endblock %}"
            elif place == "childblock":
                out[f"base{n}"] = "[{% block b %}B{{ aw(1) }}{{ cget('x') }}{% endblock %}|{% block c %}" + core_ + "{% endblock %}]"
                src = '{%% extends "base%d" %%}{%% block b %%}%s{{ super() }}{%% endblock %%}' % (n, core_)
            else:
                src = "{% macro m() %}" + core_ + "{% endmacro %}{% block b %}{{ m() }}{{ cget('x') }}{% endblock %}"
            out[f"t{n}_{aname}_{place}"] = src
            n += 1
    return out


def module_level_check(jinja2, env, templates, res):
    """per-program tie: in the code generated for each template the only module-level statements are the runtime import,
    `name`, function definitions, `blocks = {name: function}` and `debug_info`; every block function that uses `_block_vars`
    assigns it itself, every loop body that uses `_loop_vars` assigns it itself"""
    import ast
    bad = 0
    for name, src in templates.items():
        mod = ast.parse(env.compile(src, name=name, raw=True))
        for st in mod.body:
            ok = isinstance(st, (ast.ImportFrom, ast.Import, ast.FunctionDef, ast.AsyncFunctionDef))
            if isinstance(st, ast.Assign) and len(st.targets) == 1 and isinstance(st.targets[0], ast.Name):
                tgt = st.targets[0].id
                ok = (tgt in ("name", "debug_info") and isinstance(st.value, ast.Constant)) or (
                    tgt == "blocks" and isinstance(st.value, ast.Dict) and all(isinstance(v, ast.Name) for v in st.value.values))
            if not ok:
                bad += 1
                res.violate("C37:generated-module:shared-mutable", f"the module generated for {src!r} has the module-level statement "
                            f"`{ast.unparse(st)[:60]}`: state there is shared by every render of the template",
                            {"template": src, "statement": ast.unparse(st)}, no_input=True)
        for fn in ast.walk(mod):
            if isinstance(fn, (ast.FunctionDef, ast.AsyncFunctionDef)):
                own = [n for n in fn.body if isinstance(n, ast.Assign) and any(isinstance(t, ast.Name) and t.id == "_block_vars"
                                                                                for t in n.targets)]
                uses = any(isinstance(n, ast.Name) and n.id == "_block_vars" and isinstance(n.ctx, ast.Load) for n in ast.walk(fn))
                if fn.name.startswith("block_") and uses and not own:
                    bad += 1
                    res.violate("C37:generated-module:block-vars-not-per-call", f"{fn.name} generated for {src!r} reads `_block_vars` "
                                f"without creating it in the call", {"template": src, "function": fn.name}, no_input=True)
            if isinstance(fn, (ast.For, ast.AsyncFor)):
                uses = any(isinstance(n, ast.Name) and n.id == "_loop_vars" for st in fn.body for n in ast.walk(st))
                own = any(isinstance(st, ast.Assign) and ast.unparse(st) == "_loop_vars = {}" for st in fn.body)
                if uses and not own:
                    bad += 1
                    res.violate("C37:generated-module:loop-vars-not-per-iteration", f"a loop generated for {src!r} uses `_loop_vars` "
                                f"without creating it in the body (once per iteration)", {"template": src}, no_input=True)
    return bad


def l_pass_context(ctx, res, cov, jinja2):
    rng = ctx.rng("pass-context")
    callables = ctx_callables(jinja2)
    schedules = 0
    distinct = set()
    diffs = 0
    checked_modules = 0
    bad_modules = 0
    places = {}
    for round_ in range(ctx.pick(1, 6)):
        templates = pc_templates(rng)

        def build(templates=templates):
            env = make_env(jinja2, templates)
            env.globals.update(callables)
            return env
        bad_modules += module_level_check(jinja2, build(), templates, res)
        checked_modules += len(templates)
        mains = [k for k in templates if k.startswith("t")]
        for name in mains:
            ntasks = 3 if rng.random() < 0.3 else 2
            solo = []
            for i in range(ntasks):
                r, _, _ = drive([build().get_template(name).render_async(**task_data(i))], lambda s, a: 0)
                solo.append(r[0])
            if any(r[0] != "ok" for r in solo):
                raise core.HarnessError(f"pass_context scenario does not render alone: {solo[0]} {templates[name]!r}")
            places[name.split("_", 1)[1]] = places.get(name.split("_", 1)[1], 0) + 1

            def run_one(chooser_factory, name=name, ntasks=ntasks):
                env = build()
                positions = []
                results, trace, options = drive([env.get_template(name).render_async(**task_data(i)) for i in range(ntasks)],
                                                chooser_factory(positions))
                return (results, trace), positions, options

            def check(payload, how, name=name, ntasks=ntasks, solo=solo, templates=templates):
                nonlocal schedules, diffs
                results, trace = payload
                schedules += 1
                distinct.add((templates[name], ntasks, tuple(trace)))
                for i, (r, s0) in enumerate(zip(results, solo)):
                    if r != s0:
                        diffs += 1
                        res.violate("C37:concurrent-differs-from-alone",
                                    f"task {i} (who={task_data(i)['who']}) rendered {r!r} next to {ntasks - 1} other render(s) of the same "
                                    f"template ({how} schedule {trace}) but {s0!r} alone: a context-aware callable (pass_context) saw "
                                    f"another render's value; template {templates[name]!r}",
                                    {"layer": "pass-context", "templates": templates, "tasks": [name] * ntasks, "schedule": trace,
                                     "task": i, "concurrent": r, "alone": s0})
            for payload in dfs_schedules(lambda prefix: run_one(lambda pos: chooser_from_prefix(prefix, pos)), ctx.pick(10, 40)):
                check(payload, "dfs")
            for _ in range(ctx.pick(2, 8)):
                payload, _, _ = run_one(lambda pos: chooser_random(rng, pos))
                check(payload, "random")
            payload, _, _ = run_one(lambda pos: (lambda step, active: (pos.append(step % len(active)) or step % len(active))))
            check(payload, "round-robin")
    cov["pass_context"] = {"schedules": schedules, "distinct_schedules": len(distinct), "differences": diffs,
                           "generated_modules_checked": checked_modules, "generated_modules_with_shared_state": bad_modules,
                           "assignment_x_place": places}
    return schedules, len(distinct)


def run(ctx, res):
    jinja2 = core.import_jinja()
    cov = {}
    e1, d1 = l_unit(ctx, res, cov, jinja2)
    e2, d2 = l_e2e(ctx, res, cov, jinja2)
    e3, d3 = l_autoescape(ctx, res, cov, jinja2)
    e4, d4 = l_copy_mutate(ctx, res, cov, jinja2)
    e5, d5 = l_pass_context(ctx, res, cov, jinja2)
    e2, d2 = e2 + e3 + e4 + e5, d2 + d3 + d4 + d5
    res.coverage.update({
        "evaluations": e1 + e2,
        "distinct_nontrivial": d1 + d2,
        "rule": "L-unit: 2-3 tasks x make_module_async suspending 0-3 times x default/fresh import x 0-1 private gates before "
                "the import, every schedule (depth-first, capped per configuration), compared with the Lean model under the same "
                "schedule. L-e2e: fixed + random template sets, 2 and 3 concurrent render_async calls with different data, "
                "schedules = depth-first enumeration of gate-release orders (capped) + random orders (some on an environment "
                "whose modules are already cached) + round-robin; distinct = distinct (template set, tasks, schedule); each task "
                "compared with its solo render on a fresh environment",
        "samples": [{"templates": FIXED_SETS[0], "tasks": ["main0", "main1"], "schedule": [0, 1, 0, 1, 0, 1, 0, 1]}],
        **cov,
    })


def replay(ctx, case):
    jinja2 = core.import_jinja()
    c = case.get("case", case)
    if "templates" not in c or "tasks" not in c:
        return c
    if c.get("layer") == "copy-mutate":
        return replay_copy_mutate(jinja2, c)
    names, trace = c["tasks"], list(c["schedule"])
    mode = c.get("autoescape")
    data = (lambda i: ESC_DATA[i]) if c.get("data") == "ESC_DATA" else task_data
    extra = ctx_callables(jinja2) if c.get("layer") == "pass-context" else {}
    env = make_env(jinja2, c["templates"], mode)
    env.globals.update(extra)
    it = iter(trace)

    def choose(step, active):
        want = next(it, None)
        return active.index(want) if want in active else 0
    results, tr, _ = drive([env.get_template(nm).render_async(**data(i)) for i, nm in enumerate(names)], choose)
    solo = []
    for i, nm in enumerate(names):
        e = make_env(jinja2, c["templates"], mode)
        e.globals.update(extra)
        solo.append(drive([e.get_template(nm).render_async(**data(i))], lambda s, a: 0)[0][0])
    return {"schedule": tr, "concurrent": results, "alone": solo}


def replay_copy_mutate(jinja2, c):
    who = ["A", "B", "C"]
    n = len(c["tasks"])

    def build():
        env = make_env(jinja2, c["templates"])
        sh = cm_shared()
        env.globals.update(gl=sh["gl"], gd=sh["gd"])
        return env, env.get_template("main", globals={"tg": sh["tg"], "td": sh["td"]}), sh
    env, t, sh = build()
    it = iter(c["schedule"])

    def choose(step, active):
        want = next(it, None)
        return active.index(want) if want in active else 0
    results, tr, _ = drive([t.render_async(who=who[i], sl=sh["sl"], sd=sh["sd"]) for i in range(n)], choose)
    solo = []
    for i in range(n):
        e, t1, s1 = build()
        solo.append(drive([t1.render_async(who=who[i], sl=s1["sl"], sd=s1["sd"])], lambda s, a: 0)[0][0])
    return {"schedule": tr, "concurrent": results, "alone": solo, "shared_after": sh, "shared_fresh": cm_shared()}
