"""C34 — native rendering: value itself, or literal value of the concatenated text."""
from __future__ import annotations

import ast
import asyncio
import itertools

from harness import core
from harness.core import Atom

ID = "C34"
LEAN_MODULES = ["JinjaV.Props.C34"]
LEVEL = "proof"
TRUSTED = [
    "Model/Native.lean is a hand transcription of nativetypes.native_concat, tied by this correspondence run",
    "ast.literal_eval / ast.parse are Python's (a parameter of the theorem)",
]
ASSUMPTIONS = ["pieces reach native_concat as a list or a generator (the two ways NativeTemplate calls it)"]


class Opaque:
    """a non-literal object"""

    def __init__(self, tag):
        self.tag = tag

    def __str__(self):
        return self.tag

    def __repr__(self):
        return f"<Opaque {self.tag}>"


def lit(raw):
    try:
        return ("lit", ast.literal_eval(ast.parse(raw, mode="eval")))
    except (ValueError, SyntaxError, MemoryError, TypeError):
        # TypeError: valid syntax that is not a literal *value* ({[1]}, {[1]: 2}) — "the text otherwise"
        return ("text", raw)


def same(a, b):
    return type(a) is type(b) and (a == b or (a != a and b != b))


def expect(rep, objs):
    r = rep[1]
    if r == "none":
        return ("none",)
    if r[0] == "value":
        return ("value", objs[r[1]])
    return lit(r[1])


def check_result(got, exp):
    if exp[0] == "none":
        return got is None
    if exp[0] == "value":
        return got is exp[1]
    return same(got, exp[1])


PIECES = ["", "1", "2", " ", "[", "]", ",", "'a'", "a", "1.5", "None", "{", "}", ":", "-", "(", ")", "True", "\n", "\t 1", "0x1f"]


def run(ctx, res):
    jinja2 = core.import_jinja()
    from jinja2.nativetypes import NativeEnvironment, native_concat

    rng = ctx.rng("unit")
    cases = []
    objs = [Opaque("[1,"), 5, 2.5, None, [1, 2], {"a": 1}, (1,), True, Opaque("7"), b"x", {1}, 10 ** 30]
    for n in range(0, ctx.pick(3, 4)):
        for ps in itertools.product(range(len(PIECES) + len(objs)), repeat=n):
            cases.append(list(ps))
    # corpus: valid syntax that is not a literal value (literal_eval raises TypeError) — fixed in 2fb0b13
    P = {p: i for i, p in enumerate(PIECES)}
    cases.append([P["{"], P["["], P["1"], P["]"], P["}"]])
    cases.append([P["{"], P["["], P["1"], P["]"], P[":"], P["2"], P["}"]])
    cases.append([P["{"], len(PIECES) + 4, P["}"]])
    for _ in range(ctx.pick(3000, 30000)):
        cases.append([rng.randrange(len(PIECES) + len(objs)) for _ in range(rng.randrange(0, 9))])

    def val(i):
        return PIECES[i] if i < len(PIECES) else objs[i - len(PIECES)]

    def enc(i):
        return [Atom("str"), PIECES[i]] if i < len(PIECES) else [Atom("obj"), i - len(PIECES), str(objs[i - len(PIECES)])]

    reqs = []
    for c in cases:
        reqs.append([Atom("native"), False, [enc(i) for i in c]])
        reqs.append([Atom("native"), True, [enc(i) for i in c]])
    replies = core.driver_batch(reqs)
    kinds = {}
    for k, c in enumerate(cases):
        vals = [val(i) for i in c]
        for gen, rep in ((False, replies[2 * k]), (True, replies[2 * k + 1])):
            exp = expect(rep, objs)
            kinds[exp[0]] = kinds.get(exp[0], 0) + 1
            try:
                got = native_concat((v for v in vals) if gen else list(vals))
                ok = check_result(got, exp)
            except Exception as e:  # noqa
                got, ok = f"raised:{type(e).__name__}", False
            if not ok:
                res.violate("C34:unit:" + exp[0], f"native_concat({'generator' if gen else 'list'} of {vals!r}) = {got!r}; documented {exp!r}",
                            {"pieces": [repr(v) for v in vals], "generator": gen})
            elif exp[0] == "lit" and isinstance(got, (list, dict, set)):
                # the result belongs to the caller: changing it must not change what the next render returns
                if isinstance(got, list):
                    got.append("MUT")
                elif isinstance(got, dict):
                    got["MUT"] = 1
                else:
                    got.add("MUT")
                again = native_concat((v for v in vals) if gen else list(vals))
                if not check_result(again, lit(rep[1][1])):
                    res.violate("C34:unit:result-shared", f"native_concat of {vals!r} returned {again!r} after the previous result "
                                f"was modified by its caller; documented {lit(rep[1][1])!r}", {"pieces": [repr(v) for v in vals]})
    e2e = run_e2e(ctx, res, jinja2, NativeEnvironment)
    res.coverage.update({
        "evaluations": 2 * len(cases) + e2e["renders"],
        "distinct_nontrivial": len({tuple(c) for c in cases if c}) + e2e["distinct"],
        "rule": (f"L-unit: every piece list of length < {ctx.pick(3, 4)} over 21 text pieces and 12 non-string values "
                 "(exhaustive) plus random lists up to 8, as list and as generator, against the real native_concat with "
                 "Python's literal_eval as the parameter; L-e2e: " + e2e["rule"]),
        "samples": [{"pieces": [repr(val(i)) for i in cases[700]]}, {"pieces": [repr(val(i)) for i in cases[-1]]}] + e2e["samples"],
        "documented_result_kinds": kinds,
        "e2e": {k: v for k, v in e2e.items() if k not in ("samples", "rule")},
    })


TEMPLATES = [
    "{{ a }}", "{{ a }}{{ b }}", "[{{ a }}, {{ b }}]", "{{ a }} + {{ b }}", " {{ a }}", "{{ a }} ", "{{ a }}\n", "({{ a }},)",
    "{'k': {{ a }}}", "{{ a }}.{{ b }}", "-{{ a }}", "{% if a %}{{ b }}{% endif %}", "{% for i in [a, b] %}{{ i }}{% endfor %}",
    "{{ a }}{# c #}", "'{{ a }}'", "{{ a|string }}", "{{ [a, b] }}", "{{ a if false }}", "", "text", "{{ a }}{{ '' }}",
    "{% set x = a %}{{ x }}", "{% macro m(v) %}{{ v }}{% endmacro %}{{ m(a) }}", "{{ a + b if a is number and b is number else a }}",
]


def run_e2e(ctx, res, jinja2, NativeEnvironment):
    rng = ctx.rng("e2e")
    env = NativeEnvironment()
    aenv = NativeEnvironment(enable_async=True)
    values = [1, 2.5, "x", "1", "[1", None, True, [1, 2], {"a": 1}, (1, 2), Opaque("1"), Opaque("q"), "", " 3", "'s'", b"b",
              10 ** 25, -4, 0, "None", {1, 2}, frozenset([1]), 1j, float("inf")]
    renders, distinct, samples = 0, set(), []
    pairs = [(a, b) for a in values for b in values]
    if ctx.quick:
        pairs = rng.sample(pairs, 120)
    reqs, meta = [], []
    for src in TEMPLATES:
        t = env.from_string(src)
        at = aenv.from_string(src)
        for a, b in pairs:
            data = {"a": a, "b": b}
            try:
                pieces = list(t.root_render_func(t.new_context(data)))
            except Exception:  # noqa
                continue
            objs = [p for p in pieces if not isinstance(p, str)]
            enc = []
            for p in pieces:
                if isinstance(p, str):
                    enc.append([Atom("str"), p])
                else:
                    try:
                        enc.append([Atom("obj"), [id(o) for o in objs].index(id(p)), str(p)])
                    except Exception:  # noqa
                        enc = None
                        break
            if enc is None:
                continue
            reqs.append([Atom("native"), True, enc])
            meta.append((src, t, at, data, objs))
    replies = core.driver_batch(reqs)
    for (src, t, at, data, objs), rep in zip(meta, replies):
        exp = expect(rep, objs)
        for how in ("render", "render_async", "async-env-render"):
            try:
                if how == "render":
                    got = t.render(**data)
                elif how == "render_async":
                    got = asyncio.run(at.render_async(**data))
                else:
                    got = at.render(**data)
                ok = check_result(got, exp) if exp[0] != "value" else (got is exp[1] or same(got, exp[1]))
            except Exception as e:  # noqa
                got, ok = f"raised:{type(e).__name__}: {e}", False
            renders += 1
            distinct.add((src, repr(data), how))
            if not ok:
                res.violate(f"C34:e2e:{how}", f"NativeEnvironment {how} of {src!r} with {data!r} gives {got!r}; documented {exp!r}",
                            {"src": src, "data": repr(data), "how": how})
        if len(samples) < 2:
            samples.append({"src": src, "data": repr(data), "documented": repr(exp)})
    # environments with a finalize hook: template text is never finalized, expression results are
    SEG = [[("t", "["), ("v", "a"), ("t", ", "), ("v", "b"), ("t", "]")], [("v", "a")], [("t", "x"), ("v", "a")],
           [("t", "'"), ("v", "a"), ("t", "'")], [("t", "12")], [("v", "a"), ("t", "3")], [("t", "{'k': "), ("v", "b"), ("t", "}")]]

    def fin_quote(v):
        return repr(v) if isinstance(v, str) else v

    def fin_none(v):
        return "" if v is None else v

    for fname, fin in (("quote-strings", fin_quote), ("none-to-empty", fin_none)):
        fenv = NativeEnvironment(finalize=fin)
        faenv = NativeEnvironment(finalize=fin, enable_async=True)
        freqs, fmeta = [], []
        for seg in SEG:
            src = "".join(x if k == "t" else "{{ %s }}" % x for k, x in seg)
            for a, b in (pairs if not ctx.quick else pairs[:40]):
                data = {"a": a, "b": b}
                pieces = [x if k == "t" else fin(data[x]) for k, x in seg]
                objs = [p for p in pieces if not isinstance(p, str)]
                try:
                    enc = [[Atom("str"), p] if isinstance(p, str) else [Atom("obj"), [id(o) for o in objs].index(id(p)), str(p)] for p in pieces]
                except Exception:  # noqa
                    continue
                freqs.append([Atom("native"), True, enc])
                fmeta.append((src, data, objs))
        for (src, data, objs), rep in zip(fmeta, core.driver_batch(freqs)):
            exp = expect(rep, objs)
            for how, e in (("render", fenv), ("render_async", faenv)):
                try:
                    t = e.from_string(src)
                    got = t.render(**data) if how == "render" else asyncio.run(t.render_async(**data))
                    ok = check_result(got, exp) if exp[0] != "value" else (got is exp[1] or same(got, exp[1]))
                except Exception as ex:  # noqa
                    got, ok = f"raised:{type(ex).__name__}: {ex}", False
                renders += 1
                distinct.add((src, repr(data), how, fname))
                if not ok:
                    res.violate(f"C34:e2e:finalize:{how}", f"NativeEnvironment(finalize={fname}) {how} of {src!r} with {data!r} gives {got!r}; documented {exp!r}",
                                {"src": src, "data": repr(data), "how": how, "finalize": fname})
    # a returned container belongs to the caller (render, modify, render again)
    for src, data in (("[{{ a }}, {{ b }}]", {"a": 1, "b": 2}), ("{'k': {{ a }}}", {"a": 1}), ("{{ a }}{{ b }}", {"a": "[1,", "b": "2]"})):
        for how, e in (("render", env), ("render_async", aenv)):
            t = e.from_string(src)
            r1 = t.render(**data) if how == "render" else asyncio.run(t.render_async(**data))
            want = ast.literal_eval(src.replace("{{ a }}", str(data["a"])).replace("{{ b }}", str(data.get("b", ""))))
            if isinstance(r1, list):
                r1.append("MUT")
            elif isinstance(r1, dict):
                r1["MUT"] = 1
            r2 = t.render(**data) if how == "render" else asyncio.run(t.render_async(**data))
            renders += 2
            if not same(r2, want):
                res.violate("C34:e2e:result-shared", f"{how} of {src!r} returns {r2!r} after the caller modified the previous result; documented {want!r}",
                            {"src": src, "data": repr(data), "how": how})
    return {"renders": renders, "distinct": len(distinct), "samples": samples,
            "rule": f"{len(TEMPLATES)} single- and multi-node templates x value pairs from 24 values (literals, non-literal objects, "
                    "strings that do or do not parse) through render, render_async and render in an async-enabled native environment"}


def replay(ctx, case):
    return case["case"]
