"""C34 — native rendering: value itself, or literal value of the concatenated text."""
from __future__ import annotations

import ast
import asyncio
import collections
import datetime
import decimal
import itertools

import translate.native_guards
from harness import core
from harness import lexcommon as lc
from harness.core import Atom

ID = "C34"
LEAN_MODULES = ["JinjaV.Props.C34"]
GEN = [translate.native_guards.gen]
LEVEL = "proof"
TRUSTED = [
    "Model/Native.lean is a hand transcription of nativetypes.native_concat, tied by this correspondence run",
    "ast.literal_eval / ast.parse are Python's (a parameter of the theorem)",
    "Model/NativeTpl.lean (which pieces a template of the small statement language yields: Lexer.wrap, Parser.subparse's "
    "Output grouping, the native generator's folding of adjacent template data) is a hand model over the lexer model "
    "Model/Lex.lean (tied by C39/C11/C12); it is tied by comparing its piece list with what the compiled root function yields",
]
ASSUMPTIONS = ["pieces reach native_concat as a list or a generator (the two ways NativeTemplate calls it)",
               "template-level cases: valid lexer configuration; expressions are names bound by the render data, {% set %} or a "
               "macro parameter; a macro call is modelled where its body yields a single non-string value or a text that Python's "
               "literal_eval does not accept (confirmed per case); constant output expressions are the 22 of the table"]
CLAIM = dict(
    category="proof",
    technique="Lean 4 proof that the model of native_concat equals the documented result for every piece list, both call forms "
              "and any literal evaluator; proof over the lexer model that no empty data token exists and, over the guards READ "
              "from lexer.py/parser.py, that an empty data token cannot become a piece + exhaustive small piece lists, "
              "end-to-end native renders, and generated single-expression templates surrounded by material that compiles to "
              "nothing, compared piece by piece with the Lean template model",
    text="Theorems (Props/C34.lean): native_concat_spec — for every list of pieces (strings and non-string values), arriving as "
         "list or generator, and every literal evaluator, the transcription of native_concat returns None for no output, the "
         "value itself for a single non-string value, and otherwise the literal the concatenated text denotes or the text; "
         "single_piece_template_returns_value — a template whose pieces (lexer model -> Lexer.wrap -> subparse/Output "
         "grouping -> native generator) are one non-string value renders to that value; lex_data_nonempty — the lexer model "
         "never emits an empty data token, for every configuration and source (whitespace removed by '-', lstrip_blocks or "
         "trim_blocks leaves no token); source_guards_present / empty_data_invisible — with the guards read from the source on "
         "every run (data in lexer.ignore_if_empty, the emptiness test in Lexer.tokeniter is made on the value that is "
         "yielded, Parser.subparse skips a data token with an empty value) at least one stage drops an empty data token, and "
         "with the parser's guard it changes no piece; pieces_independent_of_parser_guard — because the lexer stage delivers "
         "none, the pieces of every source are the same with and without the parser's guard (either guard alone suffices); "
         "output_run_pieces — for every run of Output children (constants = template data and compile-time constant "
         "expressions, runtime expressions) the template model emits one piece per runtime expression and one per maximal "
         "run of constants, whatever their text, the empty string included: nothing is merged across a runtime expression and "
         "no group is dropped; two_pieces_never_identity — two or more pieces never come back as the value itself; "
         "output_groups_never_dropped — READ from compiler.py on every run: visit_Output only appends to its list of groups "
         "and writes every constant group unconditionally. Tie: all "
         "piece lists of length <3 (quick) / <4 (thorough) over 21 text pieces and 12 values against the real function "
         "(identity checked with `is`), random longer lists, render-modify-render histories, 24 templates x value pairs "
         "through render / render_async / render in an async native environment, native environments with a finalize hook "
         "against a segment-level reference; and generated templates = one carrier (plain {{ x }}, conditional output with "
         "and without else, {% set %} + output, native macro, macro with a conditional body) plus 0-3 pieces of material "
         "that compiles to nothing (comments, empty raw blocks, {% if true %}{% endif %}, dead branches, {% set %}, line "
         "statements, line comments) and 0-3 compile-time constant output expressions (22: '' literals, ''|upper, '' ~ '', "
         "'a'[0:0], none|default('', true), []|join, ''|trim, whitespace, 0, '0', '1', 1 + 1, text; their documented text is a "
         "literal table checked against the string Environment on every run) next to an output expression or anywhere, in the "
         "same output run or separated by a statement that yields nothing, with whitespace runs between all tags and '-'/'+'/no sign on every tag side, under 10 "
         "lexer configurations (trim_blocks, lstrip_blocks, keep_trailing_newline, line prefixes, ERB/PHP delimiters), with 27 "
         "values (custom objects, Decimal, set(), frozenset, bytes, nan/inf, date, namedtuple, Undefined, range, strings that "
         "look like literals, plain literals): the pieces yielded by the compiled root function must equal the model's piece "
         "list (strings by value, other values by identity: an extra empty-string piece is a difference) and render, "
         "render_async and render in an async-enabled environment must return the documented result of those pieces.",
    note="Trusted: Lean kernel; hand models Model/Native.lean and Model/NativeTpl.lean (tied by the runs above); Model/Lex.lean "
         "(tied by C39); ast.literal_eval/parse are a parameter (Python's); the native code generator is covered end-to-end "
         "only. The guards translator (translate/native_guards.py) reads three syntactic facts; a behaviour-preserving rewrite of "
         "those lines is reported as a broken tie (no failing input) unless the generated templates find a concrete one.",
    design_ref="§5 C34, design/C34.md",
)


class Opaque:
    """a non-literal object"""

    def __init__(self, tag):
        self.tag = tag

    def __str__(self):
        return self.tag

    def __repr__(self):
        return f"<Opaque {self.tag}>"


def lit(raw):
    try:
        return ("lit", ast.literal_eval(ast.parse(raw, mode="eval")))
    except (ValueError, SyntaxError, MemoryError, TypeError):
        # TypeError: valid syntax that is not a literal *value* ({[1]}, {[1]: 2}) — "the text otherwise"
        return ("text", raw)


def same(a, b):
    return type(a) is type(b) and (a == b or (a != a and b != b))


def expect(rep, objs):
    r = rep[1]
    if r == "none":
        return ("none",)
    if r[0] == "value":
        return ("value", objs[r[1]])
    return lit(r[1])


def check_result(got, exp):
    if exp[0] == "none":
        return got is None
    if exp[0] == "value":
        return got is exp[1]
    return same(got, exp[1])


PIECES = ["", "1", "2", " ", "[", "]", ",", "'a'", "a", "1.5", "None", "{", "}", ":", "-", "(", ")", "True", "\n", "\t 1", "0x1f"]


def run(ctx, res):
    jinja2 = core.import_jinja()
    from jinja2.nativetypes import NativeEnvironment, native_concat

    rng = ctx.rng("unit")
    cases = []
    objs = [Opaque("[1,"), 5, 2.5, None, [1, 2], {"a": 1}, (1,), True, Opaque("7"), b"x", {1}, 10 ** 30]
    for n in range(0, ctx.pick(3, 4)):
        for ps in itertools.product(range(len(PIECES) + len(objs)), repeat=n):
            cases.append(list(ps))
    # corpus: valid syntax that is not a literal value (literal_eval raises TypeError) — fixed in 2fb0b13
    P = {p: i for i, p in enumerate(PIECES)}
    cases.append([P["{"], P["["], P["1"], P["]"], P["}"]])
    cases.append([P["{"], P["["], P["1"], P["]"], P[":"], P["2"], P["}"]])
    cases.append([P["{"], len(PIECES) + 4, P["}"]])
    for _ in range(ctx.pick(3000, 30000)):
        cases.append([rng.randrange(len(PIECES) + len(objs)) for _ in range(rng.randrange(0, 9))])

    def val(i):
        return PIECES[i] if i < len(PIECES) else objs[i - len(PIECES)]

    def enc(i):
        return [Atom("str"), PIECES[i]] if i < len(PIECES) else [Atom("obj"), i - len(PIECES), str(objs[i - len(PIECES)])]

    reqs = []
    for c in cases:
        reqs.append([Atom("native"), False, [enc(i) for i in c]])
        reqs.append([Atom("native"), True, [enc(i) for i in c]])
    replies = core.driver_batch(reqs)
    kinds = {}
    for k, c in enumerate(cases):
        vals = [val(i) for i in c]
        for gen, rep in ((False, replies[2 * k]), (True, replies[2 * k + 1])):
            exp = expect(rep, objs)
            kinds[exp[0]] = kinds.get(exp[0], 0) + 1
            try:
                got = native_concat((v for v in vals) if gen else list(vals))
                ok = check_result(got, exp)
            except Exception as e:  # noqa
                got, ok = f"raised:{type(e).__name__}", False
            if not ok:
                res.violate("C34:unit:" + exp[0], f"native_concat({'generator' if gen else 'list'} of {vals!r}) = {got!r}; documented {exp!r}",
                            {"pieces": [repr(v) for v in vals], "generator": gen})
            elif exp[0] == "lit" and isinstance(got, (list, dict, set)):
                # the result belongs to the caller: changing it must not change what the next render returns
                if isinstance(got, list):
                    got.append("MUT")
                elif isinstance(got, dict):
                    got["MUT"] = 1
                else:
                    got.add("MUT")
                again = native_concat((v for v in vals) if gen else list(vals))
                if not check_result(again, lit(rep[1][1])):
                    res.violate("C34:unit:result-shared", f"native_concat of {vals!r} returned {again!r} after the previous result "
                                f"was modified by its caller; documented {lit(rep[1][1])!r}", {"pieces": [repr(v) for v in vals]})
    e2e = run_e2e(ctx, res, jinja2, NativeEnvironment)
    tpl = run_tpl(ctx, res, jinja2, NativeEnvironment)
    res.coverage.update({
        "evaluations": 2 * len(cases) + e2e["renders"] + tpl["renders"],
        "distinct_nontrivial": len({tuple(c) for c in cases if c}) + e2e["distinct"] + tpl["distinct"],
        "rule": (f"L-unit: every piece list of length < {ctx.pick(3, 4)} over 21 text pieces and 12 non-string values "
                 "(exhaustive) plus random lists up to 8, as list and as generator, against the real native_concat with "
                 "Python's literal_eval as the parameter; L-e2e: " + e2e["rule"] + "; L-tpl: " + tpl["rule"]),
        "samples": [{"pieces": [repr(val(i)) for i in cases[700]]}, {"pieces": [repr(val(i)) for i in cases[-1]]}] + e2e["samples"]
        + tpl["samples"],
        "documented_result_kinds": kinds,
        "e2e": {k: v for k, v in e2e.items() if k not in ("samples", "rule")},
        "tpl": {k: v for k, v in tpl.items() if k not in ("samples", "rule")},
    })


TEMPLATES = [
    "{{ a }}", "{{ a }}{{ b }}", "[{{ a }}, {{ b }}]", "{{ a }} + {{ b }}", " {{ a }}", "{{ a }} ", "{{ a }}\n", "({{ a }},)",
    "{'k': {{ a }}}", "{{ a }}.{{ b }}", "-{{ a }}", "{% if a %}{{ b }}{% endif %}", "{% for i in [a, b] %}{{ i }}{% endfor %}",
    "{{ a }}{# c #}", "'{{ a }}'", "{{ a|string }}", "{{ [a, b] }}", "{{ a if false }}", "", "text", "{{ a }}{{ '' }}",
    "{% set x = a %}{{ x }}", "{% macro m(v) %}{{ v }}{% endmacro %}{{ m(a) }}", "{{ a + b if a is number and b is number else a }}",
]


def run_e2e(ctx, res, jinja2, NativeEnvironment):
    rng = ctx.rng("e2e")
    env = NativeEnvironment()
    aenv = NativeEnvironment(enable_async=True)
    values = [1, 2.5, "x", "1", "[1", None, True, [1, 2], {"a": 1}, (1, 2), Opaque("1"), Opaque("q"), "", " 3", "'s'", b"b",
              10 ** 25, -4, 0, "None", {1, 2}, frozenset([1]), 1j, float("inf")]
    renders, distinct, samples = 0, set(), []
    pairs = [(a, b) for a in values for b in values]
    if ctx.quick:
        pairs = rng.sample(pairs, 120)
    reqs, meta = [], []
    for src in TEMPLATES:
        t = env.from_string(src)
        at = aenv.from_string(src)
        for a, b in pairs:
            data = {"a": a, "b": b}
            try:
                pieces = list(t.root_render_func(t.new_context(data)))
            except Exception:  # noqa
                continue
            objs = [p for p in pieces if not isinstance(p, str)]
            enc = []
            for p in pieces:
                if isinstance(p, str):
                    enc.append([Atom("str"), p])
                else:
                    try:
                        enc.append([Atom("obj"), [id(o) for o in objs].index(id(p)), str(p)])
                    except Exception:  # noqa
                        enc = None
                        break
            if enc is None:
                continue
            reqs.append([Atom("native"), True, enc])
            meta.append((src, t, at, data, objs))
    replies = core.driver_batch(reqs)
    for (src, t, at, data, objs), rep in zip(meta, replies):
        exp = expect(rep, objs)
        for how in ("render", "render_async", "async-env-render"):
            try:
                if how == "render":
                    got = t.render(**data)
                elif how == "render_async":
                    got = asyncio.run(at.render_async(**data))
                else:
                    got = at.render(**data)
                ok = check_result(got, exp) if exp[0] != "value" else (got is exp[1] or same(got, exp[1]))
            except Exception as e:  # noqa
                got, ok = f"raised:{type(e).__name__}: {e}", False
            renders += 1
            distinct.add((src, repr(data), how))
            if not ok:
                res.violate(f"C34:e2e:{how}", f"NativeEnvironment {how} of {src!r} with {data!r} gives {got!r}; documented {exp!r}",
                            {"src": src, "data": repr(data), "how": how})
        if len(samples) < 2:
            samples.append({"src": src, "data": repr(data), "documented": repr(exp)})
    # environments with a finalize hook: template text is never finalized, expression results are
    SEG = [[("t", "["), ("v", "a"), ("t", ", "), ("v", "b"), ("t", "]")], [("v", "a")], [("t", "x"), ("v", "a")],
           [("t", "'"), ("v", "a"), ("t", "'")], [("t", "12")], [("v", "a"), ("t", "3")], [("t", "{'k': "), ("v", "b"), ("t", "}")]]

    def fin_quote(v):
        return repr(v) if isinstance(v, str) else v

    def fin_none(v):
        return "" if v is None else v

    for fname, fin in (("quote-strings", fin_quote), ("none-to-empty", fin_none)):
        fenv = NativeEnvironment(finalize=fin)
        faenv = NativeEnvironment(finalize=fin, enable_async=True)
        freqs, fmeta = [], []
        for seg in SEG:
            src = "".join(x if k == "t" else "{{ %s }}" % x for k, x in seg)
            for a, b in (pairs if not ctx.quick else pairs[:40]):
                data = {"a": a, "b": b}
                pieces = [x if k == "t" else fin(data[x]) for k, x in seg]
                objs = [p for p in pieces if not isinstance(p, str)]
                try:
                    enc = [[Atom("str"), p] if isinstance(p, str) else [Atom("obj"), [id(o) for o in objs].index(id(p)), str(p)] for p in pieces]
                except Exception:  # noqa
                    continue
                freqs.append([Atom("native"), True, enc])
                fmeta.append((src, data, objs))
        for (src, data, objs), rep in zip(fmeta, core.driver_batch(freqs)):
            exp = expect(rep, objs)
            for how, e in (("render", fenv), ("render_async", faenv)):
                try:
                    t = e.from_string(src)
                    got = t.render(**data) if how == "render" else asyncio.run(t.render_async(**data))
                    ok = check_result(got, exp) if exp[0] != "value" else (got is exp[1] or same(got, exp[1]))
                except Exception as ex:  # noqa
                    got, ok = f"raised:{type(ex).__name__}: {ex}", False
                renders += 1
                distinct.add((src, repr(data), how, fname))
                if not ok:
                    res.violate(f"C34:e2e:finalize:{how}", f"NativeEnvironment(finalize={fname}) {how} of {src!r} with {data!r} gives {got!r}; documented {exp!r}",
                                {"src": src, "data": repr(data), "how": how, "finalize": fname})
    # a returned container belongs to the caller (render, modify, render again)
    for src, data in (("[{{ a }}, {{ b }}]", {"a": 1, "b": 2}), ("{'k': {{ a }}}", {"a": 1}), ("{{ a }}{{ b }}", {"a": "[1,", "b": "2]"})):
        for how, e in (("render", env), ("render_async", aenv)):
            t = e.from_string(src)
            r1 = t.render(**data) if how == "render" else asyncio.run(t.render_async(**data))
            want = ast.literal_eval(src.replace("{{ a }}", str(data["a"])).replace("{{ b }}", str(data.get("b", ""))))
            if isinstance(r1, list):
                r1.append("MUT")
            elif isinstance(r1, dict):
                r1["MUT"] = 1
            r2 = t.render(**data) if how == "render" else asyncio.run(t.render_async(**data))
            renders += 2
            if not same(r2, want):
                res.violate("C34:e2e:result-shared", f"{how} of {src!r} returns {r2!r} after the caller modified the previous result; documented {want!r}",
                            {"src": src, "data": repr(data), "how": how})
    return {"renders": renders, "distinct": len(distinct), "samples": samples,
            "rule": f"{len(TEMPLATES)} single- and multi-node templates x value pairs from 24 values (literals, non-literal objects, "
                    "strings that do or do not parse) through render, render_async and render in an async-enabled native environment"}


# ---------------------------------------------------------------------------------------------
# templates: one expression + material that compiles to nothing (Model/NativeTpl.lean over the lexer model)
# ---------------------------------------------------------------------------------------------

P = collections.namedtuple("P", "x")


def tpl_values(jinja2):
    """values a template may return; most have a str() that does not literal_eval back to the same object"""
    return [Opaque("q"), Opaque("1"), Opaque("[1, 2]"), Opaque(""), decimal.Decimal("1.50"), set(), frozenset([1]), b"x",
            float("nan"), float("inf"), datetime.date(2020, 1, 2), P(1), jinja2.Undefined(name="u"), 1j, range(3), {1, 2},
            "1", "[1, 2]", "None", " 7", "x", "",
            5, [1, 2], None, {"a": 1}, True]


N_NONLITERAL = 16     # the first 16 values above

TPL_CONFIGS = ["default", "trim", "lstrip", "trim+lstrip", "keepnl", "line", "line-pct", "line-keep", "erb", "php"]
GAPS = [" ", "\n", "  ", "\n  ", " \n", "\t", "\n\n", " \n ", "\n\t\n"]

# carriers: the one expression whose value the template returns (x, w: values; c: bool)
CARRIERS = {
    "var": [("v", "x")],
    "cond": [("b", "if c"), ("v", "x"), ("b", "endif")],
    "cond-else": [("b", "if c"), ("v", "x"), ("b", "else"), ("v", "w"), ("b", "endif")],
    "set": [("b", "set y = x"), ("v", "y")],
    "set-in-if": [("b", "if true"), ("b", "set y = x"), ("b", "endif"), ("v", "y")],
    "macro": [("b", "macro m(v)"), ("v", "v"), ("b", "endmacro"), ("v", "m(x)")],
    "macro-cond": [("b", "macro m(v)"), ("b", "if c"), ("v", "v"), ("b", "else"), ("v", "v"), ("b", "endif"), ("b", "endmacro"),
                   ("v", "m(x)")],
}


# compile-time constant output expressions: (source, token texts joined = the key the model looks up, documented text).
# A literal table (the documented value of each expression), checked against the ordinary string Environment on every run.
CONSTS = [
    ("''", "''", ""), ('""', '""', ""), ("''|upper", "''|upper", ""), ("'' ~ ''", "''~''", ""), ("'a'[0:0]", "'a'[0:0]", ""),
    ("none|default('', true)", "none|default('',true)", ""), ("[]|join", "[]|join", ""), ("''|trim", "''|trim", ""),
    ("' '", "' '", " "), ("'  '", "'  '", "  "), ("' '|upper", "' '|upper", " "),
    ("0", "0", "0"), ("'0'", "'0'", "0"), ("'1'", "'1'", "1"), ("1", "1", "1"), ("1 + 1", "1+1", "2"), ("' 7'", "' 7'", " 7"),
    ("'a'", "'a'", "a"), ("'['", "'['", "["), ("'x'|upper", "'x'|upper", "X"), ("'-'", "'-'", "-"), ("'.5'", "'.5'", ".5"),
]
N_EMPTY_CONSTS = 8
CONST_TABLE = [[k, t] for _, k, t in CONSTS]


def nothing_material(rng, c):
    """a unit that yields no piece"""
    kinds = ["comment", "comment", "raw", "if-true", "if-false", "if-else", "set"]
    if c["line_statement_prefix"]:
        kinds += ["ls", "ls-if", "lc", "lc"]
    k = rng.choice(kinds)
    if k == "comment":
        return k, [("c", rng.choice(["", " ", " c ", "c", " c\nd ", " # "]))]
    if k == "raw":
        return k, [("rawb", ""), ("rawe", "")]
    if k == "if-true":
        return k, [("b", "if true"), ("b", "endif")]
    if k == "if-false":
        return k, [("b", "if false"), ("t", "junk"), ("b", "endif")]
    if k == "if-else":
        return k, [("b", "if true"), ("b", "else"), ("t", "junk"), ("b", "endif")]
    if k == "set":
        return k, [("b", "set z = 1")]
    if k == "ls":
        return k, [("ls", "set z = 1")]
    if k == "ls-if":
        return k, [("ls", "if true"), ("ls", "endif")]
    return k, [("lc", rng.choice([" note", "", " {{ x }}"]))]


SIGNS_L = {"b": ["", "-", "+"], "v": ["", "-", "+"], "k": ["", "-", "+"], "c": ["", "-", "+"], "rawb": ["", "-", "+"], "rawe": ["", "-", "+"],
           "ls": ["", "-"], "lc": ["", "-"], "t": [""]}
SIGNS_R = {"b": ["", "-", "+"], "v": ["", "-"], "k": ["", "-"], "c": ["", "-", "+"], "rawb": ["", "-"], "rawe": ["", "-", "+"],
           "ls": [""], "lc": [""], "t": [""]}


def pick_sign(rng, allowed):
    r = rng.random()
    if r < 0.45 and "-" in allowed:
        return "-"
    if r < 0.55 and "+" in allowed:
        return "+"
    return ""


def render_elem(c, el, l, r, pad):
    k, inner = el
    if k == "b":
        return f"{c['block_start_string']}{l}{pad}{inner}{pad}{r}{c['block_end_string']}"
    if k in ("v", "k"):
        return f"{c['variable_start_string']}{l} {inner} {r}{c['variable_end_string']}"
    if k == "c":
        return f"{c['comment_start_string']}{l}{inner}{r}{c['comment_end_string']}"
    if k == "rawb":
        return f"{c['block_start_string']}{l} raw {r}{c['block_end_string']}"
    if k == "rawe":
        return f"{c['block_start_string']}{l} endraw {r}{c['block_end_string']}"
    if k == "ls":
        return f"{c['line_statement_prefix']}{l} {inner}"
    if k == "lc":
        return f"{c['line_comment_prefix']}{l}{inner}"
    return inner


def assemble(c, elems, gaps, signs, pad=" "):
    """elements with their signs, whitespace runs between them; line statements / comments get the line breaks they need"""
    out = []
    n = len(elems)
    gaps = list(gaps)
    for i, el in enumerate(elems):
        if el[0] == "ls" and i > 0 and "\n" not in gaps[i]:
            gaps[i] = gaps[i] + "\n"
        if el[0] in ("ls", "lc") and i + 1 < n and "\n" not in gaps[i + 1]:
            gaps[i + 1] = "\n" + gaps[i + 1]
    for i, el in enumerate(elems):
        out.append(gaps[i])
        out.append(render_elem(c, el, signs[i][0], signs[i][1], pad))
    out.append(gaps[n])
    return "".join(out)


def random_template(rng, c):
    cname = rng.choice(list(CARRIERS))
    elems = list(CARRIERS[cname])
    mats = []
    for _ in range(rng.choice([0, 1, 1, 2, 2, 3])):
        k, unit = nothing_material(rng, c)
        for _try in range(8):
            at = rng.randrange(len(elems) + 1)
            if at > 0 and elems[at - 1][0] == "rawb":
                continue
            elems[at:at] = unit
            mats.append(k)
            break
    # compile-time constant output expressions: next to an output expression (same run) or anywhere (often another run)
    nk = rng.choice([0, 0, 1, 1, 2, 3])
    for _ in range(nk):
        ci = rng.randrange(N_EMPTY_CONSTS) if rng.random() < 0.55 else rng.randrange(len(CONSTS))
        outs = [i for i, e in enumerate(elems) if e[0] in ("v", "k")]
        if outs and rng.random() < 0.7:
            at = rng.choice(outs) + rng.randrange(2)
        else:
            at = rng.randrange(len(elems) + 1)
        if at > 0 and elems[at - 1][0] == "rawb":
            continue
        elems.insert(at, ("k", CONSTS[ci][0]))
        mats.append("const-empty" if ci < N_EMPTY_CONSTS else "const")
    n = len(elems)
    tight = nk > 0 and rng.random() < 0.5
    gaps = [("" if (tight or rng.random() < 0.3) else rng.choice(GAPS)) for _ in range(n + 1)]
    signs = [[pick_sign(rng, SIGNS_L[e[0]]), pick_sign(rng, SIGNS_R[e[0]])] for e in elems]
    if rng.random() < 0.7:
        # make every whitespace run removable: a '-' on one of the two tag sides next to it
        for g in range(n + 1):
            if not gaps[g]:
                continue
            sides = []
            if g > 0 and "-" in SIGNS_R[elems[g - 1][0]]:
                sides.append((g - 1, 1))
            if g < n and "-" in SIGNS_L[elems[g][0]]:
                sides.append((g, 0))
            if not sides:
                gaps[g] = ""
                continue
            i, side = rng.choice(sides)
            signs[i][side] = "-"
    return assemble(c, elems, gaps, signs, rng.choice(["", " ", " "])), cname, mats


def small_templates(c):
    """carrier next to one unit of nothing-material, every whitespace run and every sign pair at the border"""
    units = [("comment", [("c", " c ")]), ("comment-empty", [("c", "")]), ("raw", [("rawb", ""), ("rawe", "")]),
             ("if-true", [("b", "if true"), ("b", "endif")]), ("set", [("b", "set z = 1")])]
    if c["line_statement_prefix"]:
        units += [("ls", [("ls", "set z = 1")]), ("lc", [("lc", " note")])]
    for cname in ("var", "cond", "set", "macro"):
        car = CARRIERS[cname]
        for uname, unit in units:
            for left in (True, False):
                elems = (unit + car) if left else (car + unit)
                b = len(unit) if left else len(car)          # the border gap index
                for w in [""] + GAPS[:6]:
                    for sr in SIGNS_R[elems[b - 1][0]]:
                        for sl in SIGNS_L[elems[b][0]]:
                            gaps = [""] * (len(elems) + 1)
                            gaps[b] = w
                            signs = [["", ""] for _ in elems]
                            signs[b - 1][1] = sr
                            signs[b][0] = sl
                            yield assemble(c, elems, gaps, signs), cname, [uname]
        # whitespace before / after the carrier alone, and inside it
        for w in GAPS[:6]:
            for g in range(len(car) + 1):
                for sr in (SIGNS_R[car[g - 1][0]] if g > 0 else [""]):
                    for sl in (SIGNS_L[car[g][0]] if g < len(car) else [""]):
                        gaps = [""] * (len(car) + 1)
                        gaps[g] = w
                        signs = [["", ""] for _ in car]
                        if g > 0:
                            signs[g - 1][1] = sr
                        if g < len(car):
                            signs[g][0] = sl
                        yield assemble(c, car, gaps, signs), cname, []


def const_templates(c):
    """every constant at every position of every small carrier (same output run), and separated from it by a statement
    that yields nothing / a comment (another run / the same run); two adjacent constants (one merged group)"""
    for cname in ("var", "cond", "set", "macro"):
        car = CARRIERS[cname]
        for ci, (src, _, _) in enumerate(CONSTS):
            tag = "const-empty" if ci < N_EMPTY_CONSTS else "const"
            for at in range(len(car) + 1):
                elems = car[:at] + [("k", src)] + car[at:]
                yield assemble(c, elems, [""] * (len(elems) + 1), [["", ""] for _ in elems]), cname, [tag]
            for sep in (("b", "set z = 1"), ("c", " c "), ("b", "if true")):
                unit = [sep] + ([("b", "endif")] if sep[1] == "if true" else [])
                for elems in (car + unit + [("k", src)], [("k", src)] + unit + car):
                    yield assemble(c, elems, [""] * (len(elems) + 1), [["", ""] for _ in elems]), cname, [tag, "sep"]
            # whitespace between constant and carrier, removed by a sign on either side or kept
            for w in (" ", "\n"):
                for sr, sl in (("-", ""), ("", "-"), ("", "")):
                    elems = car + [("k", src)]
                    gaps = [""] * (len(elems) + 1)
                    gaps[len(car)] = w
                    signs = [["", ""] for _ in elems]
                    signs[len(car) - 1][1] = sr if "-" in SIGNS_R[car[-1][0]] or not sr else ""
                    signs[len(car)][0] = sl
                    yield assemble(c, elems, gaps, signs), cname, [tag, "ws"]
        for ci in (0, 2, 8, 13):
            for cj in (0, 4, 11, 13):
                for elems in ([("k", CONSTS[ci][0]), ("k", CONSTS[cj][0])] + car, car + [("k", CONSTS[ci][0]), ("k", CONSTS[cj][0])],
                              [("k", CONSTS[ci][0])] + car + [("k", CONSTS[cj][0])]):
                    yield assemble(c, elems, [""] * (len(elems) + 1), [["", ""] for _ in elems]), cname, ["const", "const"]
    for ci, (src, _, _) in enumerate(CONSTS):
        yield assemble(c, [("k", src)], ["", ""], [["", ""]]), "const-alone", ["const-empty" if ci < N_EMPTY_CONSTS else "const"]


def check_const_table(jinja2, res):
    """the documented text of every constant expression = what the ordinary string environment renders"""
    env = jinja2.Environment()
    for src, key, text in CONSTS:
        got = env.from_string("{{ %s }}" % src).render()
        if got != text:
            raise core.HarnessError(f"C34 constant table: {{{{ {src} }}}} renders {got!r} in a string environment, table says {text!r}")
        rep = core.driver_batch([[Atom("native-tpl"), lc.enc_cfg(lc.CONFIGS["default"]), "{{ %s }}" % src, [], [], CONST_TABLE]])[0]
        if str(rep[0]) != "ok" or [str(x[0]) for x in rep[1]] != ["str"] or rep[1][0][1] != text:
            raise core.HarnessError(f"C34 constant table: the template model does not find {{{{ {src} }}}} under key {key!r}: {core.sx(rep)}")


def enc_value(vals, i):
    v = vals[i]
    return [Atom("str"), v] if isinstance(v, str) else [Atom("obj"), i, str(v)]


def run_tpl(ctx, res, jinja2, NativeEnvironment):
    rng = ctx.rng("tpl")
    vals = tpl_values(jinja2)
    check_const_table(jinja2, res)
    boost = 3 if (ctx.gen_changed or ctx.proof_broken or ctx.tie_broken) else 1
    n_random = ctx.pick(110, 1200) * boost
    stride = ctx.pick(9, 1)
    stats = {"templates": 0, "renders": 0, "oom": 0, "syntax-error": 0, "documented": {"value": 0, "none": 0, "lit": 0, "text": 0},
             "by_config": {}, "by_carrier": {}, "by_material": {}, "piece_counts": {}, "single_value_nonliteral": 0}
    distinct, samples = set(), []
    piece_diffs = []
    concrete = 0
    for cname in TPL_CONFIGS:
        c = lc.CONFIGS[cname]
        tpls = [t for k, t in enumerate(small_templates(c)) if (k + ctx.seed) % stride == 0]
        tpls += [t for k, t in enumerate(const_templates(c)) if (k + ctx.seed) % ctx.pick(5, 1) == 0]
        tpls += [random_template(rng, c) for _ in range(n_random)]
        seen, uniq = set(), []
        for t in tpls:
            if t[0] not in seen:
                seen.add(t[0])
                uniq.append(t)
        env = NativeEnvironment(**c)
        aenv = NativeEnvironment(**c, enable_async=True)
        reqs, meta = [], []
        for src, car, mats in uniq:
            for _ in range(2):
                xi = rng.randrange(N_NONLITERAL) if rng.random() < 0.75 else rng.randrange(len(vals))
                wi = rng.randrange(len(vals))
                cb = rng.random() < 0.7
                reqs.append([Atom("native-tpl"), lc.enc_cfg(c), src, [["x", enc_value(vals, xi)], ["w", enc_value(vals, wi)]],
                             [["c", cb]], CONST_TABLE])
                meta.append((src, car, mats, xi, wi, cb))
        replies = core.driver_batch(reqs)
        compiled = {}
        for (src, car, mats, xi, wi, cb), rep in zip(meta, replies):
            tag = str(rep[0])
            if tag != "ok":
                stats["oom" if tag == "oom" else "syntax-error"] += 1
                continue
            mpieces, mres = rep[1], rep[2]
            if any(lit(raw)[0] != "text" for raw in rep[3]):
                # a macro result the model took to be text is a Python literal: outside the model
                stats["oom"] += 1
                stats["macro_result_literal"] = stats.get("macro_result_literal", 0) + 1
                continue
            if rep[3]:
                stats["macro_result_text"] = stats.get("macro_result_text", 0) + 1
            data = {"x": vals[xi], "w": vals[wi], "c": cb}
            case = {"kind": "tpl", "config": cname, "src": src, "x": xi, "w": wi, "c": cb}
            if src not in compiled:
                try:
                    compiled[src] = (env.from_string(src), aenv.from_string(src))
                except Exception as e:  # noqa
                    compiled[src] = e
                stats["templates"] += 1
                stats["by_config"][cname] = stats["by_config"].get(cname, 0) + 1
                stats["by_carrier"][car] = stats["by_carrier"].get(car, 0) + 1
                for m in mats:
                    stats["by_material"][m] = stats["by_material"].get(m, 0) + 1
            if isinstance(compiled[src], Exception):
                e = compiled[src]
                res.violate("C34:tpl:compile", f"NativeEnvironment({cname}) cannot load {src!r}: {type(e).__name__}: {e}; the template "
                            f"model gives the pieces {core.sx(mpieces)}", dict(case, how="compile"))
                concrete += 1
                continue
            t, at = compiled[src]
            # documented result of the model's pieces
            if str(mres) == "none":
                exp = ("none",)
            elif str(mres[0]) == "value":
                exp = ("value", vals[int(mres[1])])
            else:
                exp = lit(mres[1])
            stats["documented"][exp[0]] += 1
            stats["piece_counts"][len(mpieces)] = stats["piece_counts"].get(len(mpieces), 0) + 1
            if exp[0] == "value" and int(mres[1]) < N_NONLITERAL:
                stats["single_value_nonliteral"] += 1
            distinct.add((cname, src, xi, wi, cb))
            # (1) the pieces the compiled root function yields = the model's pieces (strings by value, others by identity)
            try:
                got_pieces = list(t.root_render_func(t.new_context(dict(data))))
                same_pieces = len(got_pieces) == len(mpieces) and all(
                    (isinstance(g, str) and g == m[1]) if str(m[0]) == "str" else (g is vals[int(m[1])])
                    for g, m in zip(got_pieces, mpieces))
            except Exception as e:  # noqa
                got_pieces, same_pieces = f"raised:{type(e).__name__}: {e}", False
            if not same_pieces:
                piece_diffs.append((dict(case, how="pieces"), f"NativeEnvironment({cname}) {src!r} with x={vals[xi]!r} w={vals[wi]!r} c={cb}: "
                                    f"the root render function yields {got_pieces!r}; the template model's pieces are {core.sx(mpieces)}"))
            # (2) the three ways to render return the documented result of those pieces
            for how in ("render", "render_async", "async-env-render"):
                try:
                    if how == "render":
                        got = t.render(**data)
                    elif how == "render_async":
                        got = asyncio.run(at.render_async(**data))
                    else:
                        got = at.render(**data)
                    ok = check_result(got, exp)
                except Exception as e:  # noqa
                    got, ok = f"raised:{type(e).__name__}: {e}", False
                stats["renders"] += 1
                if not ok:
                    concrete += 1
                    res.violate(f"C34:tpl:{how}:{exp[0]}", f"NativeEnvironment({cname}) {how} of {src!r} with x={vals[xi]!r} w={vals[wi]!r} "
                                f"c={cb} gives {got!r}; documented {exp!r} (pieces {core.sx(mpieces)})", dict(case, how=how))
            if len(samples) < 3 and exp[0] == "value" and len(mats) >= 2 and all(x["config"] != cname for x in samples):
                samples.append({"config": cname, "src": src, "x": repr(vals[xi]), "documented": repr(exp)})
    if piece_diffs:
        # a piece list that differs from the model's: with a wrong result above it is explained by a concrete input;
        # alone it is a broken correspondence (an empty-string piece is a difference even where the result happens to agree)
        for case, what in piece_diffs[:3]:
            res.violate("C34:tpl:pieces", what + f" ({len(piece_diffs)} such cases)", case, no_input=(concrete == 0))
    stats["piece_differences"] = len(piece_diffs)
    stats["distinct"] = len(distinct)
    stats["samples"] = samples
    stats["rule"] = (f"templates = one carrier ({', '.join(CARRIERS)}) + 0-3 units that yield nothing (comments, empty raw blocks, "
                     "if true/endif, dead branches, set z = 1, line statements, line comments) at random positions, 0-3 compile-time "
                     f"constant output expressions from {len(CONSTS)} ({N_EMPTY_CONSTS} folding to '', others to whitespace, '0', '1', 2, "
                     "text) next to an output expression or anywhere, a whitespace run "
                     "(or none) between all tags, '-'/'+'/no sign on every tag side (70%: every run made removable), plus the "
                     f"systematic family carrier x unit x side x whitespace run x sign pair (every {stride}th in this tier) and the family "
                     "constant x position in the carrier / separated by set, comment, if true / with whitespace and signs / two "
                     f"constants (every {ctx.pick(5, 1)}th), under "
                     f"{len(TPL_CONFIGS)} lexer configurations, x/w from 27 values (75% from the 16 whose str() does not evaluate back to the "
                     "object); non-trivial = the Lean template model accepts it (not out-of-model / syntax error); compared: piece list of "
                     "the root render function, render, render_async, render in an async environment")
    return stats


def replay(ctx, case):
    c = case["case"]
    if c.get("kind") != "tpl":
        return c
    jinja2 = core.import_jinja()
    from jinja2.nativetypes import NativeEnvironment
    vals = tpl_values(jinja2)
    cfg = lc.CONFIGS[c["config"]]
    data = {"x": vals[c["x"]], "w": vals[c["w"]], "c": c["c"]}
    rep = core.driver_batch([[Atom("native-tpl"), lc.enc_cfg(cfg), c["src"],
                              [["x", enc_value(vals, c["x"])], ["w", enc_value(vals, c["w"])]], [["c", c["c"]]], CONST_TABLE]])[0]
    out = {"model": core.sx(rep), "data": repr(data)}
    try:
        t = NativeEnvironment(**cfg).from_string(c["src"])
        at = NativeEnvironment(**cfg, enable_async=True).from_string(c["src"])
        out["pieces"] = repr(list(t.root_render_func(t.new_context(dict(data)))))
        out["render"] = repr(t.render(**data))
        out["render_async"] = repr(asyncio.run(at.render_async(**data)))
        out["async-env-render"] = repr(at.render(**data))
    except Exception as e:  # noqa
        out["raised"] = f"{type(e).__name__}: {e}"
    return out
