"""C08 — compile-time constant folding never changes what a template renders."""
from __future__ import annotations

import asyncio

import translate.expr_tables as tr_expr
from harness import core, exprcommon as X

ID = "C08"
LEAN_MODULES = ["JinjaV.Props.C08", "JinjaV.Props.C02"]
GEN = [tr_expr.gen]
LEVEL = "proof"
TRUSTED = [
    "Model/Expr.lean: asConst/opt/outputConst are hand transcriptions of every Expr.as_const (nodes.py), Optimizer.generic_visit and "
    "CodeGenerator._output_child_to_const; which Impossible guards are present is READ from the source on every run "
    "(Gen/ExprTables.guards) and must equal the guard set the theorem needs (C02.guards_present, by decide)",
    "the reference evaluator and the value model are tied to the implementation by the C02/C08 correspondence runs",
    "statement-level uses of a constant expression (set, if, for, filter arguments) are covered by the three-way rendering "
    "oracle only (optimized / unoptimized / constants lifted into variables), not by the expression-level theorem",
]
ASSUMPTIONS = ["finalize is the default; custom finalize hooks and extensions' own as_const overrides are outside the model"]
CLAIM = dict(
    category="proof",
    technique="Lean 4 proof that constant folding (every as_const with its Impossible guards, the optimizer's bottom-up rewrite, and "
              "compile-time output pieces) is unobservable for every expression, context and escaping mode, over guards read from "
              "the source + three-way differential rendering (optimized / unoptimized / constants lifted into variables)",
    text="Theorems (Props/C08.lean): asConst_sound — whenever as_const yields a value, evaluating the expression at run time in any "
         "context yields exactly that value, no error and no operator-hook event, for static and for runtime-decided autoescape "
         "(the volatile guards of TemplateData/Filter/Test/Concat are what make this hold); opt_sound — the optimizer's rewrite "
         "preserves value, error and hook events of every expression; output_fold_sound and compile_render_sound — the whole "
         "pipeline for `{{ e }}` (optimizer on or off, output folding) equals plain evaluation followed by escape/str; "
         "volatile_no_fold. C02.guards_present re-proves by decide that the guards these theorems assume are the ones the current "
         "source contains. Tie: constant-rich random expression trees rendered under autoescape on/off/runtime-decided x "
         "optimized on/off and with every literal replaced by a context variable of the same value, in five statement positions; "
         "all renderings must agree with each other and (for `{{ e }}`) with the Lean evaluator. Named-template family: "
         "eval-context filters (join, replace, xmlattr, urlize) and `~` over plain and safe-marked constants in templates loaded by "
         "name (get_template / include / extends) under a callable autoescape (select_autoescape configurations and custom "
         "callables) with names for which the callable decides unlike for None: folded, unoptimized and constant-lifted "
         "renderings must agree (the compiler's and the run-time context's EvalContext must see the same name).",
    note="Trusted: Lean kernel; hand model of as_const (guards regenerated from source); value model by correspondence; custom "
         "finalize and extension nodes not modelled.",
    design_ref="§5 C08",
)

WRAPPERS = [
    ("out", "{{ %s }}"),
    ("set", "{%% set q = %s %%}{{ q }}"),
    ("if", "{%% if %s %%}T{%% else %%}F{%% endif %%}"),
    ("for", "{%% for q in [%s] %%}{{ q }}{%% endfor %%}"),
    ("arg", "{{ 'x'|default(%s) ~ (none|default(%s, true)) }}"),
]


def variants(jinja2):
    V = X.Variant
    out = []
    for ae in (False, True):
        for opt in (True, False):
            out.append(V(jinja2, autoescape=ae, optimized=opt))
            for flag in (False, True):
                out.append(V(jinja2, autoescape=ae, optimized=opt, volatile=flag))
    for opt in (True, False):
        # a static autoescape block that differs from the environment's setting
        out.append(V(jinja2, autoescape=True, env_autoescape=False, optimized=opt))
        out.append(V(jinja2, autoescape=False, env_autoescape=True, optimized=opt))
        out.append(V(jinja2, autoescape=True, is_async=True, optimized=opt))
        out.append(V(jinja2, autoescape=True, sandboxed=True, ic_bin=("+", "*"), ic_un=("-",), hook="perturb", optimized=opt))
    return out


def render_wrapped(v, wrapper, src, data):
    kind, pat = wrapper
    body = pat % ((src,) * pat.count("%s"))
    text = v.wrap(body)
    if v.volatile is not None:
        data = dict(data, vflag=v.volatile)
    v.log = []
    try:
        t = v.env.from_string(text)
        if v.is_async:
            return ("ok", asyncio.run(t.render_async(**data)))
        return ("ok", t.render(**data))
    except Exception as e:  # noqa
        name = type(e).__name__
        return ("err", X.ERRMAP.get(name, "other:" + name))


def family_corpus():
    """A fixed part of every run: each *family* of folded constant that is written back into generated code next to a
    run-time operator of another precedence, crossed with the operators it can meet (not seed inputs: the whole product)."""
    A, c, n = X.A, X.c, X.n
    negs = [[A("un"), "-", c(2)], [A("un"), "-", c(3)], [A("bin"), "-", c(1), c(4)],                      # negative ints
            [A("bin"), "/", [A("un"), "-", c(5)], c(2)], [A("bin"), "/", c(7), [A("un"), "-", c(2)]],     # negative floats
            [A("bin"), "*", [A("bin"), "/", c(3), c(2)], [A("un"), "-", c(1)]],
            [A("bin"), "//", [A("un"), "-", c(7)], c(2)], [A("bin"), "%", [A("un"), "-", c(7)], c(3)]]
    out = []
    for neg in negs:
        for var in (n("i"), n("j"), [A("item"), n("xs"), c(0)]):
            out += [[A("bin"), "**", neg, var], [A("bin"), "**", var, neg], [A("un"), "-", [A("bin"), "**", neg, var]],
                    [A("bin"), "-", var, neg], [A("bin"), "*", neg, var], [A("filter"), [A("bin"), "**", neg, var], "abs"],
                    [A("bin"), "%", neg, var], [A("bin"), "//", neg, var], [A("item"), [A("list"), neg, var], c(0)],
                    [A("cmp"), neg, ["lt", var]], [A("cat"), neg, var]]
    return out


RAW_FAMILY = [
    # constant operands whose folded value is an instance of a SUBCLASS of a builtin type (groupby's _GroupTuple, Markup,
    # the tuples of dictsort/items), consumed by something that is not folded itself; outside the tree grammar (kwargs)
    ("{{ [{'k': 1, 'v': 'a'}, {'k': 2, 'v': 'b'}, {'k': 1, 'v': 'c'}]|groupby('k')|map(attribute='grouper')|list }}", {}),
    ("{% for g in [{'k': 1}, {'k': 2}, {'k': 1}]|groupby('k') %}{{ g.grouper }}:{{ g.list|length }};{% endfor %}", {}),
    ("{{ ([{'k': 1}, {'k': 2}]|groupby('k'))[i].grouper }}|{{ ([{'k': 1}, {'k': 2}]|groupby('k'))[i].list }}", {"i": 1}),
    ("{{ ([{'k': 1}]|groupby('k')|first).grouper }}", {}),
    ("{{ [{'k': 'x'}]|groupby('k')|map('first')|list }}|{{ [{'k': 'x'}]|groupby('k')|map('last')|list }}", {}),
    ("{{ ({'b': 1, 'a': 2}|dictsort)[i][0] }}|{{ ({'b': 1, 'a': 2}|items|list)[i] }}", {"i": 0}),
    ("{{ (('<b>'|safe), 1)[i] is escaped }}|{{ [('<b>'|safe)][i] ~ '<i>' }}", {"i": 0}),
    ("{{ ('<b>'|safe|string)[i:] is escaped }}|{{ ('a'|safe ~ 'b') is escaped }}", {"i": 0}),
    ("{{ (range(3)|list)[i] }}|{{ range(3)[i] }}|{{ (1, 2)|list|first + i }}", {"i": 1}),
    ("{{ [1.5, 2]|sum + i }}|{{ (3 / 2)|round(i) }}|{{ [3, 1]|sort|first * i }}", {"i": 1}),
    # constants that have no literal spelling of their own: nan, +-inf, -0.0, huge ints, complex-free forms
    ("{{ 'nan'|float|int(d) }}|{{ 'NaN'|float|round(p) }}|{% set x = ' nan '|float %}{{ x }}|{{ ('-nan'|float) == ('nan'|float) }}", {"d": 7, "p": 1}),
    ("{{ 'inf'|float > i }}|{{ ('-inf'|float)|abs|string ~ s }}|{% set y = 'Infinity'|float %}{{ y }}|{{ ('inf'|float)|int(d) }}", {"i": 1, "s": "!", "d": 7}),
    ("{{ (1e308 * 10) > i }}|{{ (-1e308 * 10) < i }}|{{ ((1e308 * 10) - (1e308 * 10))|string ~ s }}", {"i": 1, "s": "!"}),
    ("{{ (-0.0)|string ~ s }}|{{ (0 * -1.0)|string ~ s }}|{{ (2 ** 200) % i }}|{{ (10 ** 30) // i }}", {"i": 7, "s": "!"}),
]


def raw_family_pass(res, jinja2):
    """optimized and unoptimized environments (plain, autoescaping, sandboxed, async) must render these the same"""
    import asyncio as _a
    from jinja2.sandbox import SandboxedEnvironment
    n = 0
    for src, data in RAW_FAMILY:
        for label, mk in (("plain", lambda o: jinja2.Environment(optimized=o)),
                          ("autoescape", lambda o: jinja2.Environment(optimized=o, autoescape=True)),
                          ("sandboxed", lambda o: SandboxedEnvironment(optimized=o)),
                          ("async", lambda o: jinja2.Environment(optimized=o, enable_async=True))):
            outs = []
            for o in (True, False):
                env = mk(o)
                try:
                    t = env.from_string(src)
                    outs.append(("ok", _a.run(t.render_async(**data)) if env.is_async else t.render(**data)))
                except Exception as e:  # noqa
                    outs.append(("err", type(e).__name__))
                n += 1
            if outs[0] != outs[1]:
                res.violate(f"C08:raw-family:{label}", f"{src!r} with {data!r} ({label}): optimized renders {outs[0]!r} but unoptimized "
                            f"renders {outs[1]!r}", {"src": src, "data": data, "config": label})
    return n


# ---------------------------------------------------------------------------------------------
# named templates under a CALLABLE autoescape setting
# ---------------------------------------------------------------------------------------------
# Environment.autoescape may be a function of the template name (select_autoescape or any callable). The compiler asks it
# about the template's name (CodeGenerator.visit_Template: EvalContext(env, name)) and so does the run-time context
# (Context.__init__: EvalContext(env, name)); constant folding is only unobservable when both get the same answer. Everything
# else in this runner uses from_string (name None) and a bool, where the two can never differ.

def _ends_html(name):
    return name is not None and name.lower().endswith((".html", ".htm"))


def _not_txt(name):
    return name is None or not name.endswith(".txt")


def _only_strings(name):
    return name is None


def _never_strings(name):
    return name is not None


AE_CONFIGS = {
    "select_autoescape()": lambda j: j.select_autoescape(),
    "select_autoescape(default_for_string=False)": lambda j: j.select_autoescape(default_for_string=False),
    "select_autoescape(('html','xml'),default=True)": lambda j: j.select_autoescape(("html", "xml"), disabled_extensions=("txt",),
                                                                                    default=True),
    "select_autoescape(enabled=('txt',),disabled=('html',),default_for_string=False)":
        lambda j: j.select_autoescape(enabled_extensions=("txt",), disabled_extensions=("html",), default_for_string=False),
    "select_autoescape((),default=True,default_for_string=False)": lambda j: j.select_autoescape((), default=True,
                                                                                                 default_for_string=False),
    "custom:ends_html": lambda j: _ends_html,
    "custom:not_txt": lambda j: _not_txt,
    "custom:only_strings": lambda j: _only_strings,
    "custom:never_strings": lambda j: _never_strings,
}
AE_NAMES = ["t.txt", "t.html", "t.xml", "t", "sub/page.HTML", "mail.txt", "a.html.txt", "feed.xml", "notes.md", "x.htm"]
NAMED_WRAPPERS = WRAPPERS + [
    # the mode after a static block must be the template's own again (EvalContext.revert at both times)
    ("after-block-true", "{%% autoescape true %%}{{ %s }}{%% endautoescape %%}|{{ %s }}"),
    ("after-block-false", "{%% autoescape false %%}{{ %s }}{%% endautoescape %%}|{{ %s }}"),
    ("filter-block", "{%% filter replace('x', %s) %%}axb{%% endfilter %%}"),
]
LOAD_ROUTES = ["get", "get", "include", "extends"]
SENSITIVE_FILTERS = ("join", "replace", "xmlattr", "urlize")


class NamedGen:
    """expressions whose value depends on the escaping mode in force where they are EVALUATED: the eval-context filters
    (join, replace, xmlattr, urlize) and `~` over plain and safe-marked constants, nested, and optionally next to a variable so
    that only the optimizer (not the output statement) folds the constant part"""

    PLAIN = ["<a>", "a&b", "<p>x</p>", "it's", 'say "q"', "x", "http://e.x/?a=1&b=<2>", "see www.ex.com/x <now>", "&lt;", ""]
    KEYS = ["title", "class", "data-x", "id"]

    def __init__(self, rng):
        self.rng = rng

    def pick(self, xs):
        return self.rng.choice(xs)

    def plain(self):
        return X.cs(self.pick(self.PLAIN))

    def safe(self):
        return [X.A("filter"), X.cs(self.pick(["<b>", "<i>x</i>", "x", "a&amp;b", "<br>"])), self.pick(["safe", "safe", "escape"])]

    def var(self):
        return X.n(self.pick(["s", "u", "m", "i", "zz"]))

    def operand(self, d, consts=0.9):
        r = self.rng
        if d > 0 and r.random() < 0.35:
            return self.sens(d - 1, consts)
        if r.random() > consts:
            return self.var()
        return self.safe() if r.random() < 0.5 else self.plain()

    def sens(self, d, consts=0.9):
        A, r = X.A, self.rng
        k = r.random()
        if k < 0.3:
            items = [self.operand(d, consts) for _ in range(r.randrange(1, 4))]
            if not any(i[0] == "filter" and i[2] in ("safe", "escape") for i in items):
                items.insert(r.randrange(0, len(items) + 1), self.safe())
            e = [A("filter"), [A(self.pick(["list", "list", "tuple"]))] + items, "join"]
            if r.random() < 0.7:
                e.append(self.pick([X.cs(", "), X.cs("<"), X.cs("&"), self.safe()]))
            return e
        if k < 0.5:
            e = [A("filter"), self.operand(d, consts), "replace", X.cs(self.pick(["x", "<", "a", "&"])), self.operand(d, consts)]
            if r.random() < 0.2:
                e.append(X.c(1))
            return e
        if k < 0.65:
            pairs = [[X.cs(key), self.operand(d, consts)] for key in r.sample(self.KEYS, r.randrange(1, 3))]
            e = [A("filter"), [A("dict")] + pairs, "xmlattr"]
            if r.random() < 0.3:
                e.append(X.c(False))
            return e
        if k < 0.8:
            e = [A("filter"), self.operand(d, consts), "urlize"]
            if r.random() < 0.3:
                e.append(X.c(r.randrange(5, 20)))
            return e
        return [A("cat")] + [self.operand(d, consts) for _ in range(r.randrange(2, 4))]

    def top(self, d):
        """a sensitive expression made observable: what it yields (str or Markup) meets one more `~`/join/test"""
        A, r = X.A, self.rng
        e = self.sens(d, consts=self.pick([1.0, 1.0, 0.85]))
        k = r.random()
        if k < 0.2:
            return e
        if k < 0.4:
            return [A("cat"), e, X.cs("<>")]
        if k < 0.6:      # constant part of a non-constant expression: folded by the optimizer only
            return self.pick([[A("cat"), e, self.var()], [A("cat"), self.var(), e], [A("cat"), e, X.n("i"), X.cs("<>")]])
        if k < 0.75:
            return [A("filter"), [A("list"), e, self.pick([X.cs("<>"), self.var()])], "join", X.cs("&")]
        if k < 0.85:
            return [A("filter"), self.pick([X.cs("axb"), self.var()]), "replace", X.cs("x"), e]
        if k < 0.93:
            return [A("test"), e, "escaped"]
        return [A("cond"), X.n("b"), e, [A("cat"), e, X.cs("&")]]


def top_kind(e):
    """the outermost eval-context-sensitive operation of the tree (for the violation key)"""
    if isinstance(e, list):
        if e and isinstance(e[0], core.Atom):
            if e[0] == "filter" and e[2] in SENSITIVE_FILTERS:
                return e[2]
            if e[0] == "cat":
                for x in e[1:]:
                    k = top_kind(x)
                    if k != "other":
                        return k
                return "concat"
        for x in e:
            k = top_kind(x)
            if k != "other":
                return k
    return "other"


def named_sources(name, route, body):
    """the loader mapping and the template to render, for one way of reaching template `name` by name"""
    if route == "include":        # reached from a parent whose own name decides the other way as often as not
        return {name: body, "main.html": "{% include '" + name + "' %}", "main.txt": "{% include '" + name + "' %}"}
    if route == "extends":
        return {name: "{% extends 'base.tpl' %}{% block b %}" + body + "{% endblock %}", "base.tpl": "[{% block b %}{% endblock %}]"}
    return {name: body}


def named_render(jinja2, cfg, name, route, parent, body, optimized, data):
    env = jinja2.Environment(loader=jinja2.DictLoader(named_sources(name, route, body)), autoescape=AE_CONFIGS[cfg](jinja2),
                             optimized=optimized)
    try:
        return ("ok", env.get_template(parent if route == "include" else name).render(**data))
    except Exception as e:  # noqa
        cls = type(e).__name__
        return ("err", X.ERRMAP.get(cls, "other:" + cls))


def named_case(jinja2, cfg, name, route, parent, wrapper, src, lsrc, data, ldata):
    pat = wrapper[1]
    body, lbody = pat % ((src,) * pat.count("%s")), pat % ((lsrc,) * pat.count("%s"))
    return [("optimized=True", named_render(jinja2, cfg, name, route, parent, body, True, data)),
            ("optimized=False", named_render(jinja2, cfg, name, route, parent, body, False, data)),
            ("constants-lifted", named_render(jinja2, cfg, name, route, parent, lbody, True, ldata)),
            ("constants-lifted optimized=False", named_render(jinja2, cfg, name, route, parent, lbody, False, ldata))]


def named_autoescape_pass(ctx, res, jinja2, broken):
    """callable autoescape x templates loaded by name: folded / unoptimized / constant-lifted renderings must agree"""
    rng = ctx.rng("c08", "named-autoescape")
    ncases = ctx.pick(500, 5000) * (3 if broken else 1)
    ng = NamedGen(rng)
    g = X.Gen(rng, consts=0.75, mismatch=0.05)
    trees = []
    for _ in range(ncases):
        trees.append(ng.top(rng.randrange(0, 3)) if rng.random() < 0.8 else g.str(rng.randrange(1, 4)))
    lifted, lenvs = [], []
    for t in trees:
        env = {}
        lifted.append(X.lift_consts(t, env))
        lenvs.append({k: X.wire_to_py(jinja2, v) for k, v in env.items()})
    srcs, lsrcs = X.pretty_batch(trees), X.pretty_batch(lifted)
    cfgs = sorted(AE_CONFIGS)
    decide = {c: AE_CONFIGS[c](jinja2) for c in cfgs}
    differing = [(c, nm) for c in cfgs for nm in AE_NAMES if bool(decide[c](nm)) != bool(decide[c](None))]
    evaluations, disagreements, distinct, mode_sensitive = 0, 0, set(), 0
    dist = {"name_decides_unlike_None": 0, "name_decides_like_None": 0, "route": {}, "wrapper": {}, "config": {}, "kind": {}}
    samples = []
    for tree, src, lsrc, lenv in zip(trees, srcs, lsrcs, lenvs):
        data = X.make_data(jinja2, rng)
        if rng.random() < 0.8:
            cfg, name = rng.choice(differing)
        else:
            cfg, name = rng.choice(cfgs), rng.choice(AE_NAMES)
        route = rng.choice(LOAD_ROUTES)
        parent = rng.choice(["main.html", "main.txt"])
        wrapper = rng.choice(NAMED_WRAPPERS) if rng.random() < 0.5 else NAMED_WRAPPERS[0]
        outs = named_case(jinja2, cfg, name, route, parent, wrapper, src, lsrc, data, dict(data, **lenv))
        evaluations += len(outs)
        differs = bool(decide[cfg](name)) != bool(decide[cfg](None))
        kind = top_kind(tree)
        dist["name_decides_unlike_None" if differs else "name_decides_like_None"] += 1
        for k, v in (("route", route), ("wrapper", wrapper[0]), ("config", cfg), ("kind", kind)):
            dist[k][v] = dist[k].get(v, 0) + 1
        # measured, not an oracle: does this very template render differently when the mode is a plain bool True vs False?
        pat = wrapper[1]
        body = pat % ((src,) * pat.count("%s"))
        both = []
        for ae in (True, False):
            try:
                both.append(jinja2.Environment(autoescape=ae).from_string(body).render(**data))
            except Exception as e:  # noqa
                both.append(type(e).__name__)
        evaluations += 2
        sens = both[0] != both[1]
        if differs and sens:
            mode_sensitive += 1
            distinct.add((src, wrapper[0], cfg, name, route))
            if len(samples) < 3:
                samples.append({"template": body, "name": name, "autoescape": cfg, "route": route, "lifted": lsrc})
        first = outs[0][1]
        for label, o in outs[1:]:
            if o != first:
                disagreements += 1
                res.violate(f"C08:named-autoescape:{route}:{wrapper[0]}:{kind}",
                            f"template {name!r} = {body!r} loaded by name ({route}) with autoescape={cfg} "
                            f"[decides {bool(decide[cfg](name))} for {name!r}, {bool(decide[cfg](None))} for None]: "
                            f"{outs[0][0]} renders {first!r} but {label} renders {o!r}"
                            + (f" (lifted source {lsrc!r})" if label.startswith("constants-lifted") else ""),
                            {"named": True, "src": src, "lifted": lsrc, "lifted_values": {k: repr(x) for k, x in lenv.items()},
                             "wrapper": wrapper[0], "name": name, "autoescape": cfg, "route": route, "parent": parent,
                             "data": {k: repr(x) for k, x in data.items()}})
                break
    return {"named_autoescape": {
        "cases": ncases, "evaluations": evaluations, "disagreements": disagreements,
        "mode_sensitive_and_name_decides_unlike_None": mode_sensitive, "distinct_nontrivial": len(distinct),
        "distribution": dist, "samples": samples}}


def run(ctx, res):
    jinja2 = core.import_jinja()
    rng = ctx.rng("c08")
    vs = variants(jinja2)
    groups = {}
    for v in vs:                       # variants that must agree: same everything but `optimized`
        groups.setdefault((v.autoescape, v.env_autoescape, v.volatile, v.sandboxed, v.is_async), []).append(v)
    broken = bool(ctx.gen_changed or ctx.proof_broken or ctx.tie_broken)
    ntrees = ctx.pick(900, 8000) * (4 if broken else 1)      # a broken proof/tie: search harder for a failing input
    maxd = ctx.pick(4, 5)
    g = X.Gen(rng, consts=0.75, mismatch=0.12)
    trees = family_corpus() + [g.any(rng.randrange(1, maxd + 1)) for _ in range(ntrees)]
    lifted, lenvs = [], []
    for t in trees:
        env = {}
        lifted.append(X.lift_consts(t, env))
        lenvs.append({k: X.wire_to_py(jinja2, v) for k, v in env.items()})
    srcs = X.pretty_batch(trees)
    lsrcs = X.pretty_batch(lifted)

    reqs, jobs = [], []
    evaluations, distinct, folded, oom, disagreements = 0, set(), 0, 0, 0
    kinds = {}
    gkeys = sorted(groups, key=str)
    static_keys = [k for k in gkeys if k[1] is not None and k[0] != k[1]]      # static autoescape block against the environment's setting
    for tree, src, lsrc, lenv in zip(trees, srcs, lsrcs, lenvs):
        data = X.make_data(jinja2, rng)
        vars_, objs = X.ctx_sx(jinja2, data)
        gkey = rng.choice(static_keys) if rng.random() < 0.3 else rng.choice(gkeys)
        wrapper = rng.choice(WRAPPERS) if rng.random() < 0.5 else WRAPPERS[0]
        outs = []
        for v in groups[gkey]:
            outs.append((f"optimized={v.optimized}", render_wrapped(v, wrapper, src, data)))
        vopt = groups[gkey][0]
        outs.append(("constants-lifted", render_wrapped(vopt, wrapper, lsrc, dict(data, **lenv))))
        evaluations += len(outs)
        X.kinds(tree, kinds)
        distinct.add((src, wrapper[0], vopt.label()))
        first = outs[0][1]
        for name, o in outs[1:]:
            if o != first:
                disagreements += 1
                what = "volatile" if vopt.volatile is not None else ("autoescape" if vopt.autoescape else "plain")
                text = wrapper[1] % ((src,) * wrapper[1].count("%s"))
                res.violate(f"C08:three-way:{wrapper[0]}:{tree[0]}:{what}",
                            f"{text!r} under [{vopt.label()}]: {outs[0][0]} renders {first!r} but {name} renders {o!r}"
                            + (f" (lifted source {lsrc!r})" if name == "constants-lifted" else ""),
                            {"src": src, "lifted": lsrc, "lifted_values": {k: repr(x) for k, x in lenv.items()}, "wrapper": wrapper[0],
                             "variant": vopt.label(), "data": {k: repr(x) for k, x in data.items()}})
                break
        if wrapper[0] == "out":
            reqs.append(vopt.request(tree, vars_, objs))
            jobs.append((tree, src, vopt, first))
    reps = core.driver_batch(reqs)
    for (tree, src, v, got), rep in zip(jobs, reps):
        want, _ = X.model_result(rep, "ref")
        comp, _ = X.model_result(rep, "comp")
        if X.model_folded(rep):
            folded += 1
        if want == ("err", "oom") or comp == ("err", "oom"):
            oom += 1
            continue
        if comp != want and not broken:
            raise core.HarnessError(f"model pipeline differs from its reference on {src!r} although proved equal")
        if got != want:
            res.violate(f"C08:model:{tree[0]}", f"{{{{ {src} }}}} under [{v.label()}] renders {got!r}; the reference evaluator gives {want!r}",
                        {"src": src, "variant": v.label()})
    evaluations += raw_family_pass(res, jinja2)
    named = named_autoescape_pass(ctx, res, jinja2, broken)
    evaluations += named["named_autoescape"]["evaluations"]
    res.coverage.update(named)
    res.coverage.update({
        "evaluations": evaluations, "distinct_nontrivial": len(distinct) + named["named_autoescape"]["distinct_nontrivial"],
        "rule": (f"{ntrees} constant-rich random expression trees (depth 1-{maxd}); each rendered in one of 5 statement positions under "
                 "one of 10 configurations (autoescape off/on, switched by a static autoescape block against the environment's setting, "
                 "decided at run time by an autoescape block with flag true/false, plus async and sandboxed-with-interception) with optimizer on and off and with every literal lifted into a context "
                 "variable; all renderings must be equal; `{{ e }}` forms are also compared with the Lean evaluator; distinct = "
                 "distinct (source, position, configuration). Plus the named-template family: "
                 f"{named['named_autoescape']['cases']} expressions built from the eval-context filters (join, replace, xmlattr, "
                 "urlize) and `~` over plain and safe-marked constants (nested; alone or next to a variable), placed in 8 statement "
                 "positions in a template LOADED BY NAME (get_template / include / extends) under a callable autoescape setting "
                 "(5 select_autoescape configurations, 4 custom callables) x 10 template names, 80% with a name for which the "
                 "callable decides differently than for None; rendered optimized / unoptimized / constants lifted (optimizer on "
                 "and off), all four must agree; non-trivial there = the name decides unlike None AND the template measurably "
                 "renders differently under autoescape True and False"),
        "samples": [{"src": srcs[i], "lifted": lsrcs[i]} for i in (1, len(srcs) // 2)],
        "folded_at_compile_time_by_model": folded, "model_compared": len(jobs) - oom, "out_of_model": oom,
        "three_way_disagreements": disagreements, "node_kinds": kinds,
    })


def _unrepr(text):
    """the value a replay file recorded as repr(): literals and Markup(...) only (objects and functions are dropped)"""
    import ast
    from markupsafe import Markup

    def conv(node):
        if isinstance(node, ast.Call) and getattr(node.func, "id", None) == "Markup" and len(node.args) == 1:
            return Markup(conv(node.args[0]))
        if isinstance(node, ast.List):
            return [conv(x) for x in node.elts]
        if isinstance(node, ast.Tuple):
            return tuple(conv(x) for x in node.elts)
        if isinstance(node, ast.Dict):
            return {conv(k): conv(v) for k, v in zip(node.keys, node.values)}
        return ast.literal_eval(node)
    return conv(ast.parse(text, mode="eval").body)


def _replay_data(reprs):
    out = {}
    for k, text in reprs.items():
        try:
            out[k] = _unrepr(text)
        except Exception:  # noqa
            pass
    return out


def replay(ctx, case):
    jinja2 = core.import_jinja()
    c = case["case"]
    out = {}
    if c.get("named"):
        pat = dict(NAMED_WRAPPERS)[c["wrapper"]]
        body, lbody = pat % ((c["src"],) * pat.count("%s")), pat % ((c["lifted"],) * pat.count("%s"))
        data = _replay_data(c.get("data", {}))
        ldata = dict(data, **_replay_data(c.get("lifted_values", {})))
        head = f"{c['name']} autoescape={c['autoescape']} route={c['route']}"
        for label, o in named_case(jinja2, c["autoescape"], c["name"], c["route"], c.get("parent", "main.html"), (c["wrapper"], pat),
                                   c["src"], c["lifted"], data, ldata):
            out[f"{head} {label}"] = o[1]
        return out
    for ae in (False, True):
        for opt in (True, False):
            env = jinja2.Environment(autoescape=ae, optimized=opt)
            try:
                out[f"ae={ae} opt={opt}"] = env.from_string("{{ " + c["src"] + " }}").render()
            except Exception as e:  # noqa
                out[f"ae={ae} opt={opt}"] = repr(e)
    return out
