"""C35 — errors point at the template line that caused them.

Lean side (Props/C35.lean): token / lexer-error lines (from C39's invariant), and the code generator's line
bookkeeping (Model/DebugInfo.lean): debug_info monotone, code_lineno tracks the stream, string round trip,
get_corresponding_lineno = interval lookup, a node's code maps back to the node's line.

Tie (this file):
  L-unit  Template.debug_info / get_corresponding_lineno on arbitrary tables vs the model's decode / lookup
  L-code  the real CodeGenerator (a logging subclass installed through environment.code_generator_class) emits an op
          stream; the Lean state machine is driven with the same ops; code_lineno, debug_info, its string, the
          generated source and the line map for every code line must agree; the *real* table is then checked
          against node_line_recorded (each announced node's first code line maps back to node.lineno)
  L-e2e   runtime: one raising call at a random line inside random nesting -> innermost template frame of
          traceback.extract_tb must name the template and the line of the anchor token as numbered by the Lean lexer
          model; syntax: one malformed construct -> TemplateSyntaxError.lineno = line of the offending token as
          numbered by the Lean lexer model
"""
from __future__ import annotations

import asyncio
import os
import shutil
import tempfile
import traceback

from harness import core
from harness import lexcommon as lc
from harness.core import Atom
from harness.gen import c35gen

ID = "C35"
LEAN_MODULES = ["JinjaV.Props.C35"]
LEVEL = "proof"
TRUSTED = [
    "Model/DebugInfo.lean is a hand transcription of CodeGenerator.write/newline/indent/outdent, the debug_info string and "
    "Template.debug_info/get_corresponding_lineno; tied by driving it with the real generator's own call stream (L-code) and by "
    "L-unit lookups; which node the compiler announces for which statement is observed, not modelled",
    "the lexer model (Model/Lex.lean, validated differentially by C39) supplies the expected line of every anchor/offending token; "
    "which token's line the parser gives a node (tag keyword; top node of an expression) is the generator's stated convention",
    "CPython's tb_lineno, debug.rewrite_traceback_stack / fake_traceback (compile of '\\n'*(lineno-1)+'raise', frame filtering by "
    "internal_code, tb_next splicing) are not modelled: covered end to end only (partial)",
]
ASSUMPTIONS = [
    "the line of a construct is the line of its anchor token: the tag keyword for block tags (first token of the test for elif), "
    "the token carrying the top node's line for {{ expr }} and loop filters; with no line break before the anchor this is the line "
    "on which the tag starts (DESIGN §5 C35)",
    "node line numbers are >= 1 and write() texts contain no line break (checked on every compiled template)",
]
CLAIM = dict(
    category="proof",
    technique="Lean 4 invariant proofs over the code generator's line-bookkeeping state machine and the line-map lookup (all call "
              "sequences, all tables) + C39's lexer line invariant + correspondence: real CodeGenerator call streams replayed in the "
              "model, end-to-end tracebacks and TemplateSyntaxError.lineno against lines numbered by the Lean lexer model",
    text="Theorems (Props/C35.lean over Model/DebugInfo.lean and Model/Lex.lean): every token's line and every lexer error's line is "
         "1 + the line breaks before it and lies within the template (token_line_in_source, lexer_error_line_in_source); for every "
         "sequence of write/newline/indent/outdent calls the recorded code lines are strictly increasing, >= 2 and <= code_lineno "
         "(debug_info_monotone), code_lineno is 1 + the line breaks written (code_lineno_tracks_stream), every reported line is 1 or "
         "the line of an announced node (reported_line_is_a_node_line); for every increasing table get_corresponding_lineno returns "
         "the template line of the entry whose code interval contains the line, else 1 (corresponding_lineno_spec; composed with "
         "monotonicity for every generated table: generated_table_lookup); "
         "decode(encode t) = t for the debug_info string (debug_info_roundtrip); after newline(node); write(x) in any history with a "
         "previous write, the line on which x starts and every later code line map back to node.lineno until a node on another line "
         "is announced (node_line_recorded, node_text_line; first_write_records_nothing shows the hypothesis is needed). Tie: the real "
         "CodeGenerator's call stream (logging subclass) for every generated template is replayed in the model and code_lineno, "
         "debug_info, its string, the generated source and the lookup for every code line are compared; the real table is checked "
         "against node_line_recorded; one raising call (sync and async callable) inside random nesting (if/else/elif/for/else/"
         "recursive/macro/call/filter/set-block/with/autoescape/block/include/import/from/extends incl. super and grandparent), "
         "multi-line tags, -/+ signs, trim_blocks/lstrip_blocks/keep_trailing_newline/ERB delimiters/line statements, LF/CRLF/CR, "
         "Dict/Function/FileSystem loaders and from_string, render/generate/stream/render_async/generate_async: the innermost "
         "template frame must carry the template's filename and the anchor token's line as numbered by the Lean lexer; one malformed "
         "construct (22 forms, lexer-, parser- and compiler-level) -> TemplateSyntaxError.lineno/name equal the offending token's "
         "line/template.",
    note="Partial: traceback rewriting (debug.py rewrite_traceback_stack/fake_traceback, frame filtering) and tb_lineno are CPython "
         "machinery, covered by correspondence only; the parser's and compiler's choice of node per statement is observed, not "
         "modelled. Four defects found by this check were repaired in /repo (d69e3bf with, d82a9b0 autoescape, d225a97 comparison "
         "line, ca2f1be name/filename of unterminated comment/raw errors); the shapes stay in the generators. Trusted: Lean kernel; "
         "hand models tied by correspondence.",
    design_ref="§5 C35",
)

NLS = ["\n", "\r\n", "\r"]
RT_CONFIGS = ["default", "trim", "lstrip", "trim+lstrip", "keepnl", "erb", "line", "line-pct", "line-keep"]


class _Boom(Exception):
    pass


def _boom(*a, **k):
    raise _Boom("c35")


async def _aboom(*a, **k):
    raise _Boom("c35")


def _globals(async_boom):
    return dict(boom=_aboom if async_boom else _boom, ident=lambda v: v, xs=[1, 2], x=1, s="abc", yes=True, no=False)


# ------------------------------------------------------------------------------------------------
# Lean lexer: line of the token at an offset
# ------------------------------------------------------------------------------------------------

IGNORED = {"whitespace", "comment_begin", "comment", "comment_end", "linecomment_begin", "linecomment", "linecomment_end",
           "raw_begin", "raw_end", "ghost"}


def token_line_at(model, offset):
    pos = 0
    for ln, kind, text in model["all"]:
        if pos == offset and kind != "ghost" and text != "":
            return ln
        if pos > offset:
            return None
        pos += len(text)
    return None


def last_token_line(model):
    ln = None
    for l, kind, text in model["all"]:
        if kind not in IGNORED:
            ln = l
    return ln


# ------------------------------------------------------------------------------------------------
# L-unit: Template.debug_info / get_corresponding_lineno on arbitrary tables
# ------------------------------------------------------------------------------------------------

def part_unit(ctx, res, jinja2, cov):
    rng = ctx.rng("unit")
    t = jinja2.Environment().from_string("x")
    tables = [[], [(1, 2)], [(3, 2), (7, 5)], [(5, 9), (2, 4)], [(1, 3), (1, 3)], [(10, 2), (1, 100)]]
    for _ in range(ctx.pick(300, 3000)):
        n = rng.randrange(0, 7)
        if rng.random() < 0.7:      # increasing code lines (what the generator produces)
            cl, tab = 1, []
            for _ in range(n):
                cl += rng.randrange(1, 5)
                tab.append((rng.randrange(1, 40), cl))
        else:
            tab = [(rng.randrange(0, 40), rng.randrange(0, 40)) for _ in range(n)]
        tables.append(tab)
    reqs, lines_of = [], []
    for tab in tables:
        s = "&".join(f"{a}={b}" for a, b in tab)
        top = max([b for _, b in tab] + [3]) + 3
        ls = list(range(0, top))
        reqs.append([Atom("dbg-corr"), s, ls])
        reqs.append([Atom("dbg-encode"), [[a, b] for a, b in tab]])
        lines_of.append((tab, s, ls))
    reps = core.driver_batch(reqs)
    n_eval, distinct = 0, set()
    for i, (tab, s, ls) in enumerate(lines_of):
        rc, re_ = reps[2 * i], reps[2 * i + 1]
        t._debug_info = s
        real_tab = [list(p) for p in t.debug_info]
        real_lines = [t.get_corresponding_lineno(l) for l in ls]
        n_eval += len(ls) + 1
        distinct.add(s)
        if str(rc[0]) != "ok" or str(re_[0]) != "ok":
            res.violate("C35:unit:model-declines", f"model declines table {tab}", {"table": tab}, no_input=True)
            continue
        if re_[1] != s:
            res.violate("C35:unit:encode", f"encode {tab}: python {s!r} model {re_[1]!r}", {"table": tab}, no_input=True)
        if real_tab != [list(p) for p in rc[1]] or real_tab != [list(p) for p in tab]:
            res.violate("C35:unit:debug_info-decode", f"Template.debug_info for {s!r} is {real_tab}, the table encoded was {tab}",
                        {"part": "unit", "debug_info": s})
        if real_lines != list(rc[2]):
            bad = [(l, a, b) for l, a, b in zip(ls, real_lines, rc[2]) if a != b][:3]
            res.violate("C35:unit:get_corresponding_lineno",
                        f"get_corresponding_lineno on {s!r}: (code line, real, last entry with code line <= it) {bad}",
                        {"part": "unit", "debug_info": s})
    cov["unit"] = {"tables": len(tables), "lookups": n_eval, "distinct_tables": len(distinct)}
    return n_eval, len(distinct)


# ------------------------------------------------------------------------------------------------
# L-code: the real generator's call stream replayed in the model
# ------------------------------------------------------------------------------------------------

_LOGGEN = {}


def logging_generator(jinja2):
    if "cls" in _LOGGEN:
        return _LOGGEN["cls"]
    from jinja2.compiler import CodeGenerator

    class LoggingGen(CodeGenerator):
        last = None

        def __init__(self, *a, **k):
            super().__init__(*a, **k)
            self.oplog = []
            self.write_offsets = []
            LoggingGen.last = self

        def write(self, x):
            self.oplog.append(("w", x))
            super().write(x)
            self.write_offsets.append(self.stream.tell() - len(x))

        def newline(self, node=None, extra=0):
            self.oplog.append(("n", None if node is None else node.lineno, extra))
            super().newline(node, extra)

        def indent(self):
            self.oplog.append(("i",))
            super().indent()

        def outdent(self, step=1):
            self.oplog.append(("o", step))
            super().outdent(step)

    _LOGGEN["cls"] = LoggingGen
    return LoggingGen


def enc_ops(ops):
    out = []
    for op in ops:
        if op[0] == "w":
            out.append([Atom("w"), op[1]])
        elif op[0] == "n":
            out.append([Atom("n"), Atom("none") if op[1] is None else op[1], op[2]])
        elif op[0] == "i":
            out.append([Atom("i")])
        else:
            out.append([Atom("o"), op[1]])
    return out


STMT_KINDS = ("For", "If", "Assign", "AssignBlock", "Macro", "CallBlock", "FilterBlock", "Include", "Import", "FromImport",
              "Block", "ExprStmt")


def compile_logged(jinja2, env, src, name):
    """returns dict(ops, source, gen fields, template) or None when the template does not compile"""
    LG = logging_generator(jinja2)
    env.code_generator_class = LG
    LG.last = None
    try:
        source = env.compile(src, name, None, raw=True)
    except jinja2.TemplateSyntaxError:
        return None
    g = LG.last
    t = env.from_string(src)
    return {"ops": g.oplog, "offsets": g.write_offsets, "source": source, "code_lineno": g.code_lineno,
            "debug_info": [list(p) for p in g.debug_info], "template": t}


def part_code(ctx, res, jinja2, items, cov):
    """items: list of (cfgname, cfg, src, label)"""
    from jinja2 import nodes

    reqs, metas = [], []
    stats = {"templates": 0, "ops": 0, "node_announcements": 0, "recorded_entries": 0, "write_with_linebreak": 0,
             "node_queries": 0, "lookups": 0, "none_lineno": 0, "ast_statements_checked": 0}
    distinct = set()
    for cfgname, c, src, label in items:
        env = jinja2.Environment(**c, extensions=["jinja2.ext.do"])
        r = compile_logged(jinja2, env, src, None)
        if r is None:
            continue
        ops = r["ops"]
        if any(op[0] == "n" and op[1] is not None and not (isinstance(op[1], int) and op[1] >= 0) for op in ops):
            stats["none_lineno"] += 1
            continue
        stats["templates"] += 1
        stats["ops"] += len(ops)
        distinct.add((cfgname, src))
        # hypotheses of the theorems, checked on the real stream
        wi = 0
        pending = None
        first = True
        queries = []
        for op in ops:
            if op[0] == "n" and op[1] is not None:
                stats["node_announcements"] += 1
                pending = op[1]
                if first:
                    res.violate("C35:code:node-before-first-write", f"{label}: a node is announced before the first write "
                                "(the first write records nothing, first_write_records_nothing)", {"part": "code", "config": cfgname, "source": src},
                                no_input=True)
            elif op[0] == "w":
                if "\n" in op[1]:
                    stats["write_with_linebreak"] += 1
                    res.violate("C35:code:write-with-linebreak", f"{label}: write({op[1][:40]!r}) contains a line break: code_lineno no "
                                "longer counts lines of the generated source (code_lineno_tracks_stream)",
                                {"part": "code", "config": cfgname, "source": src}, no_input=True)
                if pending is not None and not first and pending >= 1:
                    queries.append((pending, 1 + r["source"].count("\n", 0, r["offsets"][wi])))
                if not first:
                    pending = None
                first = False
                wi += 1
        stats["node_queries"] += len(queries)
        stats["recorded_entries"] += len(r["debug_info"])
        maxl = r["code_lineno"] + 2
        reqs.append([Atom("dbg-run"), enc_ops(ops), maxl])
        reqs.append([Atom("dbg-corr"), r["template"]._debug_info, [q[1] for q in queries]])
        # the statements of the AST are announced
        missing = []
        try:
            ast = env.parse(src)
            if not list(ast.find_all(nodes.Extends)):
                announced = {op[1] for op in ops if op[0] == "n"}
                for nd in ast.find_all(tuple(getattr(nodes, k) for k in STMT_KINDS)):
                    stats["ast_statements_checked"] += 1
                    if nd.lineno not in announced:
                        missing.append((type(nd).__name__, nd.lineno))
        except jinja2.TemplateSyntaxError:
            pass
        metas.append((cfgname, src, label, r, queries, maxl, missing))
    reps = core.driver_batch(reqs)
    for i, (cfgname, src, label, r, queries, maxl, missing) in enumerate(metas):
        m, o = reps[2 * i], reps[2 * i + 1]
        rp = {"part": "code", "config": cfgname, "source": src}
        t = r["template"]
        real_lines = [t.get_corresponding_lineno(l) for l in range(maxl + 1)]
        stats["lookups"] += maxl + 1
        # property-level oracle on the REAL table: each announced node's first code line maps back to node.lineno
        oracle_bad = None
        if str(o[0]) != "ok":
            oracle_bad = f"debug_info string {t._debug_info!r} is not a=b&… in digits"
        else:
            for (ln, cl), got in zip(queries, o[2]):
                if got != ln:
                    oracle_bad = (f"the code written for the node on template line {ln} starts on code line {cl}, which "
                                  f"get_corresponding_lineno maps to {got} (debug_info {t._debug_info!r})")
                    break
        if oracle_bad:
            res.violate("C35:code:node-line", f"{label} [{cfgname}]: {oracle_bad}", rp)
        if missing:
            res.violate("C35:code:statement-not-announced:" + missing[0][0],
                        f"{label} [{cfgname}]: statement nodes never passed to newline/writeline: {missing[:4]}", rp, no_input=True)
        if str(m[0]) != "ok":
            res.violate("C35:code:model-declines", f"{label}: model declines the op stream", rp, no_input=True)
            continue
        diffs = []
        if m[1] != r["code_lineno"]:
            diffs.append(f"code_lineno real {r['code_lineno']} model {m[1]}")
        if [list(p) for p in m[2]] != r["debug_info"]:
            diffs.append(f"debug_info real {r['debug_info']} model {[list(p) for p in m[2]]}")
        if m[3] != t._debug_info:
            diffs.append(f"debug_info string real {t._debug_info!r} model {m[3]!r}")
        if m[4] != r["source"]:
            diffs.append("generated source differs from the model's stream")
        if list(m[5]) != real_lines:
            bad = [(l, a, b) for l, (a, b) in enumerate(zip(real_lines, m[5])) if a != b][:3]
            diffs.append(f"get_corresponding_lineno (code line, real, model) {bad}")
        if [list(p) for p in t.debug_info] != r["debug_info"]:
            diffs.append(f"Template.debug_info {t.debug_info} != generator's table {r['debug_info']}")
        if diffs and not oracle_bad:
            res.violate("C35:code:model-drift", f"{label} [{cfgname}]: " + "; ".join(diffs)[:600], rp, no_input=True)
    cov["code"] = stats
    return stats["lookups"] + stats["node_queries"], len(distinct)


# ------------------------------------------------------------------------------------------------
# L-e2e runtime
# ------------------------------------------------------------------------------------------------

def make_loader(jinja2, kind, srcs, tmp):
    """returns (loader, {name: filename as it appears in tracebacks})"""
    if kind == "dict":
        return jinja2.DictLoader(srcs), {n: "<template>" for n in srcs}
    if kind == "function":
        return (jinja2.FunctionLoader(lambda n: (srcs[n], "/c35-virtual/" + n + ".html", lambda: True) if n in srcs else None),
                {n: "/c35-virtual/" + n + ".html" for n in srcs})
    d = tempfile.mkdtemp(dir=tmp)
    for n, s in srcs.items():
        with open(os.path.join(d, n), "w", encoding="utf-8", newline="") as f:
            f.write(s)
    return jinja2.FileSystemLoader(d), {n: os.path.join(d, n) for n in srcs}


def render_case(jinja2, c, srcs, variant, tmp):
    """returns ('raised', [(filename, lineno, name)...] template frames, all-frame count) | ('no-error',) | ('other', repr)"""
    loader, fnames = make_loader(jinja2, variant["loader"], srcs, tmp)
    env = jinja2.Environment(**c, loader=loader, enable_async=variant["async"], extensions=["jinja2.ext.do"])
    env.globals.update(_globals(variant["async_boom"]))
    tf = set(fnames.values()) | {"<template>"}
    try:
        t = env.from_string(srcs["main"]) if variant["from_string"] else env.get_template("main")
        e = variant["entry"]
        if e == "render":
            t.render()
        elif e == "generate":
            list(t.generate())
        elif e == "stream":
            list(t.stream())
        elif e == "render_async":
            asyncio.run(t.render_async())
        else:
            async def go():
                return [x async for x in t.generate_async()]
            asyncio.run(go())
        return ("no-error",), fnames
    except _Boom as ex:
        tb = traceback.extract_tb(ex.__traceback__)
        return ("raised", [(f.filename, f.lineno, f.name) for f in tb if f.filename in tf]), fnames
    except Exception as ex:  # noqa
        return ("other", type(ex).__name__ + ": " + str(ex)[:200]), fnames


def pick_variant(rng):
    a = rng.random() < 0.4
    v = {"async": a, "async_boom": a and rng.random() < 0.5,
         "loader": rng.choice(["dict", "function", "function", "fs"]),
         "from_string": rng.random() < 0.25,
         "entry": rng.choice(["render", "render", "generate", "stream"] + (["render_async", "generate_async"] if a else [])),
         "nl": rng.choice(NLS)}
    return v


def gen_cases(ctx, mode, n, tag):
    out = []
    for i in range(n):
        rng = ctx.rng(tag, i)
        cfgname = rng.choice(RT_CONFIGS)
        c = lc.CONFIGS[cfgname]
        g = c35gen.Gen(rng, c, mode, max_depth=rng.choice([1, 2, 3, 3, 4]))
        srcs, site = g.generate()
        out.append({"i": i, "config": cfgname, "srcs": srcs, "site": site, "variant": pick_variant(rng)})
    return out


def expected_lines(cases):
    """asks the Lean lexer for the token line at each site; fills case['expected'] / case['lex']"""
    reqs = []
    for cs in cases:
        c = lc.CONFIGS[cs["config"]]
        nl = cs["variant"]["nl"]
        cs["real_srcs"] = {n: s.replace("\n", nl) for n, s in cs["srcs"].items()}
        reqs.append((c, cs["real_srcs"][cs["site"].template]))
    models = lc.model_lex(reqs)
    for cs, m in zip(cases, models):
        cs["lex"] = m
        site = cs["site"]
        if site.eof:
            cs["expected"] = last_token_line(m) if m["res"][0] == "ok" else None
        elif site.lexer_level:
            cs["expected"] = m["res"][2] if m["res"][0] == "syntax-error" else None
        else:
            cs["expected"] = token_line_at(m, site.offset) if m["res"][0] in ("ok", "syntax-error") else None


def site_desc(cs):
    s = cs["site"]
    return (f"{s.kind}/{s.form} in {s.template!r} under {'/'.join(s.containers) or 'top level'} "
            f"[{cs['config']}, {cs['variant']}]")


def replay_dict(cs, part):
    return {"part": part, "config": cs["config"], "srcs": cs["real_srcs"], "variant": cs["variant"],
            "site": {k: v for k, v in vars(cs["site"]).items()}, "expected": cs.get("expected")}


def part_runtime(ctx, res, jinja2, cov, tmp):
    cases = gen_cases(ctx, "runtime", ctx.pick(450, 9000), "rt")
    expected_lines(cases)
    stats = {"cases": 0, "no_anchor": 0, "unreached": 0, "other_exception": {}, "leaf_kinds": {}, "forms": {}, "containers": {},
             "depth": {}, "configs": {}, "loaders": {}, "entries": {}, "nl": {}, "multiline_site_tag": 0,
             "anchor_not_on_tag_first_line": 0, "async": 0, "async_callable": 0, "from_string": 0, "site_template": {},
             "template_lines": {}, "expected_line": {}, "wrong_line": 0, "frames_checked": 0}
    distinct = set()
    for cs in cases:
        site, v = cs["site"], cs["variant"]
        if cs["expected"] is None:
            stats["no_anchor"] += 1
            stats.setdefault("no_anchor_samples", [])
            if len(stats["no_anchor_samples"]) < 3:
                stats["no_anchor_samples"].append({"site": site_desc(cs), "offset": site.offset, "lex": str(cs["lex"]["res"])[:300],
                                                   "src": cs["real_srcs"][site.template]})
            continue
        out, fnames = render_case(jinja2, lc.CONFIGS[cs["config"]], cs["real_srcs"], v, tmp)
        if out[0] == "no-error":
            stats["unreached"] += 1
            stats.setdefault("unreached_samples", [])
            if len(stats["unreached_samples"]) < 3:
                stats["unreached_samples"].append({"site": site_desc(cs), "srcs": cs["real_srcs"]})
            continue
        if out[0] == "other":
            k = out[1].split(":")[0]
            stats["other_exception"][k] = stats["other_exception"].get(k, 0) + 1
            stats.setdefault("other_samples", [])
            if len(stats["other_samples"]) < 3:
                stats["other_samples"].append({"error": out[1], "srcs": cs["real_srcs"]})
            continue
        stats["cases"] += 1
        distinct.add((cs["config"], tuple(sorted(cs["real_srcs"].items()))))
        for key, val in (("leaf_kinds", site.kind), ("forms", site.form), ("configs", cs["config"]), ("loaders", v["loader"]),
                         ("entries", v["entry"]), ("nl", repr(v["nl"])), ("depth", len(site.containers)),
                         ("site_template", site.template.rstrip("0123456789"))):
            stats[key][val] = stats[key].get(val, 0) + 1
        for k in site.containers:
            stats["containers"][k] = stats["containers"].get(k, 0) + 1
        nlines = cs["srcs"][site.template].count("\n") + 1
        b = "1-5" if nlines <= 5 else "6-15" if nlines <= 15 else "16-40" if nlines <= 40 else ">40"
        stats["template_lines"][b] = stats["template_lines"].get(b, 0) + 1
        e = cs["expected"]
        b = "1" if e == 1 else "2-5" if e <= 5 else "6-15" if e <= 15 else ">15"
        stats["expected_line"][b] = stats["expected_line"].get(b, 0) + 1
        stats["multiline_site_tag"] += site.multiline
        stats["anchor_not_on_tag_first_line"] += not site.anchor_on_first_line
        stats["async"] += v["async"]
        stats["async_callable"] += v["async_boom"]
        stats["from_string"] += v["from_string"]
        frames = out[1]
        exp_file = "<template>" if (v["from_string"] and site.template == "main") else fnames[site.template]
        rp = replay_dict(cs, "runtime")
        if not frames:
            res.violate(f"C35:runtime:no-template-frame:{site.kind}", f"{site_desc(cs)}: the traceback has no template frame", rp)
            continue
        # every template frame points into its template
        lines_by_file = {}
        for n, fn in fnames.items():
            lines_by_file.setdefault(fn, []).append(cs["srcs"][n].count("\n") + 1)
        if v["from_string"]:
            lines_by_file.setdefault("<template>", []).append(cs["srcs"]["main"].count("\n") + 1)
        for fn, ln, _ in frames:
            stats["frames_checked"] += 1
            if not (1 <= ln <= max(lines_by_file.get(fn, [10 ** 9]))):
                res.violate("C35:runtime:frame-line-out-of-range", f"{site_desc(cs)}: frame {fn}:{ln} is outside the template", rp)
        fn, ln, _ = frames[-1]
        if fn != exp_file:
            res.violate(f"C35:runtime:filename:{site.kind}", f"{site_desc(cs)}: innermost template frame names {fn!r}, the raising "
                        f"construct is in {exp_file!r} (line {e})", rp)
        elif ln != e:
            stats["wrong_line"] += 1
            key = f"C35:runtime:{site.kind}" + (":compare" if site.form == "compare" and site.kind in ("out", "forif") else "")
            res.violate(key, f"{site_desc(cs)}: innermost template frame {fn}:{ln}, the raising construct's "
                        f"anchor token is on line {e}", rp)
    cov["runtime"] = stats
    return cases, stats["cases"], len(distinct)


# ------------------------------------------------------------------------------------------------
# L-e2e syntax errors
# ------------------------------------------------------------------------------------------------

def syntax_case(jinja2, c, srcs, site, v):
    loader, fnames = make_loader(jinja2, "function" if v["loader"] == "fs" else v["loader"], srcs, None)
    env = jinja2.Environment(**c, loader=loader, enable_async=v["async"], extensions=["jinja2.ext.do"])
    name = site.template
    try:
        if v["from_string"]:
            env.from_string(srcs[name])
        else:
            env.get_template(name)
        return ("no-error",), fnames
    except jinja2.TemplateSyntaxError as ex:
        tb = traceback.extract_tb(ex.__traceback__)
        last = tb[-1] if tb else None
        return ("syntax", ex.lineno, ex.name, ex.filename, ex.message, (last.filename, last.lineno) if last else None), fnames
    except Exception as ex:  # noqa
        return ("other", type(ex).__name__ + ": " + str(ex)[:200]), fnames


def is_lexer_message(msg):
    return any(rx.match(msg or "") for rx, _ in lc._ERR)


def part_syntax(ctx, res, jinja2, cov):
    cases = gen_cases(ctx, "syntax", ctx.pick(350, 6000), "syn")
    expected_lines(cases)
    stats = {"cases": 0, "no_anchor": 0, "no_error": 0, "other_exception": {}, "forms": {}, "containers": {}, "configs": {},
             "parser_error_before_lexer_error": 0, "multiline_site_tag": 0, "expected_line": {}, "nl": {}, "fake_frame_checked": 0}
    distinct = set()
    for cs in cases:
        site, v = cs["site"], cs["variant"]
        if cs["expected"] is None:
            stats["no_anchor"] += 1
            continue
        out, fnames = syntax_case(jinja2, lc.CONFIGS[cs["config"]], cs["real_srcs"], site, v)
        if out[0] == "no-error" and site.form in ("unknown-filter", "unknown-test") and any(
                k in ("if", "else", "elif") or k.startswith("extends") for k in site.containers):
            # inside a conditional an unknown filter/test is deliberately deferred to run time by the compiler
            stats["deferred_unknown_filter_test"] = stats.get("deferred_unknown_filter_test", 0) + 1
            continue
        if out[0] == "no-error":
            stats["no_error"] += 1
            stats.setdefault("no_error_samples", [])
            if len(stats["no_error_samples"]) < 3:
                stats["no_error_samples"].append({"form": site.form, "src": cs["real_srcs"][site.template]})
            continue
        if out[0] == "other":
            k = out[1].split(":")[0]
            stats["other_exception"][k] = stats["other_exception"].get(k, 0) + 1
            continue
        _, lineno, name, filename, msg, last = out
        if site.lexer_level != is_lexer_message(msg):
            # the malformed text changed what follows (e.g. an open quote swallowing a later tag): not the planned error
            stats["parser_error_before_lexer_error"] += 1
            continue
        stats["cases"] += 1
        distinct.add((cs["config"], cs["real_srcs"][site.template]))
        for key, val in (("forms", site.form), ("configs", cs["config"]), ("nl", repr(v["nl"]))):
            stats[key][val] = stats[key].get(val, 0) + 1
        for k in site.containers:
            stats["containers"][k] = stats["containers"].get(k, 0) + 1
        stats["multiline_site_tag"] += site.multiline
        e = cs["expected"]
        b = "1" if e == 1 else "2-5" if e <= 5 else "6-15" if e <= 15 else ">15"
        stats["expected_line"][b] = stats["expected_line"].get(b, 0) + 1
        rp = replay_dict(cs, "syntax")
        if lineno != e:
            res.violate(f"C35:syntax:{site.form}", f"{site_desc(cs)}: TemplateSyntaxError({msg!r}).lineno = {lineno}, the offending "
                        f"token is on line {e}", rp)
        exp_name = None if v["from_string"] else site.template
        if name != exp_name:
            res.violate(f"C35:syntax:name:{site.form}", f"{site_desc(cs)}: TemplateSyntaxError.name = {name!r}, expected {exp_name!r}", rp)
        if last is not None:
            stats["fake_frame_checked"] += 1
            exp_fn = filename or "<unknown>"
            if last != (exp_fn, lineno):
                res.violate("C35:syntax:traceback-frame", f"{site_desc(cs)}: the rewritten traceback ends at {last}, the error says "
                            f"{(exp_fn, lineno)}", rp)
    cov["syntax"] = stats
    return cases, stats["cases"], len(distinct)


# ------------------------------------------------------------------------------------------------

def run(ctx, res):
    jinja2 = core.import_jinja()
    cov = {}
    tmp = tempfile.mkdtemp(prefix="c35-")
    try:
        n1, d1 = part_unit(ctx, res, jinja2, cov)
        rt_cases, n3, d3 = part_runtime(ctx, res, jinja2, cov, tmp)
        syn_cases, n4, d4 = part_syntax(ctx, res, jinja2, cov)
        items = []
        for cs in rt_cases[: ctx.pick(250, 3000)]:
            for n, s in cs["real_srcs"].items():
                items.append((cs["config"], lc.CONFIGS[cs["config"]], s, f"runtime case {cs['i']} template {n!r}"))
        for cs in syn_cases[: ctx.pick(80, 800)]:
            for n, s in cs["real_srcs"].items():
                if n != cs["site"].template:
                    items.append((cs["config"], lc.CONFIGS[cs["config"]], s, f"syntax case {cs['i']} template {n!r}"))
        n2, d2 = part_code(ctx, res, jinja2, items, cov)
    finally:
        shutil.rmtree(tmp, ignore_errors=True)
    rt, sy = cov["runtime"], cov["syntax"]
    bad = rt["unreached"] + sum(rt["other_exception"].values()) + rt["no_anchor"]
    total = bad + rt["cases"]
    if total and bad / total > 0.03:
        # the planned templates are valid and reach their raising call on the tree the generator was written against: when
        # more than 3 % of them now fail earlier (a different exception, or never raise), the correspondence is broken
        res.violate("C35:planned-runtime-cases-not-reached",
                    f"{bad}/{total} planned runtime cases did not reach the raising call "
                    f"(unreached {rt['unreached']}, other exceptions {rt['other_exception']}, no anchor {rt['no_anchor']}); "
                    f"samples {rt.get('other_samples')}", {"samples": rt.get("other_samples")}, no_input=True)
    bad = sy["no_error"] + sum(sy["other_exception"].values()) + sy["no_anchor"]
    total = bad + sy["cases"]
    if total and bad / total > 0.03:
        res.violate("C35:planned-syntax-cases-not-reached",
                    f"{bad}/{total} planned syntax-error cases did not produce the planned error "
                    f"(no error {sy['no_error']}, other exceptions {sy['other_exception']}, no anchor {sy['no_anchor']}); "
                    f"samples {sy.get('no_error_samples')}", {"samples": sy.get("no_error_samples")}, no_input=True)
    sample = rt_cases[0]
    res.coverage.update({
        "evaluations": n1 + n2 + n3 + n4,
        "distinct_nontrivial": d1 + d2 + d3 + d4,
        "rule": ("L-unit: random debug_info tables (increasing and arbitrary) -> Template.debug_info and get_corresponding_lineno for "
                 "every code line vs the model; L-code: every template of the generated sets compiled through a logging CodeGenerator "
                 "subclass, the call stream replayed in the Lean state machine (non-trivial: distinct (configuration, source)); "
                 "L-e2e runtime: template sets from harness/gen/c35gen.py — one raising call in a random leaf (output expression in "
                 "23 shapes, if/elif/for/loop filter/set/include/call/filter/do/import/from/extends/macro default/with/autoescape) "
                 "under random nesting, tags joined by random blanks/line breaks, random -/+ signs, over 9 lexer configurations x "
                 "LF/CRLF/CR x loaders x entry points x sync/async; a case counts when the call is reached (distinct template sets); "
                 "L-e2e syntax: the same nesting with one of 22 malformed constructs"),
        "samples": [{"config": sample["config"], "variant": sample["variant"], "srcs": sample["real_srcs"],
                     "site": sample["site"].kind, "expected_line": sample.get("expected")}],
        **cov,
    })


def replay(ctx, case):
    jinja2 = core.import_jinja()
    cs = case["case"]
    c = lc.CONFIGS[cs.get("config", "default")]
    if cs.get("part") == "runtime":
        tmp = tempfile.mkdtemp(prefix="c35-")
        try:
            out, fnames = render_case(jinja2, c, cs["srcs"], cs["variant"], tmp)
        finally:
            shutil.rmtree(tmp, ignore_errors=True)
        return {"observed": out, "expected_line": cs["expected"], "template": cs["site"]["template"]}
    if cs.get("part") == "syntax":
        site = c35gen.Site()
        site.__dict__.update(cs["site"])
        out, _ = syntax_case(jinja2, c, cs["srcs"], site, cs["variant"])
        return {"observed": out, "expected_line": cs["expected"]}
    if cs.get("part") == "unit":
        t = jinja2.Environment().from_string("x")
        t._debug_info = cs["debug_info"]
        return {"debug_info": t.debug_info, "lines": [t.get_corresponding_lineno(l) for l in range(0, 60)]}
    env = jinja2.Environment(**c, extensions=["jinja2.ext.do"])
    r = compile_logged(jinja2, env, cs["source"], None)
    return {"debug_info": r and r["debug_info"], "code_lineno": r and r["code_lineno"], "source": r and r["source"]}
