"""C15 — autoescaping never lets unescaped data or string literals into the output.

Proof: Props/C15.lean over Model/Escape.lean + Model/HtmlFilt.lean + Model/Autoesc.lean: every Markup value constructed from
template text free of < > " ' is free of them (induction over a term language of value constructions), hence every output piece.
Tie: (1) generated terms of that language (data, literals, ~, +, %/format, join, replace, indent, truncate, escape, forceescape,
buffered bodies, bound values) spelled as templates in many ways and rendered under four autoescape configurations: the output is
compared with the model and scanned by the Lean oracle; (2) an end-to-end scan of ALL built-in filters, string / Markup methods and
operators with data-controlled receivers and arguments — filters outside the Lean model are covered by this scan only.
"""
from __future__ import annotations

import random

import translate.markup_sites
import translate.overlay_cache
from harness import core
from harness.core import Atom
from harness.gen import autoesc_envways as W
from harness.gen import autoesc_terms as T

ID = "C15"
GEN = [translate.markup_sites.gen, translate.overlay_cache.gen]
LEAN_MODULES = ["JinjaV.Props.C15"]
LEVEL = "proof"
TRUSTED = [
    "Model/Autoesc.lean: hand-written value-level model of the paths that escape or wrap values (output, markup_join, Macro / "
    "BlockReference / set block returning Markup(concat(..))) and Model/HtmlFilt.lean for the Markup-aware filters; tied to the engine "
    "by this run's renders only",
    "the end-to-end scan's oracle: template text is free of < > \" ', so any such character in the output comes from data or literals, "
    "except what urlize / xmlattr / tojson are documented to emit (judged by the C24 recognisers shapeOK / attrsOK and the tojson "
    "character test, all evaluated by the Lean driver)",
    "markupsafe's Markup methods are trusted as modelled; Markup.translate (which inserts table values unescaped) is outside jinja and "
    "is not scanned",
]
ASSUMPTIONS = [
    "excluded by the property: |safe, Markup passed in as data, autoescape-off regions, gettext; select_autoescape is modelled for "
    "ASCII names and extensions (str.lower is a parameter of the model)",
    "an {% autoescape %} region is taken to cover the bodies written lexically inside it except {% block %} bodies (known finding "
    "C15:autoescape-region-around-block: a block body is compiled with the template-level mode)",
]
CLAIM = dict(
    category="proof",
    technique="Lean 4 inductive invariant over a value-level term language of autoescaping (every constructible Markup value is free of "
              "markup characters) reusing the C24 filter lemmas + renders of generated terms in many template spellings under four "
              "autoescape configurations compared with the model + end-to-end scan of all built-in filters, string/Markup methods and "
              "operators with data-controlled arguments judged by Lean-side oracles",
    text="Theorems (Props/C15.lean), M = < > \" ': escape_clean (escape s is M-free for every s); markup_invariant (for every term — "
         "data, string literals, ~, +, %/format, join, replace, indent, truncate, wordwrap, escape, forceescape, buffered bodies used as "
         "values (macro call, caller(), super(), block reference, set block), bound values, output, sequencing — whose template text is "
         "M-free, in an environment whose Markup values are M-free, every Markup value constructed is M-free: literals and data are plain, "
         "plain operands of Markup operations are escaped); output_clean / render_clean (everything such a term writes is M-free, for "
         "arbitrary plain context data); markup_sites_mapped (every Markup(...) call of filters/utils/runtime/ext/nodes/environment.py and "
         "every emitted code string mentioning Markup in compiler.py, READ from the source on every run, is one of the 29 sites the model "
         "has a clause for — a new site breaks the pin); select_autoescape_spec (no name -> default_for_string; otherwise only the "
         "lower-cased name matters, an enabled-extension suffix wins, then a disabled one, then default); overlay_cache_fresh (READ from "
         "environment.py: copy_cache / create_cache return None, {} or a new LRUCache, never the parent's entries, and overlay always assigns "
         "rv.cache from one of them — a cached template carries its compile-time escaping decision and the cache key has no autoescape); "
         "region_partial / region_clean "
         "(lexical {% autoescape %} regions decide the escaping of everything inside them PROVIDED no {% block %} tag sits in a region whose "
         "mode differs from the template-level mode; the unrestricted statement AutoescRegion.RegionStatement is refuted on the model in "
         "Findings/F20.lean). Tie: random terms with metacharacter-laden data and literals spelled through set blocks, macros, "
         "call blocks, imported macros, includes, super(), with, for, rendered under static / select_autoescape / {% autoescape true %} / "
         "runtime-decided {% autoescape flag %} and compared with the model; ALL built-in filters x receivers (str, Markup, list, dict, "
         "nested, int) x argument shapes (data-controlled), string and Markup methods, operators, scanned for raw M characters (urlize, "
         "xmlattr, tojson judged by the C24 recognisers). Autoescaping configurations are also reached through overlays "
         "(of fresh and of already-used parents, overlays of overlays, siblings, parents re-checked; True / select_autoescape / callable; "
         "DictLoader / FunctionLoader; LRU, dict and no cache) with templates loaded by name (get_template, include, import, extends) and "
         "compared with a fresh Environment of the effective options. The term renders and the overlay histories also run in async "
         "environments (enable_async=True via render(), render_async(), generate_async(); the Lean statement is mode-independent). Filters outside the Lean model (everything except indent, replace, join, "
         "format, truncate, wordwrap, escape, forceescape, and urlize/xmlattr/tojson of C24) are covered by this scan ONLY, not by proof.",
    note="Trusted: Lean kernel; the value-level model and the filter models (tied by correspondence); markupsafe. Known finding: an "
         "{% autoescape %} region does not reach into a {% block %} body written inside it (C15:autoescape-region-around-block). "
         "The L-code comparison of the compiler's output paths proposed in DESIGN §5 is not built (value-level model instead): partial.",
    design_ref="§5 C15",
)

LITS = ["<b>", "&", "'", '"', "x", "", " ", "<i class='k'>", "&#39;", "1 < 2 > 0", "é<", "a\nb", "<m9>"]
TEXTS = ["p ", " q", "x", "-", "[", "]", "a\nb", "é", "lt;", " "]           # template text: free of < > " '
DATA = ["<m1>", "a&b", "\"m2'", "<script>alert('m3')</script>", "", "x", "<>&'\"", "m4\"><m4>", "' onx='m5", "a\n<m6>\nb", "m7 m7 <m7> m7"]
MODES = ["static", "select", "block", "volatile", "volatile_on"]


def make_case(ctx, i):
    rng = ctx.rng("term", i)
    nd = rng.randrange(1, 4)
    data = [rng.choice(DATA) for _ in range(nd)]
    g = T.TermGen(rng, LITS, TEXTS, data, ops=True)
    return {"i": i, "data": data, "term": g.top(rng.randrange(2, ctx.pick(5, 6))), "mode": rng.choice(MODES), "rseed": rng.randrange(1 << 30),
            "api": rng.choice(T.APIS) if rng.random() < 0.5 else "sync"}


def make_env(jinja2, mode, templates, rseed=0, api="sync"):
    akw = T.api_env_kw(api)
    if mode == "static":
        return jinja2.Environment(loader=jinja2.DictLoader(templates), autoescape=True, **akw)
    if mode == "select":
        return jinja2.Environment(loader=jinja2.DictLoader(templates), autoescape=jinja2.select_autoescape(
            enabled_extensions=("html", "XML"), disabled_extensions=("txt",), default=False, default_for_string=False), **akw)
    # block / volatile: the region switches autoescape on inside an environment whose default is off;
    # volatile_on: runtime-decided region inside an environment whose default is on
    return jinja2.Environment(loader=jinja2.DictLoader(templates), autoescape=(mode == "volatile_on"), **akw)


WRAP = {"static": None, "select": None, "block": ("{% autoescape true %}", "{% endautoescape %}"),
        "volatile": ("{% autoescape flag %}", "{% endautoescape %}"), "volatile_on": ("{% autoescape flag %}", "{% endautoescape %}")}
SUFFIX = {"static": "", "select": ".Html", "block": "", "volatile": "", "volatile_on": ""}


def render_term(jinja2, case):
    mode, api = case["mode"], case.get("api", "sync")
    rl = T.Realiser(random.Random(case["rseed"]), len(case["data"]), suffix=SUFFIX[mode], wrap=WRAP[mode], async_fn=api != "sync")
    main = rl.top(case["term"])
    env = make_env(jinja2, mode, rl.templates, api=api)
    kw = {f"d{i}": v for i, v in enumerate(case["data"])}
    kw["flag"] = True
    kw.update(T.api_context(api))
    try:
        out = T.render_api(env.get_template(main), api, kw)
    except Exception as e:  # noqa
        out = f"raised:{type(e).__name__}:{e}"
    return out, rl.templates, rl.used


def run(ctx, res):
    jinja2 = core.import_jinja()
    terms = run_terms(ctx, res, jinja2)
    scan = run_scan(ctx, res, jinja2)
    probe = run_known_probe(ctx, res, jinja2)
    sel = run_select(ctx, res, jinja2)
    reg = run_regions(ctx, res, jinja2)
    blocks = run_blocks(ctx, res, jinja2)
    ways = run_envways(ctx, res, jinja2)
    res.coverage.update({
        "evaluations": terms["renders"] + scan["renders"] + probe + sel + reg["renders"] + blocks["renders"] + ways["renders"],
        "filter_blocks_literals_loops": blocks,
        "environment_ways": ways,
        "regions": reg,
        "select_autoescape_cases": sel,
        "distinct_nontrivial": terms["nontrivial"] + scan["nontrivial"],
        "rule": ("(1) random well-sorted terms of Model/Autoesc.lean with all constructors except wordwrap, depth 2-4/5, 1-3 context strings "
                 "from a pool of marker strings with < > \" ' &, literals likewise, M-free template text, spelled as template sets by the "
                 "Realiser and rendered in one of four autoescape-on configurations; (2) every built-in filter x 11 receiver expressions x "
                 "argument shapes built from data names, plus string/Markup methods and operators, under each configuration; renders that "
                 "raise are counted and skipped. Non-trivial: the render contains an escaped metacharacter (something from data or a "
                 "literal reached the output)"),
        "samples": terms["samples"] + scan["samples"],
        "terms": {k: v for k, v in terms.items() if k != "samples"},
        "scan": {k: v for k, v in scan.items() if k != "samples"},
        "lean_model_filters": ["indent", "replace", "join", "format", "truncate", "wordwrap", "escape", "e", "forceescape",
                               "urlize", "xmlattr", "tojson"],
        "scan_only_filters": scan["scan_only"],
    })


def run_terms(ctx, res, jinja2):
    n = ctx.pick(500, 7000)
    cases = [make_case(ctx, i) for i in range(n)]
    replies = core.driver_batch([[Atom("autoesc"), Atom("eval"), T.enc(c["term"]), c["data"]] for c in cases])
    outs = [render_term(jinja2, c) for c in cases]
    verdicts = core.driver_batch([[Atom("autoesc"), Atom("mfree"), o if not o.startswith("raised:") else ""] for o, _, _ in outs])
    used_all, modes, kinds, raised, nontrivial = {}, {}, {}, 0, set()
    apis = {}
    for c, rep, (out, tpl, used), vd in zip(cases, replies, outs, verdicts):
        m_on, _, _, _, m_free = rep[1]
        for k, v in used.items():
            used_all[k] = used_all.get(k, 0) + v
        modes[c["mode"]] = modes.get(c["mode"], 0) + 1
        T.kinds(c["term"], kinds)
        replay = {"term_case": c["i"], "mode": c["mode"], "api": c["api"], "data": c["data"], "templates": tpl, "term": core.sx(T.enc(c["term"]))}
        cfg = c["mode"] + ("" if c["api"] == "sync" else ":" + c["api"])
        apis[c["api"]] = apis.get(c["api"], 0) + 1
        if m_free is not True:
            raise core.HarnessError(f"model violates its own theorem on {replay}")
        if out.startswith("raised:"):
            raised += 1
            res.violate(f"C15:term-raised:{c['mode']}", f"render raised {out[:160]!r}", replay, no_input=True)
            continue
        if "&" in out:
            nontrivial.add((core.sx(T.enc(c["term"])), tuple(c["data"]), c["mode"]))
        if vd[1] is not True:
            main = [k for k in tpl if k.startswith("main")][0]
            res.violate(f"C15:leak:{cfg}", f"raw markup character from data/literal in the output {out!r} (configuration {cfg}, data {c['data']}, "
                        f"main template {tpl[main]!r}); model {m_on!r}", replay)
        elif out != m_on:
            res.violate("C15:model-difference", f"configuration {cfg}: render {out!r}, model {m_on!r} — the output is still free of raw markup "
                        "characters, so this is not a leak (C15's statement holds on this input); a different amount of escaping is C16's / "
                        "C24's matter", replay, no_input=True)
    return {"renders": len(cases), "nontrivial": len(nontrivial), "mode_distribution": modes, "spellings_used": used_all,
            "constructor_distribution": kinds, "raised": raised, "api_distribution": apis,
            "samples": [{"term": core.sx(T.enc(cases[0]["term"])), "data": cases[0]["data"], "mode": cases[0]["mode"], "templates": outs[0][1]}]}


# ---------------------------------------------------------------------------------------------------------------------------
RECEIVERS = ["x", "m", "[x, y]", "[m, x]", "{x: y, 'k': w}", "[[x, y], [w, x]]", "[{'k': x, 'v': y}, {'k': w, 'v': x}]", "n", "(x, y)", "{'a': x, 'b-c': y, 'd': none}", "[n, 2]"]
ARGSETS = ["", "w", "w, y", "y, w, x", "1", "2, w", "3, true, w, 0", "w, true", "true", "attribute='k'", "'k'", "w, attribute='k'",
           "'k', w", "'upper'", "'replace', w, y", "2", "n, w", "'k', 'equalto', x", "'string'", "40, true, w", "x, y, 1", "w, false"]
POST = ["", "|join(w)", "|list|join(w)", "|first", "|map('first')|join(w)", "|string"]
EXEMPT = {"safe": None, "urlize": "shape", "xmlattr": "attrs", "tojson": "tojson"}
METHODS = [
    "x.upper()", "x.replace(w, y)", "x.format(y)", "'{}|{}'.format(x, y)", "'{a}'.format(a=x)", "x.join([y, w])", "x.center(30, '*')", "x.strip(w)",
    "x.split(w)|join(y)", "x.partition(w)|join(y)", "x.title()", "x * 2", "x[1:4]", "x[0]", "x ~ y", "x + y", "x ~ m", "m ~ x", "m + x", "x + m",
    "m * 2", "mf % x", "mf % (x,)", "mf|format(x)", "m.format(x)", "mb.format(x, k=y)", "m.replace(' ', x)", "m.replace(w, x)",
    "m.join([x, y])", "m.center(30, w[:1])", "m.ljust(30, w[:1])", "m.rjust(30, w[:1])", "m.strip(w)", "m.splitlines()|join(x)", "m.split(' ')|join(x)",
    "m.partition(' ')|join(x)", "m.title() ~ x", "m.removeprefix(x) ~ x", "m.expandtabs(2) ~ x", "m.zfill(20) ~ x", "m.unescape() ~ x", "m.striptags() ~ x",
    "m[0:3] ~ x", "m.lower() + x", "x if x else y", "y or x", "x and y", "[x, y]", "{x: y}", "(x, y)", "x in y", "x == y", "x < y", "x|length",
    "x is string", "x is sameas y", "[x, y]|random", "x|default(y)", "none|default(x)", "nope|default(x, true)", "x|e ~ y", "(x|e) + y",
    "(x|e)|replace(w, y)", "(x|e)|indent(w, true)", "[x|e, y]|join(w)", "(x|e)|truncate(6, true, w[:3], 0)", "(x|e)|wordwrap(4, true, w)",
    "(x|e)|center(30)", "(x|e)|trim(w)", "(x|e)|title ~ y", "(x|e)|upper ~ y", "(x|e)|striptags", "(x|e)|forceescape", "(x|e)|string ~ y",
    "(x|e)|list|join(y)", "(x|e)|reverse ~ y", "(x|e)|first ~ y", "(x|e)|last ~ y", "[x|e, y]|sort|join(w)", "[x|e, y]|unique|join(w)",
    "[x|e, y]|max ~ w", "[x|e, y]|min ~ w", "[x|e, y]|batch(1)|map('join', w)|join(y)", "[x|e, y]|map('replace', w, y)|join(w)",
    "[x|e, y]|select|join(w)", "[x|e, y]|reject('none')|join(w)", "[x|e, y]|join",
    "{'a': x|e, 'b': y}|dictsort|map('last')|join(w)", "{'a': x|e}|items|map('last')|join(w)", "(x|e)|default(y) ~ w", "cycler(x|e, y).next() ~ w",
    "joiner(x)() ~ joiner(x)() ~ y", "namespace(a=x|e).a ~ y", "dict(a=x|e).a ~ y", "lipsum(1, false, 2, 3) ~ x", "range(2)|join(x)",
    "x|urlencode ~ y", "{x: y}|urlencode", "x|filesizeformat", "x|pprint", "[x, m]|pprint", "x|wordcount", "x|int ~ y", "x|float ~ y", "x|abs",
    "x|round", "x|attr('upper')", "x|attr(w)", "x|capitalize", "x|lower", "x|list|join(y)", "x|batch(2)|map('join')|join(w)",
    "x|slice(2)|map('join', w)|join(y)", "x|groupby(0)|map('first')|join(w)", "x|striptags", "x|trim", "x|truncate(5, true, w[:2], 0)",
    "x|wordwrap(3, true, w)", "x|center(30)", "x|indent(w, true, true)", "x|replace(w, y)", "x|format(y)", "[x, y]|join(w, attribute=none)",
    "[x, y]|map('e')|join(w)", "[x, y]|map('escape')|map('string')|join(w)", "[x, y]|map('indent', w)|join(y)", "x|title", "x|reverse", "x|sort|join(w)",
    "x|unique|join(w)", "x|string ~ y", "x|first ~ x|last", "x|count", "[x, y]|tojson|forceescape", "x|urlize|forceescape",
    "x|urlize|striptags", "{'a': x}|xmlattr|forceescape", "{'a': x}|xmlattr|striptags",
]


# urlize with a display limit smaller and larger than the URL, on URLs whose path / query carries metacharacters
URLIZE_TRIM = ["u|urlize(5)", "u|urlize(200)", "u|urlize(trim_url_limit=200, nofollow=true, target=w)", "u|urlize(12, true)",
               "(u ~ ' www.b.org/' ~ x)|urlize(300)", "(x ~ ' ' ~ u)|urlize(0)", "u|urlize(n)", "u|urlize(n * 30, rel=y)"]
URLS = ["http://a.com/p?x=<m1>&y=\"q\"'r'", "https://b.org/<m2>/'x'?a=1&b=\"2\"", "www.c.net/a'b\"c<d>e&f"]


class LazyStr:
    """an object that is not a str and has no __html__; its str() is data"""

    def __init__(self, s):
        self.s = s

    def __str__(self):
        return self.s


# filters that stringify a non-string value or argument into markup: containers / objects built from the marker data
NONSTR = [
    ("attrs", "xmlattr", "{'data-tags': [x]}|xmlattr"), ("attrs", "xmlattr", "{'a': (x, y)}|xmlattr"), ("attrs", "xmlattr", "{'a': {x: y}}|xmlattr"),
    ("attrs", "xmlattr", "{'a': x.split()}|xmlattr"), ("attrs", "xmlattr", "{'a': o}|xmlattr"), ("attrs", "xmlattr", "{'a': [o, x]|list}|xmlattr"),
    ("attrs", "xmlattr", "{'a': 1.5, 'b': true, 'c': [1, x]}|xmlattr"), ("attrs", "xmlattr", "{'a': [x]|unique|list, 'b': (x,)}|xmlattr(false)"),
    ("attrs", "xmlattr", "{'a': x|list}|xmlattr"), ("attrs", "xmlattr", "dict(a=[y], b=o)|xmlattr"), ("attrs", "xmlattr", "{'a': [[x]], 'b': none}|xmlattr"),
    ("shape", "urlize", "u|urlize(target=[x])"), ("shape", "urlize", "u|urlize(40, true, o)"), ("shape", "urlize", "u|urlize(target=(x, y))"),
    ("shape", "urlize", "o|urlize"), ("shape", "urlize", "[u]|urlize"), ("shape", "urlize", "u|urlize(target={x: y})"),
    ("mfree", "expr", "[[x], [y]]|join(w)"), ("mfree", "expr", "[[x], m]|join(w)"), ("mfree", "expr", "[o, m]|join(o)"), ("mfree", "expr", "[(x, y), m]|join"),
    ("mfree", "expr", "'%s'|format([x])"), ("mfree", "expr", "mf|format([x])"), ("mfree", "expr", "mf % [x]"), ("mfree", "expr", "mf|format(o)"),
    ("mfree", "expr", "mf|format({x: y})"), ("mfree", "expr", "mb.format([x], k=(y,))"), ("mfree", "expr", "mb.format(o, k=o)"),
    ("mfree", "expr", "m|replace(' ', [x])"), ("mfree", "expr", "m|replace(' ', o)"), ("mfree", "expr", "m|replace(' ', x, n)"), ("mfree", "expr", "m|replace(' ', x, 1)"),
    ("mfree", "expr", "m|indent(o, true)"), ("mfree", "expr", "m|truncate(5, true, o, 0)") , ("mfree", "expr", "m|wordwrap(3, true, o)"), ("mfree", "expr", "m ~ [x]"),
    ("mfree", "expr", "m + o|string"), ("mfree", "expr", "m.join([[x], o])"), ("mfree", "expr", "[x]|string|e"), ("mfree", "expr", "o"), ("mfree", "expr", "[o]"),
    ("mfree", "expr", "o|e"), ("mfree", "expr", "o|forceescape"), ("mfree", "expr", "o|upper"), ("mfree", "expr", "o|center(30)"), ("mfree", "expr", "o|default(x)"),
    ("mfree", "expr", "o|trim"), ("mfree", "expr", "o|title"), ("mfree", "expr", "o|striptags"), ("mfree", "expr", "o|string ~ m"), ("mfree", "expr", "o|list|join(m)"),
]


def run_scan(ctx, res, jinja2):
    """all built-in filters x receivers x argument shapes, methods and operators; data-controlled everywhere"""
    rng = ctx.rng("scan")
    filters = sorted(jinja2.Environment().filters)
    srcs = []  # (oracle, expression)
    for f in filters:
        if f == "safe":
            continue
        for r in RECEIVERS:
            for a in ARGSETS:
                call = f"{r}|{f}" + (f"({a})" if a else "")
                if f in EXEMPT:
                    srcs.append((EXEMPT[f], f, call))
                else:
                    for p in POST:
                        srcs.append(("mfree", f, call + p))
    for mexpr in METHODS:
        srcs.append(("mfree", "expr", mexpr))
    for uexpr in URLIZE_TRIM:
        srcs.append(("shape", "urlize", uexpr))
    srcs += NONSTR
    basic = lambda e: e[2].count("|") == 1 and "(" not in e[2].split("|")[1]  # noqa: E731  receiver|filter, no arguments
    keep = [s for s in srcs if s[1] == "expr" or s[0] != "mfree" or basic(s)]
    rest = [s for s in srcs if not (s[1] == "expr" or s[0] != "mfree" or basic(s))]
    total_expressions = len(srcs)
    PRE = "{% set m %}a b\nc d e{% endset %}{% set mf %}[%s]{% endset %}{% set mb %}({} {k}){% endset %}"
    datasets = []
    for _ in range(ctx.pick(1, 2)):
        datasets.append({"x": rng.choice(DATA[:1] + DATA[2:4] + DATA[6:]), "y": rng.choice(["\"m2'", "<y1>", "' y2=\"<"]),
                         "w": rng.choice(["<w>", "\"'", ">w<"]), "n": 3, "u": rng.choice(URLS),
                         "o": LazyStr(rng.choice(["<o1>", "\" onmouseover=\"o2", "'o3'>"]))})
    reqs, jobs = [], []
    renders = raised = 0
    per_filter_ok = {}
    modes = ctx.pick(["static", "volatile"], MODES)
    nontrivial = set()
    for mode in modes:
        env = make_env(jinja2, mode, {})
        env.policies["urlize.extra_schemes"] = ["ftp://"]
        wrap = WRAP[mode] or ("", "")
        for data in datasets:
            kw = dict(data, flag=True)
            # every expression without arguments, every method/operator expression, plus a fresh random sample of the rest
            for oracle, f, expr in keep + rng.sample(rest, min(len(rest), ctx.pick(3500, 15000))):
                src = wrap[0] + PRE + "{{ " + expr + " }}" + wrap[1]
                try:
                    if mode == "select":
                        env.loader.mapping["t.Html"] = src
                        env.cache.clear()
                        out = env.get_template("t.Html").render(**kw)
                    else:
                        out = env.from_string(src).render(**kw)
                except Exception:  # noqa
                    raised += 1
                    continue
                renders += 1
                per_filter_ok[f] = per_filter_ok.get(f, 0) + 1
                if not T_wire_ok(out):
                    continue
                if "&" in out:
                    nontrivial.add((expr, data["x"]))
                if oracle == "mfree":
                    reqs.append([Atom("autoesc"), Atom("mfree"), out])
                elif oracle == "tojson":
                    reqs.append([Atom("autoesc"), Atom("free"), "<>'&", out])
                else:
                    reqs.append([Atom("c24"), Atom(oracle), out])
                jobs.append((mode, f, expr, data, out, oracle))
    for (mode, f, expr, data, out, oracle), rep in zip(jobs, core.driver_batch(reqs)):
        if rep[1] is not True:
            key = f"C15:leak:filter:{f}" if f != "expr" else "C15:leak:expr:" + expr[:40]
            res.violate(key, f"{{{{ {expr} }}}} with {dict(data, o=str(data['o']))} under {mode} autoescape renders {out!r}: raw markup character from data "
                        f"(oracle {oracle})", {"expr": expr, "data": dict(data, o=str(data["o"])), "mode": mode, "out": out})
    never = [f for f in filters if f != "safe" and not per_filter_ok.get(f)]
    if never:
        raise core.HarnessError(f"scan never rendered these filters successfully: {never}")
    scan_only = [f for f in filters if f not in ("indent", "replace", "join", "format", "truncate", "wordwrap", "escape", "e", "forceescape",
                                                 "urlize", "xmlattr", "tojson", "safe")]
    return {"renders": renders, "raised": raised, "nontrivial": len(nontrivial), "expressions": total_expressions, "sampled_per_configuration": len(keep) + min(len(rest), ctx.pick(3500, 15000)), "filters": len(filters),
            "modes": modes, "renders_per_filter_min": min(per_filter_ok.values()), "scan_only": scan_only,
            "samples": [{"expr": rest[7][2], "data": dict(datasets[0], o=str(datasets[0]["o"]))}, {"expr": NONSTR[0][2], "data": dict(datasets[0], o=str(datasets[0]["o"]))}]}


def run_select(ctx, res, jinja2):
    """utils.select_autoescape against Model/SelectAutoescape.lean (ASCII names and extensions)"""
    rng = ctx.rng("select")
    exts = ["html", "HTML", ".htm", "..xml", "Xml", "txt", ".TXT", "j2", "html.j2", "", "l", "tml"]
    names = [None, "a.html", "A.HTML", "b.Htm", "c.xml", "d.txt", "e.TxT", "f.html.j2", "g", "html", ".html", "x.html ", "dir.html/y", "z.xhtml",
             "q.tml", "", "r.", "s.j2"]
    reqs, jobs = [], []
    for _ in range(ctx.pick(400, 4000)):
        en = [rng.choice(exts) for _ in range(rng.randrange(0, 4))]
        dis = [rng.choice(exts) for _ in range(rng.randrange(0, 3))]
        dfs, dflt, name = rng.random() < 0.5, rng.random() < 0.5, rng.choice(names)
        reqs.append([Atom("autoesc"), Atom("select"), en, dis, dfs, dflt, Atom("none") if name is None else name])
        jobs.append((en, dis, dfs, dflt, name))
    for (en, dis, dfs, dflt, name), rep in zip(jobs, core.driver_batch(reqs)):
        got = jinja2.select_autoescape(enabled_extensions=en, disabled_extensions=dis, default_for_string=dfs, default=dflt)(name)
        if got is not rep[1]:
            res.violate("C15:select_autoescape", f"select_autoescape({en}, {dis}, default_for_string={dfs}, default={dflt})({name!r}) = {got}; "
                        f"documented rule (model) {rep[1]}", {"enabled": en, "disabled": dis, "default_for_string": dfs, "default": dflt, "name": name})
    return len(jobs)


def run_regions(ctx, res, jinja2):
    """lexical {% autoescape %} regions and {% block %} tags against Model/AutoescRegion.lean: `render` transcribes the engine
    (block bodies use the template-level mode), `renderSpec` is what the property asks for"""
    rng = ctx.rng("regions")

    def gen(depth):
        r = rng.random()
        if depth <= 0 or r < 0.25:
            return ("data", rng.choice(DATA)) if rng.random() < 0.7 else ("text", rng.choice(TEXTS))
        if r < 0.5:
            return ("seq", gen(depth - 1), gen(depth - 1))
        if r < 0.78:
            return ("region", rng.random() < 0.5, gen(depth - 1))
        return ("block", gen(depth - 1))

    def enc(b):
        if b[0] in ("data", "text"):
            return [Atom(b[0]), b[1]]
        if b[0] == "region":
            return [Atom("region"), b[1], enc(b[2])]
        return [Atom(b[0])] + [enc(x) for x in b[1:]]

    def spell(b, st):
        if b[0] == "text":
            return b[1]
        if b[0] == "data":
            st["n"] += 1
            st["kw"][f"d{st['n']}"] = b[1]
            return "{{ d%d }}" % st["n"]
        if b[0] == "seq":
            return spell(b[1], st) + spell(b[2], st)
        if b[0] == "region":
            return "{% autoescape " + ("true" if b[1] else "false") + " %}" + spell(b[2], st) + "{% endautoescape %}"
        st["n"] += 1
        return "{% block b" + str(st["n"]) + " %}" + spell(b[1], st) + "{% endblock %}"

    reqs, jobs = [], []
    for _ in range(ctx.pick(300, 3000)):
        b, tmode = gen(rng.randrange(1, 5)), rng.random() < 0.5
        st = {"n": 0, "kw": {}}
        src = spell(b, st)
        try:
            out = jinja2.Environment(autoescape=tmode).from_string(src).render(**st["kw"])
        except Exception as e:  # noqa
            out = f"raised:{type(e).__name__}:{e}"
        reqs.append([Atom("autoesc"), Atom("region"), tmode, enc(b)])
        jobs.append((src, tmode, st["kw"], out))
    known = agree = 0
    for (src, tmode, kw, out), rep in zip(jobs, core.driver_batch(reqs)):
        m_render, m_spec, ok = rep[1]
        agree += ok is True
        if out == m_spec:
            continue
        replay = {"src": src, "data": kw, "autoescape": tmode, "out": out}
        if out == m_render:
            known += 1
            res.violate("C15:autoescape-region-around-block", f"Environment(autoescape={tmode}): {src!r} with {kw} renders {out!r}; the innermost "
                        f"autoescape region asks for {m_spec!r} (a block body follows the template-level mode)", replay)
        else:
            res.violate("C15:region:other", f"Environment(autoescape={tmode}): {src!r} with {kw} renders {out!r}; region rule {m_spec!r}, "
                        f"engine model {m_render!r}", replay)
    return {"renders": len(jobs), "blocks_agree": agree, "known_defect_instances": known}


SIX = [("replace", "' ', w"), ("replace", "w, y"), ("replace", "'a', w, 1"), ("indent", "w, true"), ("indent", "w, true, true"), ("indent", "w"),
       ("format", "w"), ("format", "w, y"), ("truncate", "5, true, w[:3], 0"), ("truncate", "6, false, w[:3], 0"), ("wordwrap", "3, true, w"),
       ("wordwrap", "2, false, w"), ("join", "w"), ("join", "")]
BLOCK_ARGS = ["", "w", "w, y", "1", "2, w", "3, true, w, 0", "w, true", "true", "'a', w", "4, true, w", "x", "'k'"]
BODIES = ["a b\nc d e", "{{ x }}", "[%s] %s", "", "a {{ y }} b"]
LITERALS = [
    '["<b>"]', '("<b>", 1)', '{"k": "<b>"}', '{"<k>": 1}', '["<b>"] * 2', '"<b>"|list', '["<b>", "\'"]', '[["<i>"]]', '("<b>",)', '["<b>"] + ["x"]',
    '{"k": ["<b>"]}', '["<b>"]|list', '("<b>", \'"\')|list', '["<b>"]|first', '"<b>" * 2', '"<b>" ~ 1', '1 ~ "<b>"', '"<b>"|upper', '"<b>"|center(9)',
    '("<b>" if true else "")', '["<b>"][0]', '{"k": "<b>"}.k', '{"k": "<b>"}|dictsort', '["<b>"]|map("upper")|list', '"<b>x"|batch(2)|list',
    '"a<b"|slice(2)|list', '[1, "<b>"]|reverse|list', '"<b>"|pprint', '["<b>"]|string', '["<b>"]|join', 'none|default(["<b>"])', '["<b>"]|unique|list',
    '["<b>"]|sort', '[["<b>", 1]]|map("first")|list', '"<b>"', '"<b>"|string', '("<b>", "<i>")|join("\'")', '"%s"|format("<b>")', '"<b>"|replace("b", "\'")',
    '"<b>"|indent("<i>", true)', '"<b>"|truncate(9)', '"<b> <i>"|wordwrap(3, true, "\'")', '["<b>"]|length', '"<b>"|e|list', '[("<b>"|e)]', '{"k": "<b>"|e}',
    '"<b>"|title|list', '"<b>".upper()', '"<b>".split("b")', '"{}".format("<b>")', '"<b>" in ["<b>"]', '["<b>"] == ["<b>"]', '[not "<b>", "<b>" and "<i>"]',
]
PLACEMENTS = [("plain", "{{ %s }}"), ("macro", "{%% macro mm() %%}{{ %s }}{%% endmacro %%}{{ mm() }}"), ("set-block", "{%% set vv %%}{{ %s }}{%% endset %%}{{ vv }}"),
              ("call", "{%% macro ww() %%}{{ caller() }}{%% endmacro %%}{%% call ww() %%}{{ %s }}{%% endcall %%}"), ("set", "{%% set vv = %s %%}{{ vv }}"),
              ("for", "{%% for q in [1] %%}{{ %s }}{%% endfor %%}"), ("filter-block", "{%% filter upper %%}{{ %s }}{%% endfilter %%}")]
LOOP_FORMS = [
    ("direct", "{% for x in tree recursive %}[{{ x.v }}{{ loop(x.children) }}]{% endfor %}"),
    ("set-block", "{% for x in tree recursive %}{% set s %}{{ loop(x.children) }}{% endset %}({{ x.v ~ w }}{{ s }}){% endfor %}"),
    ("macro", "{% macro mm(c) %}-{{ c }}-{% endmacro %}{% for x in tree recursive %}{{ x.v }}{{ mm(loop(x.children)) }}{% endfor %}"),
    ("concat", "{% for x in tree recursive %}{{ x.v ~ loop(x.children) }}{% endfor %}"),
]


def marker_tree(rng, depth, tag="t"):
    out = []
    for i in range(rng.randrange(1, 3)):
        name = f"{tag}{i}"
        out.append({"v": rng.choice([f"<{name}>", f"'{name}\"", f"&{name}<"]),
                    "children": marker_tree(rng, depth - 1, name) if depth > 1 else []})
    return out


def run_blocks(ctx, res, jinja2):
    """filter blocks and filtered set blocks (every filter; the six Markup-aware ones with data-controlled arguments in full), literal
    containers / literal expressions in several placements, recursive loops — in every autoescape configuration"""
    rng = ctx.rng("blocks")
    filters = [f for f in sorted(jinja2.Environment().filters) if f not in ("safe", "urlize", "xmlattr", "tojson")]
    combos = [(f, a, b) for f, a in SIX for b in BODIES]
    others = [(f, a, b) for f in filters for a in BLOCK_ARGS for b in BODIES]
    rng.shuffle(others)
    combos += others[: ctx.pick(700, len(others))]
    # chains of 2-3 filters: the buffer enters the first as Markup, each later filter gets the previous result
    links = [f + "(" + a + ")" if a else f for f, a in SIX] + ["upper", "string", "trim", "default('zz')", "title", "center(30)", "e", "forceescape", "list|join(w)"]
    chains = [("chain", "|".join(rng.choice(links) for _ in range(rng.choice([2, 2, 3]))), b) for b in BODIES for _ in range(ctx.pick(12, 120))]
    data = {"x": rng.choice(["<m1>", "\"m2'", "a<m6>b"]), "y": rng.choice(["<y1>", "' y2=\"<"]), "w": rng.choice(["<w>", "\"'w", ">w<"]), "n": 3, "flag": True}
    data["tree"] = marker_tree(rng, 3)
    reqs, jobs = [], []
    renders = raised = 0
    count = {}

    def add(mode, env, key, src, what):
        nonlocal renders, raised
        wrap = WRAP[mode] or ("", "")
        full = wrap[0] + src + wrap[1]
        try:
            if mode == "select":
                env.loader.mapping["t.Html"] = full
                env.cache.clear()
                out = env.get_template("t.Html").render(**data)
            else:
                out = env.from_string(full).render(**data)
        except Exception:  # noqa
            raised += 1
            return
        renders += 1
        count[what] = count.get(what, 0) + 1
        if T_wire_ok(out):
            reqs.append([Atom("autoesc"), Atom("mfree"), out])
            jobs.append((mode, key, full, out))

    for mode in MODES:
        env = make_env(jinja2, mode, {})
        for f, a, b in combos + chains:
            call = a if f == "chain" else f + (f"({a})" if a else "")
            add(mode, env, f"C15:leak:filter-block:{f}", "{% filter " + call + " %}" + b + "{% endfilter %}", "filter-block")
            add(mode, env, f"C15:leak:filtered-set-block:{f}", "{% set vv | " + call + " %}" + b + "{% endset %}{{ vv }}", "filtered-set-block")
        for lit in LITERALS:
            for pname, pat in PLACEMENTS:
                add(mode, env, f"C15:leak:literal:{pname}:{lit[:40]}", pat % lit, "literal")
        for lname, src in LOOP_FORMS:
            add(mode, env, f"C15:leak:recursive-loop:{lname}", src, "recursive-loop")
    for (mode, key, src, out), rep in zip(jobs, core.driver_batch(reqs)):
        if rep[1] is not True:
            res.violate(key, f"{src!r} with x={data['x']!r} y={data['y']!r} w={data['w']!r} under {mode} autoescape renders {out!r}: raw markup character "
                        "from data or a string literal", {"src": src, "data": data, "mode": mode, "out": out, "full": True})
    if not all(count.get(k) for k in ("filter-block", "filtered-set-block", "literal", "recursive-loop")):
        raise core.HarnessError(f"block/literal/loop scan degenerate: {count}")
    return {"renders": renders, "raised": raised, "by_kind": count, "modes": MODES, "filter_block_combinations": len(combos)}


def run_envways(ctx, res, jinja2):
    """autoescaping configurations reached through overlays of fresh and of already-used parents, overlays of overlays, siblings,
    parents re-checked, with templates loaded BY NAME (get_template / include / import / extends) — harness/gen/autoesc_envways.py"""
    rng = ctx.rng("envways")
    scenarios = W.plan(rng, ctx.pick(60, 600))
    data = {"x": rng.choice(["<m1>", "\"m2'", "a<m6>&b"]), "y": rng.choice(["<y1>", "' y2=\"<"])}
    uses, reqs = [], []
    for k, sc in enumerate(scenarios):
        api = T.APIS[k % len(T.APIS)]
        for way, i, kind, name, out, fresh in W.execute(jinja2, sc, data, api):
            on = W.effective_on(kind, name)
            uses.append((k, way + ("" if api == "sync" else ":" + api), i, kind, name, out, fresh, on))
            reqs.append([Atom("autoesc"), Atom("mfree"), out if on and not out.startswith("raised:") and T_wire_ok(out) else ""])
    by_way, leaks, stale = {}, 0, 0
    for (k, way, i, kind, name, out, fresh, on), rep in zip(uses, core.driver_batch(reqs)):
        by_way[way] = by_way.get(way, 0) + 1
        replay = {"scenario": scenarios[k], "data": data, "env_index": i, "name": name, "way": way, "api": T.APIS[k % len(T.APIS)]}
        if out.startswith("raised:") and not fresh.startswith("raised:"):
            res.violate(f"C15:envway:raised:{way}", f"{way}: get_template({name!r}).render raised {out[:120]!r} (a fresh environment renders it)",
                        replay, no_input=True)
        elif on and rep[1] is not True:
            leaks += 1
            res.violate(f"C15:leak:envway:{way}", f"environment reached by {way} with autoescape={kind} in effect: get_template({name!r}).render("
                        f"x={data['x']!r}, y={data['y']!r}) = {out!r} — raw markup character from data; a fresh Environment with the same options "
                        f"renders {fresh!r}; history {scenarios[k]}", replay)
        elif out != fresh:
            stale += 1
            res.violate(f"C15:envway:differs-from-fresh:{way}", f"{way}, autoescape={kind}: {name!r} renders {out!r}, a fresh environment with the "
                        f"effective options {fresh!r} (no raw markup character where autoescaping is in effect: not a leak); history {scenarios[k]}",
                        replay, no_input=True)
    need = ["direct", "overlay-of-fresh-parent", "overlay-of-used-parent", "overlay-of-overlay", "parent-after-overlays"]
    if not all(any(w.startswith(n) for w in by_way) for n in need):
        raise core.HarnessError(f"environment histories degenerate: {by_way}")
    return {"renders": 2 * len(uses), "scenarios": len(scenarios), "uses_by_way": by_way, "autoescape_settings": W.AUTOESCAPES,
            "loaders": ["dict", "function"], "cache_sizes": [400, -1, 2, 0]}


def T_wire_ok(s):
    return not any(0xD800 <= ord(c) <= 0xDFFF for c in s)


PROBES = [
    ("C15:autoescape-region-around-block", False, "{% autoescape true %}[{{ d }}]{% block c %}{{ d }}{% endblock %}{% endautoescape %}"),
    ("C15:autoescape-region-around-block", False, "{% autoescape flag %}[{{ d }}]{% block c %}{{ d }}{% endblock %}{% endautoescape %}"),
]


def run_known_probe(ctx, res, jinja2):
    """the block-in-autoescape-region defect is probed on its own so that it is reported under its own key every run"""
    reqs, jobs = [], []
    for key, ae, src in PROBES:
        out = jinja2.Environment(autoescape=ae).from_string(src).render(d="<m1>", flag=True)
        reqs.append([Atom("autoesc"), Atom("mfree"), out])
        jobs.append((key, src, out))
    for (key, src, out), rep in zip(jobs, core.driver_batch(reqs)):
        if rep[1] is not True:
            res.violate(key, f"Environment(autoescape=False): {src!r} with d='<m1>', flag=True renders {out!r} — the block body inside the "
                        "autoescape region is not escaped", {"src": src, "data": {"d": "<m1>", "flag": True}, "out": out})
    return len(PROBES)


def replay(ctx, case):
    jinja2 = core.import_jinja()
    c = case["case"]
    if "term_case" in c:
        cc = make_case(ctx, c["term_case"])
        out, tpl, _ = render_term(jinja2, cc)
        return {"templates": tpl, "data": cc["data"], "mode": cc["mode"], "render": out}
    if "expr" in c:
        mode = c["mode"]
        env = make_env(jinja2, "static" if mode == "select" else mode, {})
        wrap = WRAP[mode] or ("", "")
        src = wrap[0] + "{% set m %}a b\nc d e{% endset %}{% set mf %}[%s]{% endset %}{% set mb %}({} {k}){% endset %}{{ " + c["expr"] + " }}" + wrap[1]
        try:
            return {"src": src, "render": env.from_string(src).render(**dict(c["data"], flag=True, o=LazyStr(c["data"].get("o", ""))))}
        except Exception as e:  # noqa
            return {"src": src, "raised": f"{type(e).__name__}: {e}"}
    if "scenario" in c:
        return [{"way": w, "env": i, "autoescape": k, "name": n, "render": o, "fresh": f}
                for w, i, k, n, o, f in W.execute(jinja2, c["scenario"], c["data"], c.get("api", "sync"))]
    if "src" in c and c.get("full"):
        env = make_env(jinja2, "static" if c["mode"] == "select" else c["mode"], {})
        try:
            return {"render": env.from_string(c["src"]).render(**c["data"])}
        except Exception as e:  # noqa
            return {"raised": f"{type(e).__name__}: {e}"}
    if "src" in c:
        return {"render": jinja2.Environment(autoescape=c.get("autoescape", False)).from_string(c["src"]).render(**c["data"])}
    return c
