"""C39 — the raw token stream is lossless and line-accurate (Environment.lex vs the Lean lexer model)."""
from __future__ import annotations

import re

from harness import core
from harness import lexcommon as lc

ID = "C39"
LEAN_MODULES = ["JinjaV.Props.C39"]
LEVEL = "proof"
TRUSTED = [
    "Model/Lex.lean is a hand transcription of Lexer.tokeniter and the rule set of Lexer.__init__ (hand scanners for each "
    "regular expression), tied to the real lexer by this differential run; Python's re engine is not modelled",
    "character classes: \\s = the 29 code points measured from the interpreter; identifier characters = ASCII \\w plus the "
    "five non-ASCII characters the generators use",
]
ASSUMPTIONS = ["delimiters and line prefixes are non-empty and contain no whitespace (Cfg.Valid); other configurations are "
               "declined by the model (out of model)"]

EXTRA = ["0x1f", "0b1_0", "1_0", "1e5", "1.5e-3", "1.", "1_", "09", "'a\\'b'", '"x\ny"', "//", "**", "==", "!=", ">=", "~", ",",
         ":", "{", "]", "\x0b", "\x85", "\xa0", "é", "中", "\r", "\f", "e", "_", "%", "#", "<", ">", "?", "=", "$", "raw ", "\\",
         " ", "\n\n", "  ", "-%}", "{%-", "+%}", "{%+", "#}\n"]


def implementation_oracle(src_pre, toks):
    """C39 stated on the implementation's own output: token texts appear in order in the preprocessed source, the
    gaps between them are whitespace, nothing else is missing, and every token carries the line of its start"""
    pos = 0
    for lineno, kind, text in toks:
        i = pos
        while not src_pre.startswith(text, i):
            if i >= len(src_pre) or not src_pre[i].isspace():
                return f"token {kind} {text!r} not found at/after offset {pos} (non-whitespace would be skipped)"
            i += 1
        if lineno != 1 + src_pre.count("\n", 0, i):
            # an empty token has no position of its own: accept any line within the skipped gap
            if not (text == "" and 1 + src_pre.count("\n", 0, pos) <= lineno <= 1 + src_pre.count("\n", 0, i)):
                return f"token {kind} {text!r} at offset {i} reports line {lineno}, source line is {1 + src_pre.count(chr(10), 0, i)}"
        pos = i + len(text)
    rest = src_pre[pos:]
    if rest.strip() != "":
        return f"source text {rest!r} after the last token is lost"
    return None


def preprocess_py(c, src):
    lines = re.split(r"\r\n|\r|\n", src)
    if not c["keep_trailing_newline"] and lines[-1] == "":
        del lines[-1]
    return "\n".join(lines)


def run(ctx, res, pid="C39"):
    jinja2 = core.import_jinja()
    maxlen = ctx.pick(2, 3)
    nrand = ctx.pick(2500, 25000)
    total, distinct, mism, kinds, errs = 0, set(), 0, {}, {}
    samples = []
    for name, c in lc.CONFIGS.items():
        env = lc.make_env(jinja2, c)
        rng = ctx.rng("src", name)
        fr = lc.fragments(c) + EXTRA
        srcs = sorted(set(lc.enumerate_sources(c, maxlen)))
        srcs += ["".join(rng.choice(fr) for _ in range(rng.randrange(1, 20))) for _ in range(nrand)]
        n_plain = len(srcs)
        srcs += [lc.skeleton(rng, c, rng.randrange(1, 7))[0] for _ in range(nrand)]
        variants = lc.env_variants(jinja2, c)
        models = lc.model_lex([(c, s) for s in srcs])
        for i, (s, m) in enumerate(zip(srcs, models)):
            # structured sources are also lexed through an overlay of a used environment / Template(...)
            vname, venv = variants[i % 3] if i >= n_plain else ("fresh", env)
            real = lc.real_lex(venv, s)
            total += 1
            distinct.add((name, s))
            for t in (real[1] if real[0] == "ok" else []):
                kinds[t[1]] = kinds.get(t[1], 0) + 1
            if real[0] != "ok":
                k = real[1] if isinstance(real[1], str) else real[1][0]
                errs[k] = errs.get(k, 0) + 1
            if real == m["res"]:
                continue
            mism += 1
            if m["res"][0] == "oom":
                continue
            verdict = None
            if real[0] == "ok":
                verdict = implementation_oracle(preprocess_py(c, s), real[1])
            elif real[0] == "raised":
                verdict = f"lexer raised {real[1]} (not a TemplateSyntaxError)"
            elif real[0] == "syntax-error" and m["res"][0] == "syntax-error" and real[2] != m["res"][2]:
                verdict = f"error reported at line {real[2]}, the failing construct is on line {m['res'][2]}"
            if verdict:
                res.violate(f"{pid}:{name}:" + verdict.split(" ")[0] + ":" + (real[1][-1][1] if real[0] == "ok" and real[1] else real[0]),
                            f"config {name} ({vname}): lexing {s!r}: {verdict}; tokens {real[1] if real[0] == 'ok' else real}",
                            {"config": name, "source": s})
            else:
                res.violate(f"{pid}:model-drift", f"config {name} ({vname}): lexer and model differ on {s!r} (losslessness/line oracle passes): "
                            f"real {str(real)[:200]} model {str(m['res'])[:200]}", {"config": name, "source": s}, no_input=True)
        if len(samples) < 3:
            samples.append({"config": name, "source": srcs[len(srcs) // 2], "tokens": lc.real_lex(env, srcs[len(srcs) // 2])})
    res.coverage.update({
        "evaluations": total,
        "distinct_nontrivial": len({d for d in distinct if d[1]}),
        "rule": (f"for each of {len(lc.CONFIGS)} configurations (default, trim/lstrip combinations, keep_trailing_newline, "
                 f"ERB/PHP/dollar delimiters, three line-statement/comment prefix sets): every concatenation of <= {maxlen} "
                 f"fragments from the configuration's alphabet (delimiters, signs, raw/endraw, names, numbers, quotes, "
                 f"brackets, newlines, blanks, CRLF; exhaustive) plus {nrand} random concatenations of up to 19 fragments from "
                 "an extended alphabet (number spellings, escapes, Unicode whitespace, look-alikes) and as many structured "
                 "skeletons (text/whitespace runs, signed block/variable/comment tags, raw blocks, line statements and "
                 "comments) lexed through a fresh environment, an overlay of an already used environment with different "
                 "options, and Template(...); the real tokeniter "
                 "output (tokens, line numbers, error kind and line) must equal the Lean model's"),
        "samples": samples,
        "exhaustive": True,
        "token_kind_distribution": kinds,
        "error_kind_distribution": errs,
        "mismatches": mism,
    })


def replay(ctx, case):
    jinja2 = core.import_jinja()
    c = lc.CONFIGS[case["case"]["config"]]
    s = case["case"]["source"]
    return {"real": lc.real_lex(lc.make_env(jinja2, c), s), "model": lc.model_lex([(c, s)])[0]["res"]}
