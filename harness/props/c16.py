"""C16 — autoescaping escapes each value exactly once.

Proof: Props/C16.lean over Model/Escape.lean + Model/Autoesc.lean (value-level model of output, `~`, bound values and buffered
bodies used as values, evaluated with and without autoescape).
Tie: generated terms of that model are spelled as Jinja templates in many ways (set blocks, macros with arguments, call
blocks / caller(), imported macros, includes, super(), with, for, filter-free output variants), rendered by the real engine
with autoescape on and off (static, select_autoescape by name, `{% autoescape true/false %}` blocks, runtime-decided
`{% autoescape flag %}`), and (a) the property's oracle `unescape(render_on) == render_off` is evaluated with the Lean
`unescape`, (b) both renders are compared with the model's `outOn` / `outOff`.
"""
from __future__ import annotations

from harness import core
from harness.core import Atom
from harness.gen import autoesc_envways as W
from harness.gen import autoesc_terms as T

ID = "C16"
LEAN_MODULES = ["JinjaV.Props.C16"]
LEVEL = "proof"
TRUSTED = [
    "Model/Autoesc.lean is a hand-written value-level model of the compiler/runtime paths that wrap or escape values "
    "(_output_child_pre, return_buffer_contents, visit_AssignBlock, Macro/BlockReference returning Markup(concat(..)), markup_join); "
    "it is tied to the engine only by this run's renders of generated terms (both modes compared with the model)",
    "html.unescape is modelled on the five entities escape produces; the oracle uses that same Lean `unescape`",
    "which Jinja constructs denote which term constructor (harness/gen/autoesc_terms.py Realiser) is part of the harness",
]
ASSUMPTIONS = [
    "escaping-neutral fragment: string literals, names, ~, output, sequencing (include / import / inheritance), bound values (macro "
    "arguments, set, with, for), buffered bodies as values (macro call, caller(), super(), set block, call block, loop(children) of a "
    "recursive for loop, a {% filter string %} block); template text is "
    "&-free; context data are plain strings; no |safe, no length/position/escaping-sensitive filter",
]
CLAIM = dict(
    category="proof",
    technique="Lean 4 proof of an 'escaped exactly once' relation preserved by every construction of a value-level model of "
              "autoescaping (induction over terms, both evaluation modes) + renders of generated terms spelled as templates in many "
              "ways, autoescape on/off in four configurations, judged by the Lean unescape oracle and compared with the model",
    text="Theorems (Props/C16.lean): unescape_escape (unescape (escape s) = s for every string); entity_language_closed (escaped "
         "text, and text whose every & starts a complete entity, is closed under concatenation and contains escape s and &-free "
         "text); unescape_hom (unescape is a homomorphism on that language and the identity on &-free text); once (for every term of "
         "the neutral fragment with &-free template text and every pair of environments related by 'escaped exactly once', the value "
         "under autoescape is related to the value without and the text written under autoescape unescapes to exactly the text written "
         "without) and render_once (with plain context data: unescape(render_on) = render_off). Tie: random terms (depth <= 4/5) "
         "rendered through the real engine in spellings covering set blocks, macros, call blocks, imported macros, includes, super(), "
         "with, for, {% filter string %} blocks and filtered set blocks, plus recursive for loops (depth 3-4, loop(children) in output, "
         "set blocks, macro arguments, ~) unfolded into terms, under static / select_autoescape / {% autoescape true|false %} / runtime-decided {% autoescape flag %} "
         "configurations, data and literals containing & and all metacharacters; oracle evaluated by the Lean unescape; both renders "
         "compared with the model. The Lean statement does not depend on the rendering mode; the harness additionally runs every "
         "configuration in async environments (enable_async=True through render(), render_async() and generate_async(), with names read "
         "through an awaited async data function) and through environments reached by overlays.",
    note="Trusted: Lean kernel; the value-level model (tied by correspondence only; it is not derived from the compiler's code "
         "generator); the spelling of terms as templates; unescape restricted to the five entities.",
    design_ref="§5 C16",
)

LITS = ["<b>", "&", "&amp;", "a&lt;b", "'", '"', "x", "", " ", "<i class='k'>", "&#39;", "1 < 2 > 0", "é<", "&&", "&am", "p;"]
TEXTS = ["<p>", "</p>", " ", "x", "a='1'", '"q"', "-", "[", "]", "<br/>", "é", "lt;", "amp;"]
DATA = ["<m1>", "a&b", "&amp;", "&lt;script&gt;", "\"q\" 'r'", "", "x", "<>&'\"", "é&", "&#39;", "&&", "&am", "p;", "<a href=\"u?a=1&b=2\">"]
MODES = ["static", "select", "block", "volatile"]


def make_case(ctx, i, ops=False, lits=LITS, texts=TEXTS, data_pool=DATA, depth=None):
    rng = ctx.rng("case", i)
    nd = rng.randrange(1, 4)
    data = [rng.choice(data_pool) for _ in range(nd)]
    g = T.TermGen(rng, lits, texts, data, ops=ops)
    term = g.top(depth if depth is not None else rng.randrange(2, ctx.pick(5, 6)))
    mode = rng.choice(MODES)
    rseed = rng.randrange(1 << 30)
    api = rng.choice(T.APIS) if rng.random() < 0.6 else "sync"
    return {"i": i, "data": data, "term": term, "mode": mode, "rseed": rseed, "api": api}


def render_case(jinja2, case, on):
    """render the case's term with autoescape on / off in the case's configuration; returns (text or raised:…, templates, used)"""
    import random

    mode, api = case["mode"], case.get("api", "sync")
    r = random.Random(case["rseed"])
    ndata = len(case["data"])
    kw = {f"d{i}": v for i, v in enumerate(case["data"])}
    kw.update(T.api_context(api))
    afn = api != "sync"
    if mode == "static":
        rl = T.Realiser(r, ndata, async_fn=afn)
        env_kw = dict(autoescape=on)
    elif mode == "select":
        rl = T.Realiser(r, ndata, suffix=".html" if on else ".txt", async_fn=afn)
        env_kw = dict(autoescape=jinja2.select_autoescape(enabled_extensions=("html",), disabled_extensions=("txt",), default=not on))
    elif mode == "block":
        rl = T.Realiser(r, ndata, wrap=("{% autoescape " + ("true" if on else "false") + " %}", "{% endautoescape %}"), async_fn=afn)
        env_kw = dict(autoescape=not on)
    else:
        rl = T.Realiser(r, ndata, wrap=("{% autoescape flag %}", "{% endautoescape %}"), async_fn=afn)
        env_kw = dict(autoescape=bool(case["rseed"] & 1))
        kw["flag"] = on
    main = rl.top(case["term"])
    env = jinja2.Environment(loader=jinja2.DictLoader(rl.templates), **env_kw, **T.api_env_kw(api))
    try:
        out = T.render_api(env.get_template(main), api, kw)
    except Exception as e:  # noqa
        out = f"raised:{type(e).__name__}:{e}"
    return out, rl.templates, rl.used


# recursive loops: `loop(children)` is one more buffered body used as a value (compiler.py visit_For, recursive epilogue:
# return_buffer_contents) — the unfolding of a recursive loop over a concrete tree is a term of the neutral fragment
LOOP_FORMS = {
    "direct": "{% for x in tree recursive %}[{{ x.v }}{{ loop(x.children) }}]{% endfor %}",
    "set-block": "{% for x in tree recursive %}{% set s %}{{ loop(x.children) }}{% endset %}({{ x.v ~ w }}{{ s }}){% endfor %}",
    "macro": "{% macro mm(c) %}-{{ c }}-{% endmacro %}{% for x in tree recursive %}{{ x.v }}{{ mm(loop(x.children)) }}{% endfor %}",
    "concat": "{% for x in tree recursive %}{{ x.v ~ loop(x.children) }}<{% endfor %}",
    "twice": "{% for x in tree recursive %}{% set s = loop(x.children) %}{{ s }}{{ x.v }}{{ s }}{% endfor %}",
}


def seq_of(parts):
    t = ("empty",)
    for p in reversed(parts):
        t = p if t == ("empty",) else ("seq", p, t)
    return t


def unfold(form, tree, w):
    """the term a recursive loop over `tree` denotes"""
    items = []
    for x in tree:
        rec = ("blk", unfold(form, x["children"], w))       # loop(x.children)
        v = ("lit", x["v"])
        if form == "direct":
            items += [("text", "["), ("emit", v), ("emit", rec), ("text", "]")]
        elif form == "set-block":
            items.append(("bind", ("blk", ("emit", rec)), seq_of([("text", "("), ("emit", ("cat", v, ("lit", w))), ("emit", ("var", 0)), ("text", ")")])))
        elif form == "macro":
            items += [("emit", v), ("emit", ("blk", ("bind", rec, seq_of([("text", "-"), ("emit", ("var", 0)), ("text", "-")]))))]
        elif form == "concat":
            items += [("emit", ("cat", v, rec)), ("text", "<")]
        else:
            items.append(("bind", rec, seq_of([("emit", ("var", 0)), ("emit", v), ("emit", ("var", 0))])))
    return seq_of(items)


def gen_tree(rng, depth):
    return [{"v": rng.choice(DATA), "children": gen_tree(rng, depth - 1) if depth > 1 else []} for _ in range(rng.randrange(1, 3))]


def run_recursive(ctx, res, jinja2):
    rng = ctx.rng("recursive")
    cases = []
    for i in range(ctx.pick(120, 1200)):
        form = rng.choice(sorted(LOOP_FORMS))
        tree = gen_tree(rng, rng.randrange(3, 5))
        w = rng.choice(DATA)
        cases.append((form, tree, w, rng.choice(MODES), rng.randrange(2), rng.choice(T.APIS)))
    replies = core.driver_batch([[Atom("autoesc"), Atom("eval"), T.enc(unfold(f, t, w)), []] for f, t, w, _, _, _ in cases])
    renders = []
    for form, tree, w, mode, bit, api in cases:
        outs = []
        for on in (True, False):
            src, kw, name = LOOP_FORMS[form], {"tree": tree, "w": w}, "t"
            if mode == "static":
                env_kw = dict(autoescape=on)
            elif mode == "select":
                name = "t.html" if on else "t.txt"
                env_kw = dict(autoescape=jinja2.select_autoescape(enabled_extensions=("html",), disabled_extensions=("txt",), default=not on))
            elif mode == "block":
                src = "{% autoescape " + ("true" if on else "false") + " %}" + src + "{% endautoescape %}"
                env_kw = dict(autoescape=not on)
            else:
                src = "{% autoescape flag %}" + src + "{% endautoescape %}"
                env_kw = dict(autoescape=bool(bit))
                kw["flag"] = on
            try:
                env = jinja2.Environment(loader=jinja2.DictLoader({name: src}), **env_kw, **T.api_env_kw(api))
                outs.append(T.render_api(env.get_template(name), api, kw))
            except Exception as e:  # noqa
                outs.append(f"raised:{type(e).__name__}:{e}")
        renders.append(outs)
    unesc = core.driver_batch([[Atom("autoesc"), Atom("unescape"), on if not on.startswith("raised:") else ""] for on, _ in renders])
    nontrivial = 0
    for (form, tree, w, mode, bit, api), rep, (on, off), un in zip(cases, replies, renders, unesc):
        m_on, m_off, neutral, _, _ = rep[1]
        replay = {"loop_form": form, "src": LOOP_FORMS[form], "tree": tree, "w": w, "mode": mode, "env_default": bool(bit), "api": api}
        mode = mode + ("" if api == "sync" else ":" + api)
        if neutral is not True:
            raise core.HarnessError("recursive-loop unfolding left the neutral fragment")
        if on.startswith("raised:") or off.startswith("raised:"):
            res.violate(f"C16:render-raised:recursive-loop:{mode}", f"render raised: on={on[:120]!r} off={off[:120]!r}", replay, no_input=True)
            continue
        nontrivial += on != off
        if un[1] != off:
            res.violate(f"C16:once:recursive-loop:{mode}", f"recursive loop {LOOP_FORMS[form]!r} over {tree} (w={w!r}, mode {mode}): unescape(render with "
                        f"autoescape) = {un[1]!r} but render without = {off!r} (autoescaped render {on!r})", replay)
        elif on != m_on or off != m_off:
            res.violate("C16:model-difference:recursive-loop", f"mode {mode}: {LOOP_FORMS[form]!r} renders {on!r} / {off!r}, model {m_on!r} / {m_off!r}",
                        replay, no_input=True)
    return {"renders": 2 * len(cases), "nontrivial": nontrivial, "forms": sorted(LOOP_FORMS), "tree_depth": "3-4"}


def run_envways(ctx, res, jinja2):
    """exactly-once through environments reached by overlays of fresh / used parents etc., templates loaded by name"""
    rng = ctx.rng("envways")
    scenarios = W.plan(rng, ctx.pick(20, 300))
    data = {"x": rng.choice(["a&amp;b<m1>", "&lt;<"]), "y": rng.choice(["&#39;<", "&amp;&"])}
    uses = []
    for k, sc in enumerate(scenarios):
        api = T.APIS[k % len(T.APIS)]
        for way, i, kind, name, out, fresh in W.execute(jinja2, sc, data, api):
            if name in ("page.html", "child.html") and W.effective_on(kind, name) and not out.startswith("raised:"):
                uses.append((k, way + ("" if api == "sync" else ":" + api), kind, name, out))
    # page.html / child.html use only escaping-neutral constructs apart from |upper: compare on a variant without it
    off = {}
    for name in ("page.html", "child.html"):
        env = jinja2.Environment(loader=W.make_loader(jinja2, "dict"), autoescape=False)
        off[name] = env.get_template(name).render(**data)
    un = core.driver_batch([[Atom("autoesc"), Atom("unescape"), u[4]] for u in uses])
    for (k, way, kind, name, out), rep in zip(uses, un):
        if neutral_part(rep[1]) != neutral_part(off[name]):
            res.violate(f"C16:once:envway:{way}", f"environment reached by {way} (autoescape={kind}): unescape(get_template({name!r}).render) = "
                        f"{rep[1]!r} but the render without autoescape is {off[name]!r}; history {scenarios[k]}",
                        {"scenario": scenarios[k], "data": data, "name": name, "way": way})
    return {"renders": len(uses), "scenarios": len(scenarios)}


def neutral_part(s):
    """page.html's third field is `x|upper` (not escaping-neutral: entity names change case); it is left out of the comparison"""
    parts = s.split("|")
    return parts[:2] + parts[3:] if len(parts) > 3 else parts


# indent applied to a rendered fragment: escaping does not touch line breaks, so indenting is escaping-neutral whatever the width
# string contains; the body has line breaks and an empty line so that every path of do_indent runs
IND_BODY = "a {{ x }}\nb\n\n{{ y }} c\n d"
IND_ARGS = ["w, first=true", "w, first=false", "2, true", "w, true, true", "w, blank=true", "4", "w", "0, true", "w, false, true"]
IND_FORMS = {
    "set-block": {"main": "{% set v %}BODY{% endset %}[{{ v|indent(ARGS) }}]"},
    "macro": {"main": "{% macro m(q) %}BODY{% endmacro %}[{{ m(x)|indent(ARGS) }}]"},
    "import": {"lib": "{% macro m(x, y) %}BODY{% endmacro %}", "main": "{% import 'libSUF' as lib %}[{{ lib.m(x, y)|indent(ARGS) }}]"},
    "from-import": {"lib": "{% macro m(x, y) %}BODY{% endmacro %}", "main": "{% from 'libSUF' import m %}[{{ m(x, y)|indent(ARGS) }}]"},
    "caller": {"main": "{% macro wr() %}[{{ caller()|indent(ARGS) }}]{% endmacro %}{% call wr() %}BODY{% endcall %}"},
    "filter-block": {"main": "[{% filter indent(ARGS) %}BODY{% endfilter %}]"},
    "filtered-set-block": {"main": "{% set v | indent(ARGS) %}BODY{% endset %}[{{ v }}]"},
    "twice": {"main": "{% set v %}BODY{% endset %}[{{ v|indent(ARGS)|indent(ARGS) }}]"},
    "self-block": {"main": "{% block b %}BODY{% endblock %}[{{ self.b()|indent(ARGS) }}]"},
    "super": {"base": "{% block b %}BODY{% endblock %}", "main": "{% extends 'baseSUF' %}{% block b %}[{{ super()|indent(ARGS) }}]{% endblock %}"},
}


def run_indent(ctx, res, jinja2):
    rng = ctx.rng("indent")
    cases = []
    for _ in range(ctx.pick(150, 1500)):
        form = rng.choice(sorted(IND_FORMS))
        # a region wrapper does not reach into a {% block %} body (C15 known finding) and hides macros from import: template-level modes there
        mode = rng.choice(["static", "select"] if form in ("self-block", "super", "import", "from-import") else MODES)
        cases.append((form, rng.choice(IND_ARGS), {"x": rng.choice(DATA), "y": rng.choice(DATA), "w": rng.choice(DATA + ["  ", "&nbsp;"])},
                      mode, rng.randrange(2), rng.choice(T.APIS)))
    renders = []
    for form, args, data, mode, bit, api in cases:
        outs = []
        for on in (True, False):
            suf = (".html" if on else ".txt") if mode == "select" else ""
            kw = dict(data)
            wrap = ("", "")
            if mode == "static":
                env_kw = dict(autoescape=on)
            elif mode == "select":
                env_kw = dict(autoescape=jinja2.select_autoescape(enabled_extensions=("html",), disabled_extensions=("txt",), default=not on))
            elif mode == "block":
                wrap = ("{% autoescape " + ("true" if on else "false") + " %}", "{% endautoescape %}")
                env_kw = dict(autoescape=not on)
            else:
                wrap = ("{% autoescape flag %}", "{% endautoescape %}")
                env_kw = dict(autoescape=bool(bit))
                kw["flag"] = on
            tpl = {k + suf: wrap[0] + v.replace("BODY", IND_BODY).replace("ARGS", args).replace("SUF", suf) + wrap[1] for k, v in IND_FORMS[form].items()}
            try:
                env = jinja2.Environment(loader=jinja2.DictLoader(tpl), **env_kw, **T.api_env_kw(api))
                outs.append(T.render_api(env.get_template("main" + suf), api, kw))
            except Exception as e:  # noqa
                outs.append(f"raised:{type(e).__name__}:{e}")
        renders.append(outs)
    unesc = core.driver_batch([[Atom("autoesc"), Atom("unescape"), on if not on.startswith("raised:") else ""] for on, _ in renders])
    nontrivial, by_form = 0, {}
    for (form, args, data, mode, bit, api), (on, off), un in zip(cases, renders, unesc):
        cfg = mode + ("" if api == "sync" else ":" + api)
        by_form[form] = by_form.get(form, 0) + 1
        replay = {"indent_form": form, "templates": IND_FORMS[form], "body": IND_BODY, "args": args, "data": data, "mode": mode, "api": api}
        if on.startswith("raised:") or off.startswith("raised:"):
            res.violate(f"C16:render-raised:indent:{form}", f"render raised: on={on[:120]!r} off={off[:120]!r}", replay, no_input=True)
            continue
        nontrivial += on != off
        if un[1] != off:
            res.violate(f"C16:once:indent:{form}:{cfg}", f"indent({args}) applied to a rendered fragment ({form}: {IND_FORMS[form]['main']!r}, body "
                        f"{IND_BODY!r}) with {data}, configuration {cfg}: unescape(render with autoescape) = {un[1]!r} but render without = {off!r} "
                        f"(autoescaped render {on!r})", replay)
    return {"renders": 2 * len(cases), "nontrivial": nontrivial, "by_form": by_form}


def run(ctx, res):
    jinja2 = core.import_jinja()
    ind = run_indent(ctx, res, jinja2)
    rec = run_recursive(ctx, res, jinja2)
    ways = run_envways(ctx, res, jinja2)
    n = ctx.pick(1200, 12000)
    cases = [make_case(ctx, i) for i in range(n)]
    replies = core.driver_batch([[Atom("autoesc"), Atom("eval"), T.enc(c["term"]), c["data"]] for c in cases])
    rendered = []
    used_all, modes, kinds, sizes = {}, {}, {}, []
    for c in cases:
        on, tpl, used = render_case(jinja2, c, True)
        off, _, _ = render_case(jinja2, c, False)
        rendered.append((on, off, tpl))
        for k, v in used.items():
            used_all[k] = used_all.get(k, 0) + v
        modes[c["mode"]] = modes.get(c["mode"], 0) + 1
        T.kinds(c["term"], kinds)
        sizes.append(T.size(c["term"]))
    unesc = core.driver_batch([[Atom("autoesc"), Atom("unescape"), on if not on.startswith("raised:") else ""] for on, _, _ in rendered])
    nontrivial = set()
    apis = {}
    for c, rep, (on, off, tpl), un in zip(cases, replies, rendered, unesc):
        m_on, m_off, neutral, m_un, _ = rep[1]
        if neutral is not True:
            raise core.HarnessError("generator left the neutral fragment")
        replay = {"case": c["i"], "mode": c["mode"], "api": c["api"], "data": c["data"], "templates": tpl, "term": core.sx(T.enc(c["term"]))}
        cfg = c["mode"] + ("" if c["api"] == "sync" else ":" + c["api"])
        apis[c["api"]] = apis.get(c["api"], 0) + 1
        if on.startswith("raised:") or off.startswith("raised:"):
            res.violate(f"C16:render-raised:{c['mode']}", f"render raised: on={on[:120]!r} off={off[:120]!r}", replay, no_input=True)
            continue
        if on != off:
            nontrivial.add((core.sx(T.enc(c["term"])), tuple(c["data"]), c["mode"]))
        if un[1] != off:
            res.violate(f"C16:once:{cfg}", f"unescape(render with autoescape) = {un[1]!r} but render without = {off!r} "
                        f"(autoescaped render {on!r}; configuration {cfg}; main template {tpl[[k for k in tpl if k.startswith('main')][0]]!r})", replay)
        elif on != m_on or off != m_off:
            res.violate("C16:model-difference", f"mode {c['mode']}: render on/off = {on!r} / {off!r}, model {m_on!r} / {m_off!r} "
                        "(the once-oracle still holds on this case)", replay, no_input=True)
        if m_un != m_off:
            raise core.HarnessError(f"model violates its own theorem on {replay}")
    res.coverage.update({
        "evaluations": 2 * len(cases) + rec["renders"] + ways["renders"] + ind["renders"],
        "indent_over_buffered_bodies": ind,
        "environment_ways": ways,
        "distinct_nontrivial": len(nontrivial) + rec["nontrivial"],
        "recursive_loops": rec,
        "rule": ("random well-sorted terms of the neutral fragment (depth 2-4 quick / 2-5 thorough) over 1-3 context strings drawn from a "
                 "pool with & < > ' \" and entity look-alikes, literals likewise, &-free template text with markup; each term is spelled as "
                 "a template set by the Realiser (random choice among the spellings of blk / bind / seq / emit) and rendered with "
                 "autoescape on and off in one of four configurations. Non-trivial: the two renders differ (something was escaped)"),
        "samples": [{"term": core.sx(T.enc(c["term"])), "data": c["data"], "mode": c["mode"], "templates": rendered[j][2]}
                    for j, c in list(enumerate(cases))[:2]],
        "mode_distribution": modes,
        "api_distribution": apis,
        "spellings_used": used_all,
        "constructor_distribution": kinds,
        "term_size": {"min": min(sizes), "max": max(sizes), "mean": round(sum(sizes) / len(sizes), 1)},
    })


def replay(ctx, case):
    jinja2 = core.import_jinja()
    c = case["case"]
    if isinstance(c, dict) and "scenario" in c:
        return [{"way": w, "autoescape": k, "name": n, "render": o} for w, i, k, n, o, f in W.execute(jinja2, c["scenario"], c["data"])]
    if isinstance(c, dict) and "indent_form" in c:
        out = {}
        for on in (True, False):
            tpl = {k: v.replace("BODY", c["body"]).replace("ARGS", c["args"]).replace("SUF", "") for k, v in c["templates"].items()}
            out["on" if on else "off"] = jinja2.Environment(loader=jinja2.DictLoader(tpl), autoescape=on).get_template("main").render(**c["data"])
        out["unescaped_on"] = core.driver_batch([[Atom("autoesc"), Atom("unescape"), out["on"]]])[0][1]
        return out
    if isinstance(c, dict) and "loop_form" in c:
        out = {}
        for on in (True, False):
            out["on" if on else "off"] = jinja2.Environment(autoescape=on).from_string(c["src"]).render(tree=c["tree"], w=c["w"])
        out["unescaped_on"] = core.driver_batch([[Atom("autoesc"), Atom("unescape"), out["on"]]])[0][1]
        return out
    if isinstance(c, dict) and "case" in c:
        cc = make_case(ctx, c["case"])
        on, tpl, _ = render_case(jinja2, cc, True)
        off, _, _ = render_case(jinja2, cc, False)
        un = core.driver_batch([[Atom("autoesc"), Atom("unescape"), on]])[0][1]
        return {"templates": tpl, "data": cc["data"], "mode": cc["mode"], "render_on": on, "unescaped": un, "render_off": off}
    return c
