"""C18 — sandbox: unsafe callables are never invoked as a result of a call in the template."""
from __future__ import annotations

import asyncio

from harness import core
from harness import sandbox_common as sc
from harness.props import c18_hist
from translate import sandbox as tr_sandbox

ID = "C18"
GEN = [tr_sandbox.gen]
LEAN_MODULES = ["JinjaV.Props.C18"]
LEVEL = "proof"
TRUSTED = [
    "translator translate/sandbox.py (is_safe_callable, shape of SandboxedEnvironment.call; cross-run each run)",
    "that every Call node compiles to environment.call is established per generated program by the structural "
    "check of the generated code and by recording callables (translation validation / correspondence)",
]
ASSUMPTIONS = ["safe callables invoked by the template do not themselves call unsafe ones (outside the engine's control)"]

PATHS = [
    ("direct", "{{ F() }}"),
    ("direct-args", "{{ F(1, k=2) }}"),
    ("set-alias", "{% set g = F %}{{ g() }}"),
    ("with-alias", "{% with g = F %}{{ g() }}{% endwith %}"),
    ("attribute", "{{ holder.f() }}"),
    ("dict-attr", "{{ d.f() }}"),
    ("dict-item", "{{ d['f']() }}"),
    ("list-item", "{{ l[0]() }}"),
    ("macro-arg", "{% macro m(c) %}{{ c() }}{% endmacro %}{{ m(F) }}"),
    ("macro-default", "{% macro m(c=F) %}{{ c() }}{% endmacro %}{{ m() }}"),
    ("call-block-target", "{% call F() %}x{% endcall %}"),
    ("inside-call-block", "{% macro m() %}[{{ caller() }}]{% endmacro %}{% call m() %}{{ F() }}{% endcall %}"),
    ("caller-arg", "{% macro m() %}{{ caller(F) }}{% endmacro %}{% call(c) m() %}{{ c() }}{% endcall %}"),
    ("loop-var", "{% for c in [F] %}{{ c() }}{% endfor %}"),
    ("loop-dict", "{% for k, c in d.items() %}{{ c() }}{% endfor %}"),
    ("filter-arg", "{{ 1|default(F()) }}"),
    ("filter-arg-kw", "{{ none|default(value=F()) }}"),
    ("test-arg", "{{ 1 is eq(F()) }}"),
    ("if-test", "{% if F() %}y{% endif %}"),
    ("cond-expr", "{{ F() if true else 0 }}"),
    ("range-arg", "{{ range(F() or 1) }}"),
    ("set-block", "{% set v %}{{ F() }}{% endset %}{{ v }}"),
    ("filter-block", "{% filter upper %}{{ F() }}{% endfilter %}"),
    ("star-args", "{{ F(*[1, 2]) }}"),
    ("dstar-args", "{{ F(**{'a': 1}) }}"),
    ("nested-call", "{{ ok(F()) }}"),
    ("method-of-result", "{{ ok2().f() }}"),
    ("import-macro", "{% import 'lib' as lib %}{{ lib.run(F) }}"),
    ("include", "{% include 'inc' %}"),
    ("block", "{% block b %}{{ F() }}{% endblock %}"),
    ("recursive-loop", "{% for n in [[F]] recursive %}{% if n is iterable %}{{ loop(n) }}{% else %}{{ n() }}{% endif %}{% endfor %}"),
]


def mk_callables(log, jinja2):
    def rec(name):
        def f(*a, **k):
            log.append(name)
            return "ran"
        f.__name__ = name
        return f

    u = rec("unsafe")
    u.unsafe_callable = True
    a = rec("alters")
    a.alters_data = True
    b = rec("alters-not-unsafe")
    b.alters_data = True
    b.unsafe_callable = False

    class Actions:
        def delete(self):
            log.append("method-alters")
            return "ran"
        delete.alters_data = True

        def drop(self):
            log.append("method-unsafe")
            return "ran"
        drop.unsafe_callable = True

    class CallableObj:
        unsafe_callable = True

        def __call__(self, *a, **k):
            log.append("callable-object")
            return "ran"

    out = {"unsafe": u, "alters": a, "alters-not-unsafe": b, "method-alters": Actions().delete,
           "method-unsafe": Actions().drop, "callable-object": CallableObj()}
    # callable objects whose __call__ is a pass_* function: the engine unwraps them to find the decoration
    # (Context.call); the verdict must still be taken on the object the template named
    for deco_name in ("pass_context", "pass_environment", "pass_eval_context"):
        deco = getattr(jinja2, deco_name)

        def mk(deco=deco, deco_name=deco_name):
            class PassClassLevel:
                alters_data = True

                @deco
                def __call__(self, first, *a, **k):
                    log.append(f"{deco_name}-object-class-marker")
                    return "ran"

            class PassInstanceLevel:
                @deco
                def __call__(self, first, *a, **k):
                    log.append(f"{deco_name}-object-instance-marker")
                    return "ran"

            inst = PassInstanceLevel()
            inst.unsafe_callable = True
            return PassClassLevel(), inst
        c, i = mk()
        out[f"{deco_name}-object-class-marker"] = c
        out[f"{deco_name}-object-instance-marker"] = i
    return out


def run(ctx, res):
    jinja2 = core.import_jinja()
    from jinja2 import sandbox
    from jinja2.exceptions import SecurityError

    n_cross = sc.decision_crosscheck(res, "C18")
    evaluations, distinct, structural_programs = 0, set(), 0
    outcomes = {}
    loader = jinja2.DictLoader({"lib": "{% macro run(c) %}{{ c() }}{% endmacro %}", "inc": "{{ F() }}"})

    class Custom(sandbox.SandboxedEnvironment):
        """overridden safety check: additionally rejects anything carrying `deny`"""

        def is_safe_callable(self, obj):
            return not getattr(obj, "deny", False) and super().is_safe_callable(obj)

    envs = [
        ("sandboxed", lambda: sandbox.SandboxedEnvironment(loader=loader)),
        ("sandboxed-async", lambda: sandbox.SandboxedEnvironment(loader=loader, enable_async=True)),
        ("immutable", lambda: sandbox.ImmutableSandboxedEnvironment(loader=loader)),
        ("custom-check", lambda: Custom(loader=loader)),
        ("custom-check-async", lambda: Custom(loader=loader, enable_async=True)),
        ("sandboxed-i18n", lambda: sandbox.SandboxedEnvironment(loader=loader, extensions=["jinja2.ext.i18n"])),
    ]
    for envname, mk in envs:
        env = mk()
        log = []
        cs = mk_callables(log, jinja2)
        if envname.startswith("custom"):
            def denied(*a, **k):
                log.append("denied-by-override")
                return "ran"
            denied.deny = True
            cs["denied-by-override"] = denied
        paths = list(PATHS)
        if envname == "sandboxed-i18n":
            paths += [("i18n-gettext", "{{ gettext('hi') }}"), ("i18n-underscore", "{{ _('hi') }}"),
                      ("i18n-ngettext", "{{ ngettext('a', 'b', 2) }}"), ("i18n-trans", "{% trans %}hi{% endtrans %}")]
        for cname, fobj in cs.items():
            for pname, src in paths:
                del log[:]

                def ok(x=None):
                    return "ok"

                class H:
                    f = None

                h = H()
                h.f = fobj
                data = {"F": fobj, "holder": h, "d": {"f": fobj}, "l": [fobj], "ok": ok, "ok2": lambda: h}
                if pname.startswith("i18n"):
                    data.update({"gettext": fobj, "ngettext": fobj})
                    if pname == "i18n-trans":
                        env.globals.update(gettext=fobj, ngettext=fobj)
                try:
                    code = env.compile(src, raw=True)
                    sv = sc.structural_violations(code, sandboxed=True)
                    structural_programs += 1
                    if sv:
                        res.violate(f"C18:structural:{sv[0][0]}:{pname}", f"generated code of {src!r} calls outside the sandbox: {sv[0][1]}",
                                    {"src": src, "env": envname, "snippets": sv[:3]})
                    t = env.from_string(src)
                    out = asyncio.run(t.render_async(**data)) if env.is_async else t.render(**data)
                    err = None
                except SecurityError:
                    out, err = "", "SecurityError"
                except Exception as e:  # noqa
                    out, err = "", type(e).__name__
                finally:
                    if pname == "i18n-trans":
                        env.globals.pop("gettext", None)
                        env.globals.pop("ngettext", None)
                evaluations += 1
                distinct.add((envname, cname, pname))
                outcomes[err or "rendered"] = outcomes.get(err or "rendered", 0) + 1
                if log:
                    res.violate(f"C18:{pname}:{cname}", f"{envname}: rendering {src!r} invoked the {cname} callable "
                                f"(log {log[:2]}, outcome {err or out!r})", {"src": src, "env": envname, "callable": cname})
        # control: a safe callable does run (the harness is not vacuous)
        t = env.from_string("{{ F() }}")
        out = asyncio.run(t.render_async(F=lambda: "fine")) if env.is_async else t.render(F=lambda: "fine")
        if out != "fine":
            raise core.HarnessError(f"C18 control failed in {envname}: {out!r}")
    # histories of calls in one environment: safe short-lived callables first, then an unsafe one (c18_hist.py)
    hist = c18_hist.run(ctx, res, jinja2, sandbox, structural=sc.structural_violations)
    if not hist["history_safe_calls_run"]:
        raise core.HarnessError("C18 histories: no safe call ran (vacuous)")
    evaluations += hist["history_evaluations"]
    res.coverage.update(hist)
    res.coverage.update({
        "evaluations": evaluations + n_cross,
        "distinct_nontrivial": len(distinct) + hist["history_distinct"],
        "rule": ("12-13 recording callables (unsafe_callable, alters_data, alters_data with unsafe_callable=False, bound "
                 "methods, callable object, callable objects with a pass_context/pass_environment/pass_eval_context __call__ "
                 "marked at class or instance level, rejected-by-override) x 31 paths (direct, aliases, attribute/dict/list "
                 "holders, macro argument/default, call block target/body/caller argument, loop variables, filter and "
                 "test arguments, conditions, set/filter blocks, star-args, nested calls, import, include, block, "
                 "recursive loop; i18n functions) x sandboxed/async/immutable/overridden-check environments; oracle = "
                 "the recorder never ran; structural check of every program; cross-run of translated decisions. "
                 "HISTORIES (c18_hist.py): per environment kind 160 (quick) / 1200 (thorough) random call histories in ONE "
                 "environment (fresh per history, or a long-lived shared one): 1-3 renders, each a few safe calls of "
                 "short-lived callables (bound methods made by attribute access, per-access closures, functools.partial "
                 "objects, callable instances) written along 34 routes (direct, set/with aliases of the object, of the "
                 "callable and of the result, macros, call blocks, filter/test arguments, attr/map filters, loops, blocks, "
                 "import) and then one unsafe call of the same kind (unsafe_callable, alters_data, alters_data with "
                 "unsafe_callable=False, rejected by an overridden is_safe_callable by attribute or by name) so that the "
                 "unsafe object reuses the freed safe one's address; non-trivial = the safe prefix ran and the unsafe call "
                 "is reached unconditionally; oracle = recorder never ran and the last render ends in SecurityError"),
        "samples": [{"src": PATHS[8][1], "callable": "alters"}, {"src": PATHS[10][1], "callable": "unsafe"}],
        "structural_programs": structural_programs,
        "decision_crosscheck_cases": n_cross,
        "outcomes": outcomes,
    })


def replay(ctx, case):
    c = case["case"]
    if isinstance(c, dict) and c.get("family") == "history":
        jinja2 = core.import_jinja()
        from jinja2 import sandbox
        return c18_hist.replay(ctx, c, jinja2, sandbox)
    return c
