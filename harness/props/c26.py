"""C26 — LRUCache ≡ reference LRU map (sequential histories + controlled schedules)."""
from __future__ import annotations

import copy
import itertools
import pickle

from harness import core
from harness.core import Atom
from harness.sched import explore_schedules

from translate import lru_steps

ID = "C26"
GEN = [lru_steps.gen]
LEAN_MODULES = ["JinjaV.Props.C26", "JinjaV.Props.C26Sched"]
LEVEL = "proof"
TRUSTED = [
    "Model/LRU.lean is a hand transcription of utils.py:431-578, tied by this correspondence run",
    "threading.Lock mutual exclusion; thread switches only between source lines (settrace granularity)",
]
ASSUMPTIONS = [
    "capacity >= 1 (LRUCache(0) is not constructible through Environment: create_cache maps 0 to None)",
    "keys are hashable values with lawful ==",
]

KEYS = [0, 1, 2]


def enc_op(op):
    name = op[0]
    if len(op) == 1:
        return Atom(name)
    return [Atom(name), *op[1:]]


def apply(c, op):
    """run one operation on the real cache; returns (cache, canonical output)"""
    from jinja2.utils import LRUCache  # noqa

    name = op[0]
    try:
        if name == "getitem":
            return c, ["val", c[op[1]]]
        if name == "get":
            return c, ["val", c.get(op[1], op[2])]
        if name == "set":
            c[op[1]] = op[2]
            return c, "none"
        if name == "del":
            del c[op[1]]
            return c, "none"
        if name == "setdefault":
            return c, ["val", c.setdefault(op[1], op[2])]
        if name == "contains":
            return c, ["bool", op[1] in c]
        if name == "len":
            return c, ["nat", len(c)]
        if name == "clear":
            c.clear()
            return c, "none"
        if name == "copy":
            c2 = c.copy() if op[-1] != "copymod" else copy.copy(c)
            return c2, "none"
        if name == "pickle":
            return pickle.loads(pickle.dumps(c, pickle.HIGHEST_PROTOCOL)), "none"
        if name == "keys":
            return c, ["keys", list(c.keys())]
        if name == "iter":
            return c, ["keys", list(iter(c))]
        if name == "reversed":
            return c, ["keys", list(reversed(c))]
        if name == "values":
            return c, ["vals", list(c.values())]
        if name == "items":
            return c, ["items", [list(kv) for kv in c.items()]]
    except KeyError:
        return c, "keyError"
    except Exception as e:  # anything else is an "internal" path
        return c, f"internal:{type(e).__name__}"
    raise AssertionError(op)


def canon(o):
    """driver reply → comparable python structure"""
    if isinstance(o, list):
        return [canon(x) for x in o]
    return str(o) if isinstance(o, Atom) else o


MUTATORS = ([("getitem", k) for k in KEYS] + [("set", k) for k in KEYS] + [("del", k) for k in KEYS]
            + [("setdefault", k) for k in KEYS] + [("clear",), ("copy",), ("pickle",)])
OBSERVERS = ([("len",), ("keys",), ("values",), ("items",), ("iter",), ("reversed",)]
             + [("contains", k) for k in KEYS] + [("get", k, 99) for k in KEYS])


def concretise(seq, obs_shift):
    """give every write a distinct value and interleave an observer after each mutator"""
    out = []
    for i, op in enumerate(seq):
        if op[0] in ("set", "setdefault"):
            out.append((op[0], op[1], 10 + i))
        else:
            out.append(op)
        out.append(OBSERVERS[(i + obs_shift) % len(OBSERVERS)])
    out.append(("items",))
    out.append(("len",))
    return out


def run_history(cap, ops):
    from jinja2.utils import LRUCache

    c = LRUCache(cap)
    outs = []
    for op in ops:
        c, o = apply(c, op)
        outs.append(o)
    return outs, c


def run(ctx, res):
    from jinja2.utils import LRUCache

    maxlen = ctx.pick(4, 5)
    histories = []
    # corpus first: the eviction/recency shapes
    corpus = [
        (2, [("set", 0, 1), ("set", 1, 2), ("getitem", 0), ("set", 2, 3), ("contains", 1), ("keys",), ("items",)]),
        (1, [("set", 0, 1), ("set", 1, 2), ("get", 0, 9), ("len",), ("pickle",), ("items",)]),
        (3, [("setdefault", 0, 1), ("setdefault", 0, 2), ("del", 0), ("del", 0), ("copy",), ("reversed",)]),
    ]
    histories += corpus
    n_ex = 0
    for cap in (1, 2, 3):
        for n in range(0, maxlen + 1):
            for j, seq in enumerate(itertools.product(MUTATORS, repeat=n)):
                histories.append((cap, concretise(seq, j + cap)))
                n_ex += 1
    # random long histories
    rng = ctx.rng("long")
    allops = MUTATORS + OBSERVERS
    for i in range(ctx.pick(2000, 30000)):
        cap = rng.choice((1, 2, 3, 4))
        n = rng.randint(8, 40)
        seq = [rng.choice(allops) for _ in range(n)]
        seq = [(o[0], o[1], 10 + j) if o[0] in ("set", "setdefault") else o for j, o in enumerate(seq)]
        histories.append((cap, seq + [("items",)]))

    reqs = [[Atom("lru"), cap, [enc_op(o) for o in ops]] for cap, ops in histories]
    replies = core.driver_batch(reqs)
    distinct = set()
    opcount = {}
    n_mismatch = 0
    maxlen_seen = 0
    for (cap, ops), rep in zip(histories, replies):
        if rep[0] != "ok":
            raise core.HarnessError(f"driver rejected {ops}: {rep}")
        model_out, spec_out, model_queue, model_len = [canon(x) for x in rep[1]]
        impl_out, c = run_history(cap, ops)
        for o in ops:
            opcount[o[0]] = opcount.get(o[0], 0) + 1
        distinct.add((cap, tuple(ops)))
        over = len(c._mapping) > cap if hasattr(c, "_mapping") else False
        if impl_out != spec_out or over:
            # oracle = the reference map; find the first differing step and shrink to that prefix
            k = next((i for i, (a, b) in enumerate(zip(impl_out, spec_out)) if a != b), len(ops) - 1)
            n_mismatch += 1
            if any(v.key == f"C26:seq:{ops[k][0]}" for v in res.violations) or len(res.violations) >= 6:
                continue
            short = shrink(cap, ops[: k + 1])
            io, _ = run_history(cap, short)
            res.violate(
                f"C26:seq:{ops[k][0]}",
                f"LRUCache({cap}) history {short} returned {io[-1]!r}, reference LRU map differs",
                {"cap": cap, "ops": short, "impl": io},
            )
        elif impl_out != model_out:
            n_mismatch += 1
            res.notes.append(f"model/impl differ but spec agrees: cap={cap} ops={ops}")
            res.violate("C26:model-drift", f"model and implementation differ on cap={cap} {ops} (oracle passes)",
                        {"cap": cap, "ops": ops, "impl": impl_out, "model": model_out}, no_input=True)
        maxlen_seen = max(maxlen_seen, len(ops))

    # concurrent part --------------------------------------------------------
    sched_stats = explore_schedules(ctx, res)

    res.coverage.update({
        "evaluations": len(histories) + sched_stats["schedules"],
        "distinct_nontrivial": len(distinct) - 3 + sched_stats["distinct"],
        "rule": (f"sequential: all sequences of length <= {maxlen} over 15 mutating operations "
                 f"(getitem/set/del/setdefault on 3 keys, clear, copy, pickle) x capacities 1-3, an observer after "
                 f"each step, plus random histories of 8-40 operations; non-trivial = at least one operation; "
                 f"concurrent: {sched_stats['rule']}"),
        "samples": [{"cap": h[0], "ops": [list(o) for o in h[1]]} for h in (histories[0], histories[len(histories) // 2], histories[-1])]
                   + sched_stats["samples"],
        "exhaustive": True,
        "exhaustive_sequences": n_ex,
        "op_distribution": opcount,
        "mismatches": n_mismatch,
        "schedules": sched_stats,
    })


def shrink(cap, ops):
    """delete operations while the last output still differs from the reference"""

    def bad(o):
        io, _ = run_history(cap, o)
        rep = core.driver_batch([[Atom("lru"), cap, [enc_op(x) for x in o]]])[0]
        return rep[0] == "ok" and io != [canon(x) for x in rep[1][1]]

    cur = list(ops)
    changed = True
    while changed and len(cur) > 1:
        changed = False
        for i in range(len(cur) - 1):
            cand = cur[:i] + cur[i + 1:]
            if bad(cand):
                cur = cand
                changed = True
                break
    return cur


def replay(ctx, case):
    c = case["case"]
    if "ops" in c:
        ops = [tuple(o) for o in c["ops"]]
        io, _ = run_history(c["cap"], ops)
        rep = core.driver_batch([[Atom("lru"), c["cap"], [enc_op(x) for x in ops]]])[0]
        return {"impl": io, "reference": [canon(x) for x in rep[1][1]]}
    from harness.sched import replay_schedule

    return replay_schedule(c)
