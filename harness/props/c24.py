"""C24 — HTML-producing filters cannot be used to inject markup.

Proof: Props/C24.lean over Model/Escape.lean + Model/HtmlFilt.lean + Gen/HtmlRegex.lean (replace chain of
htmlsafe_json_dumps, regular-expression patterns and the key character class, READ from the source on every run).
Tie: L-unit differential of the real functions (markupsafe.escape as used by jinja2, htmlsafe_json_dumps / tojson,
do_xmlattr, utils.urlize / do_urlize, do_indent, do_replace, sync_do_join, do_format, do_truncate, do_wordwrap,
do_forceescape) against the Lean model on adversarial inputs, plus an end-to-end scan of rendered templates with the
Lean-side oracles (shape recogniser for urlize, attribute-list recogniser for xmlattr, escaped-text / markup-free tests).
"""
from __future__ import annotations

import json
import textwrap

import translate.html_regex
from harness import core
from harness.core import Atom

ID = "C24"
GEN = [translate.html_regex.gen]
LEAN_MODULES = ["JinjaV.Props.C24"]
LEVEL = "proof"
TRUSTED = [
    "Model/Escape.lean and Model/HtmlFilt.lean are hand transcriptions of markupsafe.escape/_escape_inner, the Markup methods "
    "(+, join, replace, %, slicing, rsplit, splitlines), do_xmlattr, utils.urlize, do_indent, do_replace, sync_do_join, do_format "
    "(%s / %% only), do_truncate, do_wordwrap, do_forceescape — tied by this differential run only; the replace chain of "
    "htmlsafe_json_dumps, the regular-expression patterns and _attr_key_re's character class are read from the source "
    "(translate/html_regex.py)",
    "regular-expression matching (_http_re, _email_re, \\w in _uri_scheme_re) and textwrap.wrap are parameters of the model; the "
    "real re / textwrap answers are supplied per case; the patterns are pinned by theorem regex_pins",
    "json.dumps is a parameter (any string d for tojson_clean); the round trip is proved for the body of one JSON string literal "
    "(json.dumps emits < > & ' only inside string literals: assumed, validated with json.loads on every generated value)",
    "Python's re \\s / str.splitlines line-break sets are transcribed as constants (pyIsSpace, lineBreaks) and exercised by the generator",
]
ASSUMPTIONS = [
    "xmlattr keys are plain str (a Markup key is trusted by markupsafe.escape; the docs say keys must never be user input)",
    "tojson's indent argument is an int or None (json.dumps inserts a str indent verbatim outside string literals; the result "
    "still contains none of < > & ' but is no longer JSON)",
    "filter receivers and arguments are str or Markup (other objects are first converted by str())",
]
CLAIM = dict(
    category="proof",
    technique="Lean 4 proofs about an executable model of HTML escaping and of the HTML-producing filters, with the tojson "
              "replace chain, regular-expression patterns and the xmlattr key class regenerated from utils.py/filters.py by a "
              "Python-ast translator + differential runs of the real filters against the model + end-to-end oracle scan",
    text="Theorems (Props/C24.lean), for all inputs: escape_clean (escape s is made of ordinary characters and complete "
         "entities: none of < > \" ', every & starts one of the five entities), escape_spec (the five chained replacements of "
         "markupsafe equal the single pass), forceescape_spec; tojson_clean (for ANY string d returned by dumps, the replace chain "
         "read from htmlsafe_json_dumps leaves none of < > & ' — proved over the generated chain, so removing or reordering a "
         ".replace so that a character survives breaks the proof) and tojson_roundtrip_partial (inside a JSON string literal the "
         "chain only rewrites a character into a \\uXXXX escape that json's string scanner reads back as that character); "
         "xmlattr_keys (a kept item whose key contains space, tab, LF, CR, FF, VT, /, > or = makes the filter raise; the class "
         "is read from _attr_key_re), xmlattr_values (the result is the concatenation of ' k=\"v\"' with k and plain v escaped; "
         "None/undefined skipped); urlize_shape (for ANY url / e-mail predicates whose matches contain a non-space character, any "
         "trim limit, rel, target and validated extra schemes, the output is a concatenation of escaped-text pieces and anchors "
         "<a href=\"U\"[ rel=\"R\"][ target=\"T\"]>X</a> with U, R, T, X free of < > \" ' and U free of white space); "
         "markup_args_escaped (indent, replace, join, format, truncate, wordwrap: if every Markup input is free of < > \" ' then a "
         "Markup result is too, whatever the plain arguments contain — plain arguments are escaped, never trusted). Tie: differential "
         "runs of the real functions against the model (adversarial strings with metacharacters, entity fragments, every white-space "
         "and line-break character, URL / e-mail like fragments, nested JSON-like values, generated arguments), the real re / "
         "textwrap answers supplied as the model's parameters; rendered templates scanned with the Lean-side oracles.",
    note="Trusted: Lean kernel; translator; hand models of markupsafe and of the filters (tied by correspondence only); regular "
         "expressions abstracted (patterns pinned); json.dumps assumed to emit the four characters only inside string literals; "
         "format is modelled for %s and %% only.",
    design_ref="§5 C24",
)

M = "<>\"'"
WS = [" ", "\t", "\n", "\r", "\x0b", "\x0c", "\x1c", "\x1d", "\x1e", "\x1f", "\x85", "\xa0", "\u1680", "\u2003", "\u2028", "\u2029",
      "\u202f", "\u205f", "\u3000"]
FRAGS = ["<", ">", "&", "'", '"', ";", "#", "&amp;", "&lt;", "&gt;", "&#39;", "&#34;", "&am", "&lt", "&#3", "&&", "amp;", "<script>",
         "</a>", "<a href=\"", "\" onclick=\"x", "' x='", "\\", "\\u003c", "\\\\u0026", "\\\"", "u0027", "/", "=", "%", "%s", "%%",
         "(", ")", "((", "))", ".", ",", "..", "@", ":", "-", "+", "a", "b", "Z", "0", "9", "é", "ß", "\U0001F600", "\x00", "\x7f",
         "http://", "https://", "www.", "HTTP://", "example.com", "x.org", "a-b.net/p?q=1&r=<2>", "mailto:", "a@b.co", "me@x.org",
         "@a@b", "ftp://", "tel:", "javascript:", "192.168.0.1", "[::1]", ":8080", "/path(1)", "#frag", "xn--abc", "foo.info"]


def rstr(rng, maxlen=8, ws=True):
    n = rng.randrange(0, maxlen + 1)
    out = []
    for _ in range(n):
        r = rng.random()
        if ws and r < 0.22:
            out.append(rng.choice(WS))
        else:
            out.append(rng.choice(FRAGS))
    return "".join(out)


def rurl(rng):
    """text dense in url / e-mail like words with punctuation around them"""
    words = []
    for _ in range(rng.randrange(1, 5)):
        core_ = rng.choice(["http://example.com", "https://a.b-c.org/p(1)?q=<x>&r='y'", "www.foo.com", "foo.info", "x.y.net/a\"b",
                            "mailto:me@x.org", "me@x.org", "a@b", "@a@b.co", "www.a@b.co", "u:p@h.com", "ftp://h/x", "tel:+123", "ftp:",
                            "javascript:alert(1)", "http://192.168.0.1:80/", "http://[::1]/", "http://a.com</a>", "HTTPS://UP.COM",
                            "http://é.com", "b.org\"onmouseover=\"x", "a.com'", "http://x.com/&amp;", "plain", rstr(rng, 3, ws=False)])
        pre = "".join(rng.choice(["", "", "(", "<", "((", "&lt;", "(<"]) for _ in range(rng.randrange(0, 2)))
        post = "".join(rng.choice(["", "", ")", ">", ".", ",", "))", ")." , "&gt;", ">)", "!"]) for _ in range(rng.randrange(0, 3)))
        words.append(pre + core_ + post)
    seps = [rng.choice(WS + [" ", " ", "  ", " \n"]) for _ in words]
    return "".join(w + s for w, s in zip(words, seps)) + rng.choice(["", "", "x"])


def V(v):
    """wire form of a str / Markup value"""
    from markupsafe import Markup
    return [Atom("markup"), str(v)] if isinstance(v, Markup) else [Atom("plain"), str(v)]


def unV(rep):
    """(plain "s") / (markup "s") reply -> (kind, text)"""
    return (str(rep[0]), rep[1])


def kind_of(v):
    from markupsafe import Markup
    return ("markup" if isinstance(v, Markup) else "plain", str(v))


def wire_ok(s):
    return not any(0xD800 <= ord(c) <= 0xDFFF for c in s)


def rval(rng, maxlen=6, markup_p=0.4, clean_markup=False):
    from markupsafe import Markup, escape
    s = rstr(rng, maxlen)
    if rng.random() < markup_p:
        return Markup(escape(s)) if clean_markup else Markup(s)
    return s


class Case:
    """one differential case: request for the driver, thunk calling the real code, violation key"""

    def __init__(self, fam, req, call, key, show):
        self.fam, self.req, self.call, self.key, self.show = fam, req, call, key, show


def run(ctx, res):
    jinja2 = core.import_jinja()
    import markupsafe
    from markupsafe import Markup
    from jinja2 import nodes, utils
    from jinja2.runtime import Undefined

    cases: list[Case] = []
    dist: dict = {}
    nontrivial = set()

    def envs():
        out = {}
        for ae in (False, True):
            env = jinja2.Environment(autoescape=ae)
            out[ae] = (env, nodes.EvalContext(env))
        return out

    E = envs()

    def filt(ae, name, value, *args, **kw):
        env, ec = E[ae]
        return env.call_filter(name, value, args, kw, eval_ctx=ec)

    def outcome(thunk):
        try:
            v = thunk()
        except Exception as e:  # noqa
            return ("raised", type(e).__name__)
        return kind_of(v)

    # ---- escape / forceescape ------------------------------------------------------------------------------------
    rng = ctx.rng("escape")
    strs = ["", "&", "&&amp;", "<>\"'&", "&#39;&#34;", "a&lt;b", "&amp;amp;"] + [rstr(rng, 10) for _ in range(ctx.pick(300, 9000))]
    for s in strs:
        def call(s=s):
            import html
            from markupsafe import _native
            a = markupsafe.escape(s)
            b = jinja2.filters.escape(s)
            c = E[True][0].filters["e"](s)
            d = _native._escape_inner(s)
            assert isinstance(a, Markup)
            return [str(a), str(b), str(c), d, html.unescape(str(a))]
        cases.append(Case("escape", [Atom("c24"), Atom("escape"), s], call, "C24:escape", s))
        for v in (s, Markup(s)):
            cases.append(Case("forceescape", [Atom("c24"), Atom("forceescape"), V(v)],
                              lambda v=v: outcome(lambda: filt(True, "forceescape", v)), "C24:forceescape", repr(v)))
            cases.append(Case("escapef", [Atom("c24"), Atom("escapef"), V(v)],
                              lambda v=v: outcome(lambda: filt(True, "escape", v)), "C24:escape-filter", repr(v)))

    # ---- tojson ----------------------------------------------------------------------------------------------------
    rng = ctx.rng("tojson")

    def rjson(depth=0):
        r = rng.random()
        if depth > 2 or r < 0.45:
            return rstr(rng, 6)
        if r < 0.55:
            return rng.choice([None, True, False, 0, -3, 10 ** 20, 1.5, -0.25])
        if r < 0.8:
            return [rjson(depth + 1) for _ in range(rng.randrange(0, 4))]
        return {rstr(rng, 3): rjson(depth + 1) for _ in range(rng.randrange(0, 4))}

    tojson_vals = [rjson() for _ in range(ctx.pick(250, 7500))] + ["</script><script>alert('&')</script>", "\\u003c", "\\\\", "\ud800x"]
    tj_jobs = []
    for v in tojson_vals:
        for indent in (None, 2):
            rec = []

            def dumps(obj, _rec=rec, **kw):
                d = json.dumps(obj, **kw)
                _rec.append(d)
                return d

            try:
                env = jinja2.Environment()
                env.policies["json.dumps_function"] = dumps
                out = env.call_filter("tojson", v, () if indent is None else (indent,), eval_ctx=nodes.EvalContext(env))
                out2 = utils.htmlsafe_json_dumps(v, dumps=dumps, sort_keys=True)
            except Exception as e:  # noqa
                res.violate("C24:tojson:raised", f"tojson raised {type(e).__name__} on {v!r}", {"value": repr(v)})
                continue
            tj_jobs.append((v, indent, rec[0], out))
            tj_jobs.append((v, "direct", rec[1], out2))
    for v, indent, d, out in tj_jobs:
        if wire_ok(d):
            cases.append(Case("tojson", [Atom("c24"), Atom("tojson"), d], lambda out=out: kind_of(out), "C24:tojson:chain", repr(v)))
        # oracle on the implementation's output, whatever the model says: statement of the property
        bad = [c for c in "<>&'" if c in str(out)]
        try:
            back = json.loads(str(out))
            same = back == json.loads(d)
        except Exception as e:  # noqa
            same, back = False, f"{type(e).__name__}: {e}"
        dist["tojson-oracle"] = dist.get("tojson-oracle", 0) + 1
        if bad:
            res.violate("C24:tojson:unsafe-char", f"tojson({v!r}) = {str(out)!r} contains {bad}", {"value": repr(v), "indent": indent})
        elif not same:
            res.violate("C24:tojson:roundtrip", f"tojson({v!r}) = {str(out)!r} parses back to {back!r}", {"value": repr(v), "indent": indent})
    # the string-literal scanner of the round-trip theorem against json.loads
    for v in [x for x in tojson_vals if isinstance(x, str) and wire_ok(x)][: ctx.pick(120, 3600)]:
        for ea in (True, False):
            body = json.dumps(v, ensure_ascii=ea)[1:-1]
            chained = str(utils.htmlsafe_json_dumps(v, ensure_ascii=ea))[1:-1]
            for b in (body, chained):
                def call(b=b):
                    s = json.loads('"' + b + '"')
                    return list(s.encode("utf-16-le", "surrogatepass"))
                cases.append(Case("jsondec", [Atom("c24"), Atom("jsondec"), b], call, "C24:tojson:string-scanner", repr(v)))

    # ---- xmlattr -----------------------------------------------------------------------------------------------------
    rng = ctx.rng("xmlattr")
    keypool = ["class", "id", "data-x", "a b", "a\tb", "a\nb", "a\rb", "a\x0cb", "a\x0bb", "a/b", "a>b", "a=b", "on<x", "q\"q", "k'", "&k", "",
               "x\xa0y", "x\u2028y", "é", "a b=c", " ", "/"]
    und = Undefined(name="missing")
    for _ in range(ctx.pick(400, 12000)):
        items = []
        for _k in range(rng.randrange(0, 4)):
            k = rng.choice(keypool) if rng.random() < 0.7 else rstr(rng, 3)
            if any(k == k0 for k0, _ in items):
                continue
            r = rng.random()
            v = None if r < 0.15 else und if r < 0.3 else rng.choice([0, 7, True]) if r < 0.36 else rval(rng, 5)
            items.append((k, v))
        ae, asp = rng.random() < 0.6, rng.random() < 0.7
        enc = []
        for k, v in items:
            enc.append([k, Atom("none")] if v is None else [k, Atom("undefined")] if v is und else [k, V(v if isinstance(v, str) else str(v))])
        d = dict(items)
        cases.append(Case("xmlattr", [Atom("c24"), Atom("xmlattr"), ae, asp, enc],
                          lambda ae=ae, d=d, asp=asp: outcome(lambda: filt(ae, "xmlattr", d, asp)), "C24:xmlattr", repr((items, ae, asp))))

    # ---- indent / replace / join / format / truncate / wordwrap --------------------------------------------------------
    rng = ctx.rng("markup-args")
    for _ in range(ctx.pick(350, 10000)):
        s = rval(rng, 7, 0.5)
        if rng.random() < 0.6:
            brk = ["\n", "\n", "\r\n", "\r", "\x0b", "\x85", "\u2028", "\n\n", " "]
            s = type(s)("".join(rstr(rng, 2, ws=False) + rng.choice(brk) for _ in range(rng.randrange(0, 4))))
        if rng.random() < 0.35:
            w, wenc = rng.randrange(-1, 4), None
            wenc = [Atom("num"), w]
        else:
            w = rval(rng, 2, 0.3)
            wenc = [Atom("str"), V(w)]
        first, blank = rng.random() < 0.4, rng.random() < 0.4
        cases.append(Case("indent", [Atom("c24"), Atom("indent"), V(s), wenc, first, blank],
                          lambda s=s, w=w, first=first, blank=blank: outcome(lambda: filt(True, "indent", s, w, first, blank)),
                          "C24:indent", repr((s, w, first, blank))))
    for _ in range(ctx.pick(400, 12000)):
        s, old, new = rval(rng, 6, 0.45), rval(rng, 1, 0.25), rval(rng, 2, 0.25)
        if rng.random() < 0.5 and str(s):
            i = rng.randrange(len(str(s)))
            old = type(old)(str(s)[i:i + rng.randrange(1, 3)])
        count = rng.choice([None, None, 0, 1, 2])
        ae = rng.random() < 0.75
        cases.append(Case("replace", [Atom("c24"), Atom("replace"), ae, V(s), V(old), V(new), Atom("none") if count is None else count],
                          lambda ae=ae, s=s, old=old, new=new, count=count: outcome(lambda: filt(ae, "replace", s, old, new, count)),
                          "C24:replace", repr((ae, s, old, new, count))))
    for _ in range(ctx.pick(350, 10000)):
        vals = [rval(rng, 3, 0.3) for _ in range(rng.randrange(0, 4))]
        d = rval(rng, 2, 0.3)
        ae = rng.random() < 0.75
        cases.append(Case("join", [Atom("c24"), Atom("join"), ae, [V(x) for x in vals], V(d)],
                          lambda ae=ae, vals=vals, d=d: outcome(lambda: filt(ae, "join", list(vals), d)), "C24:join", repr((ae, vals, d))))
    for _ in range(ctx.pick(350, 10000)):
        parts = [rng.choice(["%s", "%s", "%%", "<b>", "a", " ", "&", "'", "x=\"", "é"]) for _ in range(rng.randrange(0, 5))]
        f = "".join(parts)
        f = Markup(f) if rng.random() < 0.6 else f
        nargs = max(0, parts.count("%s") + rng.choice([0, 0, 0, 0, 1, -1]))
        args = [rval(rng, 3, 0.3) for _ in range(nargs)]
        cases.append(Case("format", [Atom("c24"), Atom("format"), V(f), [V(a) for a in args]],
                          lambda f=f, args=args: outcome(lambda: filt(True, "format", f, *args)), "C24:format", repr((f, args))))
    for _ in range(ctx.pick(350, 10000)):
        s = rval(rng, 8, 0.5)
        if rng.random() < 0.6:
            s = type(s)(" ".join(rstr(rng, 2, ws=False) for _ in range(rng.randrange(1, 6))))
        end = rval(rng, 1, 0.3) if rng.random() < 0.7 else "..."
        length, leeway, kill = rng.randrange(0, 14), rng.choice([0, 0, 1, 5]), rng.random() < 0.5
        cases.append(Case("truncate", [Atom("c24"), Atom("truncate"), V(s), length, kill, V(end), leeway],
                          lambda s=s, length=length, kill=kill, end=end, leeway=leeway: outcome(lambda: filt(True, "truncate", s, length, kill, end, leeway)),
                          "C24:truncate", repr((s, length, kill, end, leeway))))
    for _ in range(ctx.pick(250, 7500)):
        s = rval(rng, 8, 0.5)
        s = type(s)(rng.choice(["\n", " ", "\r\n", "\u2028"]).join(rstr(rng, 3, ws=False) + " " + rstr(rng, 2, ws=False) for _ in range(rng.randrange(1, 4))))
        ws_ = rval(rng, 1, 0.5) if rng.random() < 0.8 else "\n"
        width, blw, boh = rng.randrange(1, 12), rng.random() < 0.6, rng.random() < 0.6
        table = [[ln, textwrap.wrap(ln, width=width, expand_tabs=False, replace_whitespace=False, break_long_words=blw, break_on_hyphens=boh)]
                 for ln in sorted(set(str(s).splitlines()))]
        cases.append(Case("wordwrap", [Atom("c24"), Atom("wordwrap"), V(s), V(ws_), table],
                          lambda s=s, width=width, blw=blw, ws_=ws_, boh=boh: outcome(lambda: filt(True, "wordwrap", s, width, blw, ws_, boh)),
                          "C24:wordwrap", repr((s, width, blw, ws_, boh))))
    for _ in range(ctx.pick(150, 4500)):
        s = "".join(rng.choice(["a", "", "b c", "<"]) + rng.choice(["\n", "\r", "\r\n", "\x0b", "\x0c", "\x1c", "\x1d", "\x1e", "\x85", "\u2028", "\u2029", "\x1f", " ", "\n\r"])
                    for _ in range(rng.randrange(0, 5))) + rng.choice(["", "z"])
        cases.append(Case("splitlines", [Atom("c24"), Atom("splitlines"), s], lambda s=s: s.splitlines(), "C24:model:splitlines", repr(s)))

    # ---- run the L-unit cases ---------------------------------------------------------------------------------------------
    todo = [c for c in cases if wire_ok(core.sx(c.req))]
    replies = core.driver_batch([c.req for c in todo])
    evaluations = 0
    oom = 0
    for c, rep in zip(todo, replies):
        got = c.call()
        evaluations += 1
        dist[c.fam] = dist.get(c.fam, 0) + 1
        if rep[0] == "oom":
            oom += 1
            continue
        if rep[0] == "bad-request":
            raise core.HarnessError(f"driver rejected {core.sx(c.req)[:200]}")
        want = canon_reply(c.fam, rep)
        gotc = canon_got(c.fam, got)
        if c.fam in ("escape", "tojson") or (isinstance(gotc, tuple) and gotc[0] == "markup" and any(ch in gotc[1] for ch in M)) or want != gotc:
            nontrivial.add((c.fam, c.show))
        if want != gotc:
            sub = classify_diff(c.fam, want, gotc)
            model_only = c.key.startswith("C24:model:")
            res.violate(c.key + (":" + sub if sub else ""),
                        f"{c.fam} on {c.show[:200]}: implementation gives {str(gotc)[:200]!r}, model (contract) {str(want)[:200]!r}",
                        {"family": c.fam, "request": core.sx(c.req), "impl": repr(gotc), "model": repr(want)}, no_input=model_only)
    if cases and oom > len(cases) * 0.2:
        raise core.HarnessError(f"generator drifted: {oom} of {len(cases)} cases outside the model")

    uz = run_urlize(ctx, res, jinja2, dist, nontrivial)
    e2e = run_e2e(ctx, res, jinja2, dist, nontrivial)
    fb = run_filter_blocks(ctx, res, jinja2, dist, nontrivial)
    fb += run_envways(ctx, res, jinja2, dist)
    fb += run_key_probe(ctx, res, jinja2, dist, nontrivial)
    res.coverage.update({
        "evaluations": evaluations + uz["evaluations"] + e2e["renders"] + dist.get("tojson-oracle", 0) + fb,
        "filter_block_renders": fb,
        "distinct_nontrivial": len(nontrivial),
        "rule": ("strings are random concatenations of metacharacters, entity fragments (complete and cut), backslash/\\u escapes, "
                 "every white-space and line-break character, URL/e-mail like fragments and non-ASCII characters; values are str or "
                 "Markup; nested JSON-like values for tojson; dicts with hostile keys and None/undefined/Markup values for xmlattr; "
                 "each case is run through the real function and the Lean model (real re / textwrap answers supplied as the model's "
                 "parameters). Non-trivial: every escape/tojson/urlize case, every case whose result is Markup containing a metacharacter "
                 "or on which the sides differ (distinct inputs counted)"),
        "samples": [{"family": c.fam, "request": core.sx(c.req)[:300]} for c in (cases[10], cases[len(cases) // 2], cases[-1])] + uz["samples"] + e2e["samples"],
        "family_distribution": dist,
        "out_of_model": oom,
        "urlize": {k: v for k, v in uz.items() if k != "samples"},
        "e2e": {k: v for k, v in e2e.items() if k != "samples"},
    })


def canon_reply(fam, rep):
    if rep[0] == "err":
        return ("raised", str(rep[1]))
    v = rep[1]
    if fam == "escape":
        e, e1, isesc, un = v
        return [e, e, e, e1, un] if isesc is True else ["model-not-esc"]
    if fam == "jsondec":
        if v == "none":
            return "none"
        out = []
        for n in v:
            out += [n & 0xFF, n >> 8] if n < 0x10000 else list(chr(n).encode("utf-16-le"))
        return out
    if fam == "splitlines":
        return list(v)
    return unV(v)


def canon_got(fam, got):
    if isinstance(got, tuple) and got[0] == "raised":
        cls = got[1]
        # xmlattr raises ValueError with the key; the model's error carries the key
        return ("raised", cls)
    return got


def classify_diff(fam, want, got):
    if isinstance(want, tuple) and want[0] == "raised" and not (isinstance(got, tuple) and got[0] == "raised"):
        return "accepted"
    if isinstance(got, tuple) and got[0] == "raised":
        return "raised-" + got[1]
    if isinstance(want, tuple) and isinstance(got, tuple) and want[0] != got[0]:
        return "kind"
    return "value"


# ---------------------------------------------------------------------------------------------------------------------------
def run_urlize(ctx, res, jinja2, dist, nontrivial):
    import re
    from markupsafe import Markup
    from jinja2 import nodes, utils
    from jinja2.exceptions import FilterArgumentError

    rng = ctx.rng("urlize")
    texts = ["", "http://example.com", "(www.foo.com).", "<http://a.org>", "mailto:me@x.org, me@x.org", "a@b", "foo.info\nbar",
             "http://a.com\" onclick=\"x", "((http://a.com/p(1)))", "&lt;x.org&gt;", "ftp://h/x tel:+1", "http://a.com\x0bb.org\x1cwww.c.com"]
    texts += [rurl(rng) for _ in range(ctx.pick(300, 9000))] + [rstr(rng, 8) for _ in range(ctx.pick(150, 4500))]
    texts = [t for t in texts if wire_ok(t)]
    mids = core.driver_batch([[Atom("c24"), Atom("urlize-middles"), t] for t in texts])
    reqs, jobs = [], []
    schemes_pool = [None, None, (), ("ftp://",), ("tel:", "ftp://"), ("ft", "ftp:"), ("javascript:", "ftp://", "ftp:/")]
    for t, m in zip(texts, mids):
        middles = sorted(set(m[1]))
        table = [[x, utils._http_re.match(x) is not None, utils._email_re.match(x) is not None, utils._email_re.match(x[7:]) is not None]
                 for x in middles]
        limit = rng.choice([None, None, 0, 3, 10, 25, -2])
        rel = rng.choice([None, None, "", "nofollow", "a b", "x\" y='z'", "<r>&"])
        target = rng.choice([None, None, "", "_blank", "t\"><script>", Markup("_m")])
        schemes = rng.choice(schemes_pool)
        reqs.append([Atom("c24"), Atom("urlize"), t, Atom("none") if limit is None else limit, Atom("none") if rel is None else V(rel),
                     Atom("none") if target is None else V(target), Atom("none") if schemes is None else list(schemes), table])
        jobs.append((t, limit, rel, target, schemes, table))
    reps = core.driver_batch(reqs)
    evaluations, anchors, shapes_bad = 0, 0, 0
    for (t, limit, rel, target, schemes, table), rep, req in zip(jobs, reps, reqs):
        try:
            got = utils.urlize(t, trim_url_limit=limit, rel=rel, target=target, extra_schemes=schemes)
        except Exception as e:  # noqa
            got = f"raised:{type(e).__name__}"
        evaluations += 1
        dist["urlize"] = dist.get("urlize", 0) + 1
        want, shape = rep[1][0], rep[1][1]
        anchors += got.count("<a href=")
        nontrivial.add(("urlize", t, limit, rel, str(target), schemes))
        if shape is not True:
            raise core.HarnessError(f"model output not in the documented shape (model defect): {want!r}")
        if got != want:
            # decide with the property's oracle (Lean shape recogniser) whether the implementation's own output breaks the property
            ok = core.driver_batch([[Atom("c24"), Atom("shape"), got]])[0][1] if wire_ok(got) else False
            if ok is True:
                res.violate("C24:urlize:model-difference", f"urlize({t!r}, {limit}, {rel!r}, {target!r}, {schemes}) = {got!r}; model {want!r} "
                            "(output still has the documented shape)", {"request": core.sx(req), "impl": got, "model": want}, no_input=True)
            else:
                res.violate("C24:urlize:shape", f"urlize({t!r}, {limit}, {rel!r}, {target!r}, {schemes}) = {got!r} is not a concatenation of escaped "
                            f"text and well-formed anchors; contract {want!r}", {"request": core.sx(req), "impl": got, "model": want})
    # the filter: policies, nofollow, scheme validation; output judged by the shape recogniser
    env = jinja2.Environment(autoescape=True)
    ec = nodes.EvalContext(env)
    f_reqs, f_jobs = [], []
    bad_schemes = ["", ":", "a:", "<x:", "x y:", "ftp:///", "java script:", "ab", "a\"b:", "ab:x", "é:"]
    for t in texts[: ctx.pick(200, 6000)]:
        env.policies["urlize.rel"] = rng.choice(["noopener", None, "x\"y", "a b"])
        env.policies["urlize.target"] = rng.choice([None, "_blank", "'t'"])
        env.policies["urlize.extra_schemes"] = rng.choice([None, ["ftp://"], ["tel:"]])
        kw = {}
        if rng.random() < 0.5:
            kw["nofollow"] = True
        if rng.random() < 0.4:
            kw["rel"] = rng.choice(["me", "a\tb  c", "<i>"])
        if rng.random() < 0.3:
            kw["target"] = rng.choice(["_top", "\"q"])
        if rng.random() < 0.3:
            kw["trim_url_limit"] = rng.choice([0, 5, 30])
        sch = None
        if rng.random() < 0.35:
            sch = [rng.choice(bad_schemes + ["ftp://", "tel:", "x-y.z+w:/"]) for _ in range(rng.randrange(1, 3))]
            kw["extra_schemes"] = sch
        try:
            out = env.call_filter("urlize", t, (), kw, eval_ctx=ec)
            outcome = ("ok", str(out), isinstance(out, Markup))
        except FilterArgumentError:
            outcome = ("FilterArgumentError",)
        except Exception as e:  # noqa
            outcome = ("raised:" + type(e).__name__,)
        evaluations += 1
        dist["urlize-filter"] = dist.get("urlize-filter", 0) + 1
        if sch is not None:
            for s in sch:
                wc = "".join(sorted({c for c in s if re.fullmatch(r"\w", c)}))
                f_reqs.append([Atom("c24"), Atom("valid-scheme"), s, wc])
                f_jobs.append(("scheme", s, sch, outcome, t, kw))
        if outcome[0] == "ok" and wire_ok(outcome[1]):
            f_reqs.append([Atom("c24"), Atom("shape"), outcome[1]])
            f_jobs.append(("shape", t, kw, outcome, None, None))
        elif outcome[0].startswith("raised"):
            res.violate("C24:urlize:filter-raised", f"urlize filter on {t!r} {kw} {outcome[0]}", {"text": t, "kw": repr(kw)})
    f_reps = core.driver_batch(f_reqs)
    verdict = {}
    for job, rep in zip(f_jobs, f_reps):
        if job[0] == "shape":
            _, t, kw, outcome, _, _ = job
            if rep[1] is not True or outcome[2] is not True:
                res.violate("C24:urlize:filter-shape", f"{t!r}|urlize({kw}) = {outcome[1]!r}: not escaped text plus well-formed anchors "
                            f"(Markup: {outcome[2]})", {"text": t, "kw": repr(kw), "out": outcome[1]})
        else:
            _, s, sch, outcome, t, kw = job
            verdict.setdefault(id(sch), [sch, outcome, t, kw, True])
            verdict[id(sch)][4] = verdict[id(sch)][4] and rep[1] is True
            model_valid = rep[1] is True
            real_valid = jinja2.filters._uri_scheme_re.fullmatch(s) is not None
            if model_valid != real_valid:
                res.violate("C24:model:valid-scheme", f"_uri_scheme_re on {s!r}: {real_valid}, model {model_valid}", {"scheme": s}, no_input=True)
    for sch, outcome, t, kw, all_valid in verdict.values():
        if (outcome[0] == "FilterArgumentError") == all_valid:
            res.violate("C24:urlize:scheme-validation", f"urlize filter with extra_schemes={sch}: {outcome[0]}, schemes valid per the documented "
                        f"pattern: {all_valid}", {"text": t, "kw": repr(kw)})
    return {"evaluations": evaluations, "anchors_emitted": anchors, "texts": len(texts),
            "samples": [{"family": "urlize", "request": core.sx(reqs[3])[:300]}]}


# ---------------------------------------------------------------------------------------------------------------------------
def run_e2e(ctx, res, jinja2, dist, nontrivial):
    """rendered templates, data-controlled arguments, judged by the Lean-side oracles only"""
    rng = ctx.rng("e2e")
    env = jinja2.Environment(autoescape=True)
    env.policies["urlize.extra_schemes"] = ["ftp://"]
    TPL = [
        ("mfree", "{% set m %}a b\nc d{% endset %}{{ m|indent(w, first=true) }}"),
        ("mfree", "{% set m %}a b\n\nc d{% endset %}{{ m|indent(w, blank=true) }}"),
        ("mfree", "{% set m %}a b c{% endset %}{{ m|replace(' ', w) }}"),
        ("mfree", "{% set m %}a b c{% endset %}{{ m|replace(w, x) }}"),
        ("mfree", "{{ x|replace(w, y) }}"),
        ("mfree", "{% set m %}a b c{% endset %}{{ [x, m, y]|join(w) }}"),
        ("mfree", "{% set m %}-{% endset %}{{ [x, y]|join(m) }}"),
        ("mfree", "{% set m %}%s-%s{% endset %}{{ m|format(x, y) }}"),
        ("mfree", "{% set m %}a b c d e f g h{% endset %}{{ m|truncate(9, false, w[:3], 0) }}"),
        ("mfree", "{% set m %}a b c d e f g h{% endset %}{{ m|truncate(9, true, w[:3], 0) }}"),
        ("mfree", "{% set m %}a b c d e f g h{% endset %}{{ m|wordwrap(5, true, w) }}"),
        ("mfree", "{{ x|wordwrap(3, true, w) }}"),
        ("mfree", "{{ x|indent(w) }}|{{ x|truncate(4, true, w[:3], 0) }}|{{ '%s<i>'|format(y) }}"),
        ("esc", "{{ x|e }}{{ x|escape }}{{ x|forceescape }}{{ (x|e)|forceescape }}"),
        ("tojson", "{{ x|tojson }}{{ [x, {y: w}]|tojson }}{{ {'k': x}|tojson(2) }}"),
        ("attrs", "{{ {'a': x, 'b': none, 'c': nope, 'd': y, 'e-f': 1}|xmlattr }}"),
        ("attrs", "{{ {'a': x}|xmlattr(false) }}"),
        ("attrs-or-raise", "{{ {w: x}|xmlattr }}"),
        ("shape", "{{ x|urlize }}"),
        ("shape", "{{ u|urlize(trim_url_limit=n, nofollow=true, target=w, rel=y) }}"),
        ("shape", "{{ u|urlize(10, false, w) }}"),
    ]
    reqs, jobs = [], []
    renders = 0
    for _ in range(ctx.pick(60, 1500)):
        data = {"x": rstr(rng, 6), "y": rstr(rng, 4), "w": rstr(rng, 2), "u": rurl(rng), "n": rng.choice([0, 4, 12, 40])}
        for kind, src in TPL:
            try:
                out = env.from_string(src).render(**data)
            except ValueError as e:
                out = None
                if kind != "attrs-or-raise":
                    res.violate("C24:e2e:raised", f"{src!r} raised ValueError {e}", {"src": src, "data": data})
                    continue
            except Exception as e:  # noqa
                res.violate("C24:e2e:raised", f"{src!r} raised {type(e).__name__}: {e}", {"src": src, "data": data})
                continue
            renders += 1
            dist["e2e-" + kind] = dist.get("e2e-" + kind, 0) + 1
            if out is None or not wire_ok(out):
                continue
            op = {"mfree": "mfree", "esc": "isesc", "tojson": "tojson-safe", "attrs": "attrs", "attrs-or-raise": "attrs", "shape": "shape"}[kind]
            if op == "tojson-safe":
                bad = [c for c in "<>&'" if c in out]
                if bad:
                    res.violate("C24:e2e:tojson", f"{src!r} with {data} renders {out!r} containing {bad}", {"src": src, "data": data})
                continue
            reqs.append([Atom("c24"), Atom(op), out])
            jobs.append((kind, src, data, out))
    for (kind, src, data, out), rep in zip(jobs, core.driver_batch(reqs)):
        if any(ch in out for ch in M + "&"):
            nontrivial.add(("e2e", src, out))
        if rep[1] is not True:
            res.violate(f"C24:e2e:{kind}", f"{src!r} with {data} renders {out!r}: fails the {kind} oracle", {"src": src, "data": data, "out": out})
    return {"renders": renders, "templates": len(TPL), "samples": [{"family": "e2e", "src": TPL[0][1]}]}


# ---------------------------------------------------------------------------------------------------------------------------
KEY_PROBE_CHARS = list(range(0, 33)) + [0x2f, 0x3e, 0x3d, 0x22, 0x27, 0x3c, 0x26, 0x7f, 0x85, 0xa0, 0x1680, 0x2000, 0x2028, 0x2029, 0x202f, 0x3000, 0xfeff]


def run_key_probe(ctx, res, jinja2, dist, nontrivial):
    """xmlattr keys containing every character of a systematic set (all ASCII control characters, space, / > = " ' < &, DEL, NEL,
    NBSP and other Unicode spaces, line / paragraph separator, BOM), alone and embedded: whatever the filter ACCEPTS must render as
    an attribute list by the HTML standard's attribute-name rule (Lean recogniser attrsStrictOK: tab, LF, FF, CR, space, / > = end a
    name; that rule is fixed, not read from _attr_key_re, so a weakened key pattern is judged against the standard)."""
    from jinja2 import nodes

    env = jinja2.Environment(autoescape=True)
    ec = nodes.EvalContext(env)
    reqs, jobs = [], []
    accepted = rejected = 0
    for cp in KEY_PROBE_CHARS:
        ch = chr(cp)
        for key in (ch, "a" + ch + "b", ch + "a", "a" + ch, "class" + ch + "onclick"):
            for autospace in (True, False):
                try:
                    out = str(env.call_filter("xmlattr", {key: "v", "z": 1}, (autospace,), eval_ctx=ec))
                except ValueError:
                    rejected += 1
                    continue
                except Exception as e:  # noqa
                    res.violate("C24:xmlattr:key-probe-raised", f"xmlattr with key {key!r} raised {type(e).__name__}", {"key": key})
                    continue
                accepted += 1
                reqs.append([Atom("c24"), Atom("attrs-strict"), out])
                jobs.append((cp, key, autospace, out))
    dist["xmlattr-key-probe"] = accepted + rejected
    for (cp, key, autospace, out), rep in zip(jobs, core.driver_batch(reqs)):
        nontrivial.add(("key-probe", key))
        if rep[1] is not True:
            res.violate(f"C24:xmlattr:key-char:U+{cp:04X}", f"xmlattr accepts the key {key!r} (contains U+{cp:04X}) and renders {out!r}: by the HTML "
                        "standard's attribute-name rule this is not one attribute with that name (the character ends / splits the name)",
                        {"key": key, "autospace": autospace, "out": out, "key_probe": True})
    return accepted + rejected


BLOCK_MODES = ["static", "select", "block", "volatile", "volatile_on", "static:async", "volatile:async"]


def run_filter_blocks(ctx, res, jinja2, dist, nontrivial):
    """the six Markup-aware filters applied to a buffered body — `{% filter f(args) %}BODY{% endfilter %}` and
    `{% set v | f(args) %}BODY{% endset %}{{ v }}` — with data-controlled arguments, in every autoescape configuration (static on,
    select_autoescape, `{% autoescape true %}` in an environment with autoescape off, runtime-decided `{% autoescape flag %}` with the
    environment default off and on).  Contract: the filter receives Markup(BODY) and the block writes escape(result); the expected text
    is computed by the Lean filter models."""
    from markupsafe import Markup

    rng = ctx.rng("filter-blocks")
    bodies = ["a b\nc d e", "<p>a b</p>\n<p>c d e</p>", "x & y <i>z</i> w", "a"]
    reqs, jobs = [], []
    for _ in range(ctx.pick(60, 600)):
        w, y = rstr(rng, 2), rstr(rng, 2)
        body = rng.choice(bodies)
        specs = [
            ("replace", "' ', w", [Atom("c24"), Atom("replace"), True, V(Markup(body)), V(" "), V(w), Atom("none")]),
            ("replace", "'a', w, 1", [Atom("c24"), Atom("replace"), True, V(Markup(body)), V("a"), V(w), 1]),
            ("replace", "y, w", [Atom("c24"), Atom("replace"), True, V(Markup(body)), V(y), V(w), Atom("none")]),
            ("indent", "w, true", [Atom("c24"), Atom("indent"), V(Markup(body)), [Atom("str"), V(w)], True, False]),
            ("indent", "w, false, true", [Atom("c24"), Atom("indent"), V(Markup(body)), [Atom("str"), V(w)], False, True]),
            ("truncate", "9, true, w[:3], 0", [Atom("c24"), Atom("truncate"), V(Markup(body)), 9, True, V(w[:3]), 0]),
            ("truncate", "9, false, w[:3], 0", [Atom("c24"), Atom("truncate"), V(Markup(body)), 9, False, V(w[:3]), 0]),
            ("wordwrap", "3, true, w", [Atom("c24"), Atom("wordwrap"), V(Markup(body)), V(w),
                                        [[ln, textwrap.wrap(ln, width=3, expand_tabs=False, replace_whitespace=False, break_long_words=True,
                                                            break_on_hyphens=True)] for ln in sorted(set(body.splitlines()))]]),
            ("join", "w", [Atom("c24"), Atom("join"), True, [V(ch) for ch in body], V(w)]),
        ]
        fbody = rng.choice(["[%s]", "<i>%s</i> %%", "%s%s"])
        fargs = [w] if fbody.count("%s") == 1 else [w, y]
        specs.append(("format", "w" if len(fargs) == 1 else "w, y", [Atom("c24"), Atom("format"), V(Markup(fbody)), [V(a) for a in fargs]]))
        for f, targs, req in specs:
            b = fbody if f == "format" else body
            if not wire_ok(core.sx(req)):
                continue
            reqs.append(req)
            jobs.append((f, targs, b, {"w": w, "y": y, "flag": True}))
    replies = core.driver_batch(reqs)
    esc_reqs, esc_idx = [], {}
    for i, rep in enumerate(replies):
        if rep[0] == "ok" and str(rep[1][0]) == "plain":
            esc_idx[i] = len(esc_reqs)
            esc_reqs.append([Atom("c24"), Atom("escape"), rep[1][1]])
    esc = core.driver_batch(esc_reqs)
    renders = 0
    envs = {}
    for mode in BLOCK_MODES:
        akw = {"enable_async": True} if mode.endswith(":async") else {}
        if mode == "select":
            envs[mode] = jinja2.Environment(loader=jinja2.DictLoader({}), autoescape=jinja2.select_autoescape(enabled_extensions=("html",), default=False))
        else:
            envs[mode] = jinja2.Environment(loader=jinja2.DictLoader({}), autoescape=mode in ("static", "volatile_on", "static:async"), **akw)
    wraps = {"static": ("", ""), "select": ("", ""), "block": ("{% autoescape true %}", "{% endautoescape %}"),
             "volatile": ("{% autoescape flag %}", "{% endautoescape %}"), "volatile_on": ("{% autoescape flag %}", "{% endautoescape %}"),
             "static:async": ("", ""), "volatile:async": ("{% autoescape flag %}", "{% endautoescape %}")}
    # chains: a second filter applied to the first one's result — the contract is the composition of the Lean filter models in
    # order, the buffer entering the FIRST filter as Markup(body)
    chain_reqs, chain_jobs = [], []
    for i, ((f, targs, b, data), rep) in enumerate(zip(jobs, replies)):
        if rep[0] != "ok" or i % 2:
            continue
        v1 = [Atom(str(rep[1][0])), rep[1][1]]
        if i % 4 == 0:
            f2, t2, req2 = "replace", "' ', y", [Atom("c24"), Atom("replace"), True, v1, V(" "), V(data["y"]), Atom("none")]
        else:
            f2, t2, req2 = "indent", "y, true", [Atom("c24"), Atom("indent"), v1, [Atom("str"), V(data["y"])], True, False]
        if wire_ok(core.sx(req2)):
            chain_reqs.append(req2)
            chain_jobs.append((f + "(" + targs + ")|" + f2 + "(" + t2 + ")", f + "|" + f2, b, data))
    chain_replies = core.driver_batch(chain_reqs)
    todo = [(f + "(" + targs + ")", f, b, data, rep) for (f, targs, b, data), rep in zip(jobs, replies)] + \
           [(call, label, b, data, rep) for (call, label, b, data), rep in zip(chain_jobs, chain_replies)]
    esc2_reqs, esc2_idx = [], {}
    for i, (_, _, _, _, rep) in enumerate(todo):
        if rep[0] == "ok" and str(rep[1][0]) == "plain":
            esc2_idx[i] = len(esc2_reqs)
            esc2_reqs.append([Atom("c24"), Atom("escape"), rep[1][1]])
    esc2 = core.driver_batch(esc2_reqs)
    for i, (call, label, b, data, rep) in enumerate(todo):
        if rep[0] == "oom":
            continue
        if rep[0] == "err":
            want = "raised"
        else:
            want = rep[1][1] if str(rep[1][0]) == "markup" else esc2[esc2_idx[i]][1][0]
        for mode in (BLOCK_MODES if not ctx.quick else [BLOCK_MODES[i % len(BLOCK_MODES)], "volatile"]):
            for form, src in (("filter-block", "{% filter " + call + " %}" + b + "{% endfilter %}"),
                              ("filtered-set-block", "{% set v | " + call + " %}" + b + "{% endset %}{{ v }}")):
                full = wraps[mode][0] + src + wraps[mode][1]
                env = envs[mode]
                try:
                    if mode == "select":
                        env.loader.mapping["t.html"] = full
                        env.cache.clear()
                        out = env.get_template("t.html").render(**data)
                    else:
                        out = env.from_string(full).render(**data)
                except Exception as e:  # noqa
                    out = "raised"
                renders += 1
                dist["filter-block" + ("-chain" if "|" in label else "")] = dist.get("filter-block" + ("-chain" if "|" in label else ""), 0) + 1
                nontrivial.add(("filter-block", call, b, data["w"], mode, form))
                if out != want:
                    res.violate(f"C24:{form}:{label}", f"{full!r} with w={data['w']!r} y={data['y']!r} ({mode}) renders {out!r}; contract (filters applied in "
                                f"order, the first to the Markup body, plain arguments escaped, result escaped on output) {want!r}",
                                {"src": full, "data": data, "mode": mode, "autoescape_default": mode in ("static", "volatile_on", "static:async")})
    return renders


def run_envways(ctx, res, jinja2, dist):
    """the filter templates loaded by name through environments reached by overlays (harness/gen/autoesc_envways.py): the render must
    equal a fresh Environment's with the effective options"""
    from harness.gen import autoesc_envways as W

    rng = ctx.rng("envways")
    data = {"x": rstr(rng, 3), "y": rstr(rng, 2)}
    n = 0
    for k, sc in enumerate(W.plan(rng, ctx.pick(10, 200))):
        for way, i, kind, name, out, fresh in W.execute(jinja2, sc, data, ["sync", "async:render", "async:render_async"][k % 3]):
            n += 1
            dist["envway"] = dist.get("envway", 0) + 1
            if out != fresh:
                res.violate(f"C24:envway:{way}", f"environment reached by {way} (autoescape={kind}): get_template({name!r}).render = {out!r}; a fresh "
                            f"Environment with the effective options renders {fresh!r}; history {sc}", {"scenario": sc, "data": data, "name": name})
    return n


def replay(ctx, case):
    jinja2 = core.import_jinja()
    c = case["case"]
    if c.get("key_probe"):
        from jinja2 import nodes
        env = jinja2.Environment(autoescape=True)
        try:
            return {"render": str(env.call_filter("xmlattr", {c["key"]: "v", "z": 1}, (c["autospace"],), eval_ctx=nodes.EvalContext(env)))}
        except Exception as e:  # noqa
            return {"raised": f"{type(e).__name__}: {e}"}
    if "scenario" in c:
        from harness.gen import autoesc_envways as W
        return [{"way": w, "autoescape": k, "name": n, "render": o, "fresh": f} for w, i, k, n, o, f in W.execute(jinja2, c["scenario"], c["data"])]
    if "src" in c and "autoescape_default" in c:
        try:
            return {"render": jinja2.Environment(autoescape=c["autoescape_default"]).from_string(c["src"]).render(**c["data"])}
        except Exception as e:  # noqa
            return {"raised": f"{type(e).__name__}: {e}"}
    if "src" in c:
        env = jinja2.Environment(autoescape=True)
        env.policies["urlize.extra_schemes"] = ["ftp://"]
        try:
            return {"render": env.from_string(c["src"]).render(**c.get("data", {}))}
        except Exception as e:  # noqa
            return {"raised": f"{type(e).__name__}: {e}"}
    if "request" in c:
        return {"model": str(core.driver_batch([core.parse_sx(c["request"])])[0]), "impl": c.get("impl")}
    return c
